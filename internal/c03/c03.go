package c03

import (
	"bytes"
	"errors"
	"fmt"
	"reflect"
	"strconv"
	"strings"
	"sync"
	"sync/atomic"
	"time"

	"github.com/scrapli/scrapligo/driver/netconf"
	"github.com/scrapli/scrapligo/driver/opoptions"
	"github.com/scrapli/scrapligo/driver/options"
	"github.com/scrapli/scrapligo/logging"
	"github.com/scrapli/scrapligo/response"
	"github.com/scrapli/scrapligo/util"

	"verif/internal/devsim"
	"verif/internal/mon"
	"verif/internal/ncsim"
)

// device wraps the server model: when the client's stream stops decoding, the model answers the
// request the harness expects next, so that the call returns at once instead of after its timeout
// (the verdict is taken from ProtoErr, not from the reply).
type device struct {
	*ncsim.Server
	lastID int
	bailed bool
}

func (d *device) Input(c *devsim.Conn, b []byte) {
	d.Server.Input(c, b)
	if d.Server.ProtoErr != "" && !d.bailed {
		d.bailed = true
		id := d.lastID + 1
		if d.lastID == 0 {
			id = 101
		}
		d.Server.Send(c, ncsim.Reply(id, "<ok/>"), nil)
	}
}

// stallConn wraps the transport model: one chosen Write stalls until another Write call has gone
// through or a maximal time has passed (a peer that stops reading for a while). Everything else is
// the embedded devsim.Conn.
type stallConn struct {
	*devsim.Conn
	mu       sync.Mutex
	n        int // writes seen
	stallAt  int // absolute index of the write that stalls (0: none)
	max      time.Duration
	stalling bool
	others   int // writes completed while the chosen one was stalling
	inflight int
	stalled  int
	overtook int
}

func (s *stallConn) Arm(k int, max time.Duration) {
	s.mu.Lock()
	s.stallAt, s.max, s.others = s.n+k, max, 0
	s.mu.Unlock()
}

func (s *stallConn) Write(b []byte) error {
	s.mu.Lock()
	s.n++
	s.inflight++
	mine := s.n == s.stallAt
	if mine {
		s.stalling = true
		s.stalled++
		deadline := time.Now().Add(s.max)
		for s.others == 0 && time.Now().Before(deadline) {
			s.mu.Unlock()
			time.Sleep(time.Millisecond)
			s.mu.Lock()
		}
		if s.others > 0 {
			s.overtook++
		}
		s.stalling = false
	}
	during := s.stalling && !mine
	s.mu.Unlock()
	err := s.Conn.Write(b)
	s.mu.Lock()
	s.inflight--
	if during {
		s.others++
	}
	s.mu.Unlock()
	return err
}

// Quiesce waits until no write is stalling or in flight.
func (s *stallConn) Quiesce(d time.Duration) bool {
	deadline := time.Now().Add(d)
	for {
		s.mu.Lock()
		ok := !s.stalling && s.inflight == 0
		s.mu.Unlock()
		if ok || time.Now().After(deadline) {
			return ok
		}
		time.Sleep(time.Millisecond)
	}
}

func (o OptSpec) option() util.Option {
	switch o.K {
	case "filter":
		return opoptions.WithFilter(o.S)
	case "filter-type":
		return opoptions.WithFilterType(o.S)
	case "defaults":
		return opoptions.WithDefaultType(o.S)
	case "confirmed":
		return opoptions.WithCommitConfirmed()
	case "confirm-timeout":
		return opoptions.WithCommitConfirmTimeout(o.U)
	case "persist":
		return opoptions.WithCommitConfirmedPersist(o.S)
	case "persist-id":
		return opoptions.WithCommitConfirmedPersistID(o.S)
	}
	panic("c03: unknown option kind " + o.K)
}

// probePool checks that the caller's shared option array is what the caller put there: every
// element, applied to a fresh OperationOptions, has the effect of its spec; the spare capacity is
// still empty.
func probePool(arr []util.Option, pool []OptSpec) *complaint {
	full := arr[:cap(arr)]
	for j := range full {
		if j >= len(pool) {
			if full[j] != nil {
				got := &netconf.OperationOptions{}
				_ = full[j](got)
				return bad("c03/caller-option-slice-modified", "the call wrote into the spare capacity of the caller's option slice: slot %d (caller's length %d) now holds an option with effect %+v", j, len(pool), *got)
			}
			continue
		}
		want, got := &netconf.OperationOptions{}, &netconf.OperationOptions{}
		_ = pool[j].option()(want)
		if full[j] == nil {
			return bad("c03/caller-option-slice-modified", "slot %d of the caller's option slice was cleared", j)
		}
		_ = full[j](got)
		if !reflect.DeepEqual(want, got) {
			return bad("c03/caller-option-slice-modified", "slot %d of the caller's option slice (%s) was replaced: its effect is now %+v, was %+v", j, pool[j].K, *got, *want)
		}
	}
	return nil
}

// callPool invokes an option-taking method with a prefix of the session's shared option array.
func callPool(d *netconf.Driver, q Req, arr []util.Option, extra []util.Option) (*response.NetconfResponse, error) {
	o := arr[:q.PoolN] // len PoolN, cap = cap(arr): spread as is, exactly like a caller would
	if len(extra) > 0 {
		o = append(append([]util.Option(nil), o...), extra...)
	}
	switch opOf(q.Shape) {
	case "get":
		f := ""
		if q.Shape != "get" {
			f = q.Arg.Str()
		}
		return d.Get(f, o...)
	case "get-config":
		return d.GetConfig(q.DS, o...)
	case "rpc":
		return d.RPC(o...)
	}
	return d.Commit(o...)
}

// call invokes the public method a request names.
func call(d *netconf.Driver, q Req, extra []util.Option) (*response.NetconfResponse, error) {
	arg := q.Arg.Str()
	o := append([]util.Option(nil), extra...)
	switch q.Shape {
	case "get":
		return d.Get("", o...)
	case "get-subtree":
		return d.Get(arg, o...)
	case "get-xpath":
		return d.Get(arg, append(o, opoptions.WithFilterType("xpath"))...)
	case "get-config", "get-config-subtree", "get-config-xpath":
		if q.Shape != "get-config" {
			o = append(o, opoptions.WithFilter(arg))
		}
		if q.Shape == "get-config-xpath" {
			o = append(o, opoptions.WithFilterType("xpath"))
		}
		if q.Defaults != "" {
			o = append(o, opoptions.WithDefaultType(q.Defaults))
		}
		return d.GetConfig(q.DS, o...)
	case "edit-config":
		return d.EditConfig(q.DS, arg)
	case "copy-config":
		return d.CopyConfig(q.DS, q.DS2)
	case "delete-config":
		return d.DeleteConfig(q.DS)
	case "lock":
		return d.Lock(q.DS)
	case "unlock":
		return d.Unlock(q.DS)
	case "validate":
		return d.Validate(q.DS)
	case "discard":
		return d.Discard()
	case "rpc":
		return d.RPC(append(o, opoptions.WithFilter(arg))...)
	}
	// commit variants
	if q.Confirmed {
		o = append(o, opoptions.WithCommitConfirmed())
	}
	if q.Timeout > 0 {
		o = append(o, opoptions.WithCommitConfirmTimeout(q.Timeout))
	}
	if q.Persist != "" {
		o = append(o, opoptions.WithCommitConfirmedPersist(q.Persist))
	}
	if q.PersistID != "" {
		o = append(o, opoptions.WithCommitConfirmedPersistID(q.PersistID))
	}
	return d.Commit(o...)
}

func hasCap(caps []string, sub string) bool {
	for _, c := range caps {
		if strings.Contains(c, sub) {
			return true
		}
	}
	return false
}

// stallOpTimeout is the operation timeout of a call one of whose writes stalls (for longer).
const stallOpTimeout = 150 * time.Millisecond

// plannedTimeout is the operation timeout of a request the server is told not to answer.
const plannedTimeout = 200 * time.Millisecond

type sessionOut struct {
	forces, headers []bool // the option values in force at each call
	inputs          [][]byte
	ids             []int
	obs             map[string]int64
	tags            map[string]bool
	wire            int
}

func viol0(c *complaint, pos int, q Req, srv *ncsim.Server) *mon.Result {
	ev := map[string]interface{}{"position": pos + 1, "shape": q.Shape, "messages_decoded": len(srv.Msgs), "proto_err": srv.ProtoErr,
		"wire_bytes": len(srv.Wire), "wire_tail": around(srv.Wire, len(srv.Wire))}
	return &mon.Result{Verdict: mon.Violated, Key: c.key, NonTrivial: true,
		Detail: fmt.Sprintf("request %d (%s): %s", pos+1, q.Shape, c.detail), Events: ev}
}

// runSession opens one session with the given option values, performs the requests and judges every
// call on the wire and XML level.
// forceOff / headerOn pin one option for a twin session: self-closing never forced (flips of that
// field are skipped) / header always present; the other option follows the descriptor.
func runSession(s Session, forceOff, headerOn bool) (*sessionOut, *mon.Result) {
	force, header := s.Force && !forceOff, s.Header || headerOn
	caps := []string{ncsim.Cap10}
	if s.Version == "1.1" || s.Via == "preferred" {
		caps = append(caps, ncsim.Cap11)
	}
	caps = append(caps, s.Caps...)
	viol := func(c *complaint, pos int, q Req, srv *ncsim.Server) *mon.Result {
		r := viol0(c, pos, q, srv)
		r.Detail += fmt.Sprintf(" [server hello: with-defaults %s; capabilities %q]", s.WD, caps)
		return r
	}
	srv := &ncsim.Server{HelloBytes: ncsim.Hello(caps, "7")}
	dev := &device{Server: srv}
	srv.OnMsg = func(sv *ncsim.Server, c *devsim.Conn, m *ncsim.Msg) {
		if m.Hello {
			return
		}
		dev.lastID = m.ID
		if k := m.Index - 1; k < len(s.Reqs) && s.Reqs[k].NoAnswer != "" {
			return // planned: no answer (or a late one, sent by the harness after the call returned)
		}
		sv.Send(c, ncsim.Reply(m.ID, "<ok/>"), nil)
	}
	conn := devsim.NewConn(dev, devsim.Config{Seg: s.Seg})
	defer conn.Abandon()
	sc := &stallConn{Conn: conn}
	var poolArr []util.Option
	if len(s.Pool) > 0 {
		poolArr = make([]util.Option, len(s.Pool), len(s.Pool)+3)
		for j, o := range s.Pool {
			poolArr[j] = o.option()
		}
	}
	opts := []util.Option{options.WithCustomTransport(sc), options.WithTimeoutOps(8 * time.Second), options.WithReadDelay(50 * time.Microsecond)}
	if s.Via == "preferred" {
		opts = append(opts, options.WithNetconfPreferredVersion(s.Version))
	}
	var logLines, logBytes int64
	if s.Log != "" {
		li, lerr := logging.NewInstance(logging.WithLevel(s.Log), logging.WithLogger(func(a ...interface{}) {
			atomic.AddInt64(&logLines, 1)
			for _, x := range a {
				if str, ok := x.(string); ok {
					atomic.AddInt64(&logBytes, int64(len(str)))
				}
			}
		}))
		if lerr != nil {
			return nil, &mon.Result{Verdict: mon.Violated, Key: "c03/harness:logger", Detail: lerr.Error()}
		}
		opts = append(opts, options.WithLogger(li))
	}
	if force {
		opts = append(opts, options.WithNetconfForceSelfClosingTags())
	}
	if !header {
		opts = append(opts, options.WithNetconfExcludeHeader())
	}
	d, err := netconf.NewDriver("dev", opts...)
	if err != nil {
		return nil, &mon.Result{Verdict: mon.Violated, Key: "c03/open-failed", Detail: "NewDriver: " + err.Error()}
	}
	t0 := time.Now()
	if err := d.Open(); err != nil {
		if mon.LoadedSince(t0) {
			return nil, &mon.Result{Verdict: mon.Inconclusive, Detail: "open failed under load: " + err.Error()}
		}
		return nil, &mon.Result{Verdict: mon.Violated, Key: "c03/open-failed", Detail: "Open: " + err.Error()}
	}
	closed := false
	closeDriver := func() bool {
		if closed {
			return true
		}
		closed = true
		done := make(chan struct{})
		go func() { defer func() { recover(); close(done) }(); d.Close() }()
		select {
		case <-done:
			return true
		case <-time.After(5 * time.Second):
			return false
		}
	}
	defer closeDriver()
	if d.SelectedVersion != s.Version {
		return nil, &mon.Result{Verdict: mon.Violated, Key: "c03/harness:version", Detail: fmt.Sprintf("session selected %q, case wants %q", d.SelectedVersion, s.Version)}
	}
	out := &sessionOut{obs: map[string]int64{}, tags: map[string]bool{}}
	wantGap, wantFraming := "\n", "eom"
	if s.Version == "1.1" {
		wantGap, wantFraming = "", "chunked"
	}
	prevID, prevLen := 0, 0
	desync := false
	resps := make([]*response.NetconfResponse, len(s.Reqs))
	for i, q := range s.Reqs {
		if q.SetForce != nil && !forceOff {
			force = *q.SetForce
			d.ForceSelfClosingTags = force
			out.obs["option_field_assignments_after_open"]++
		}
		if q.SetHeader != nil && !headerOn {
			header = *q.SetHeader
			d.ExcludeHeader = !header
			out.obs["option_field_assignments_after_open"]++
		}
		out.forces = append(out.forces, force)
		out.headers = append(out.headers, header)
		var wireBefore, msgsBefore int
		conn.Do(func() { wireBefore, msgsBefore = len(srv.Wire), len(srv.Msgs) })
		planned := q.NoAnswer != ""
		var extra []util.Option
		savedTO := d.Channel.TimeoutOps
		if planned || q.Stall > 0 {
			to := plannedTimeout
			if q.Stall > 0 {
				to = stallOpTimeout
			}
			if q.TimeoutVia == "op" {
				extra = append(extra, opoptions.WithTimeoutOps(to))
			} else {
				d.Channel.TimeoutOps = to
			}
		}
		if q.AfterStall {
			sc.Quiesce(5 * time.Second)
		}
		if q.Stall > 0 {
			sc.Arm(q.Stall, time.Duration(s.StallMs)*time.Millisecond)
		}
		var r *response.NetconfResponse
		var err error
		if q.UsePool {
			r, err = callPool(d, q, poolArr, extra)
			out.obs["calls_with_aliased_option_slice"]++
			if c := probePool(poolArr, s.Pool); c != nil {
				return nil, viol(c, i, q, srv)
			}
			out.obs["option_slice_probes"]++
		} else {
			r, err = call(d, q, extra)
		}
		d.Channel.TimeoutOps = savedTO
		if q.Stall > 0 {
			out.obs["stalled_calls"]++
			out.tags[fmt.Sprintf("stalled_write=%d/%s", q.Stall, s.Version)] = true
			if err == nil {
				out.obs["stalled_call_sat_out_the_stall"]++
			} else {
				out.obs["stalled_call_returned_error"]++
			}
		}
		if desync {
			// an earlier call returned while its writes were still pending: calls and messages no
			// longer pair up one by one; the stream is judged as a whole at the end
			var pe string
			conn.Do(func() { pe = srv.ProtoErr })
			if pe != "" {
				return nil, viol(bad("c03/wire-undecodable:"+s.Version, "the strict decoder rejects the client's byte stream: %s", pe), i, q, srv)
			}
			resps[i] = r
			continue
		}
		var msgs []*ncsim.Msg
		var protoErr string
		var leftover, tail []byte
		var wireNow int
		conn.Do(func() {
			msgs = append(msgs, srv.Msgs...)
			protoErr = srv.ProtoErr
			leftover = srv.Leftover()
			wireNow = len(srv.Wire)
			if n := len(srv.Msgs); n > 0 {
				tail = append([]byte(nil), srv.Wire[srv.Msgs[n-1].WireEnd:]...)
			}
		})
		if protoErr != "" {
			return nil, viol(bad("c03/wire-undecodable:"+s.Version, "the strict decoder rejects the client's byte stream: %s", protoErr), i, q, srv)
		}
		plannedTimeoutHit := (planned || q.Stall > 0) && err != nil && errors.Is(err, util.ErrTimeoutError)
		if q.Stall > 0 && plannedTimeoutHit && (len(msgs) == msgsBefore || string(tail) != "\n") {
			// the call gave up while (some of) its writes had not happened yet. Not a violation by
			// itself (the caller got an error), but from here on the stream is judged as a whole.
			desync = true
			out.obs["calls_returned_with_writes_pending"]++
			continue
		}
		if planned && err == nil {
			return nil, &mon.Result{Verdict: mon.Inconclusive, Detail: "the server did not answer, yet the call returned a response (not this property: C08)"}
		}
		if err != nil {
			switch {
			case wireNow == wireBefore:
				return nil, viol(bad("c03/call-error:"+opOf(q.Shape), "call returned %v without transmitting anything", err), i, q, srv)
			case len(msgs) == msgsBefore:
				return nil, viol(bad("c03/incomplete-message:"+s.Version,
					"call returned %v; the client wrote %d bytes which are not a complete %s message: tail %s", err, wireNow-wireBefore, wantFraming, around(leftover, len(leftover))), i, q, srv)
			}
			// a complete message was decoded: it is judged below from the server's side, whatever the call returned
		}
		if len(msgs) != msgsBefore+1 {
			return nil, viol(bad("c03/message-count", "one call put %d messages on the wire", len(msgs)-msgsBefore), i, q, srv)
		}
		m := msgs[len(msgs)-1]
		input := m.Payload
		chunks := 1
		if r != nil {
			input = r.Input
			// 1. what the server decoded is what the response reports
			if !bytes.Equal(m.Payload, r.Input) {
				dd := firstDiff(m.Payload, r.Input)
				return nil, viol(bad("c03/input-differs-from-wire", "decoded payload (%d bytes) != Input (%d bytes) at offset %d: wire %s, Input %s",
					len(m.Payload), len(r.Input), dd, around(m.Payload, dd), around(r.Input, dd)), i, q, srv)
			}
			// 2. FramedInput is one exact frame of Input ...
			var c *complaint
			chunks, c = checkFrame(s.Version, r.Input, r.FramedInput)
			if c != nil {
				return nil, viol(c, i, q, srv)
			}
			// 3. ... and exactly the wire slice that carried it, with exactly the documented returns around it
			wantRaw := r.FramedInput
			if s.Version == "1.1" {
				wantRaw = append(append([]byte("\n"), r.FramedInput...), '\n')
			}
			if !bytes.Equal(m.Raw, wantRaw) {
				dd := firstDiff(m.Raw, wantRaw)
				return nil, viol(bad("c03/framed-input-not-wire-slice:"+s.Version, "wire bytes of the message (%s, %d bytes) differ from FramedInput (+returns) at offset %d: wire %s, FramedInput %s",
					m.Framing, len(m.Raw), dd, around(m.Raw, dd), around(wantRaw, dd)), i, q, srv)
			}
		}
		if m.Framing != wantFraming {
			return nil, viol(bad("c03/framed-input-not-wire-slice:"+s.Version, "message arrived in %s framing, want %s", m.Framing, wantFraming), i, q, srv)
		}
		if string(m.PreGap) != wantGap {
			return nil, viol(bad("c03/separator:"+s.Version, "bytes between the previous message and this one are %q, want %q", m.PreGap, wantGap), i, q, srv)
		}
		// (1.1: the first return is the LF that ends the end-of-chunks marker and belongs to Raw)
		if string(tail) != "\n" {
			return nil, viol(bad("c03/separator:"+s.Version, "after the message the client wrote %s, want exactly one more return", clip(tail)), i, q, srv)
		}
		// 4. the XML (of Input, or of what the server decoded when the call has no response to show)
		id, c := checkStructure(input, q, header, force)
		if c != nil && !(force && c.key == "c03/self-closing-rewrite:not-well-formed") {
			return nil, viol(c, i, q, srv)
		}
		if c != nil {
			id = m.ID
			out.obs["forced_not_well_formed"]++
		}
		if id != m.ID {
			return nil, viol(bad("c03/xml:message-id:"+opOf(q.Shape), "message-id attribute %d, first message-id on the wire %d", id, m.ID), i, q, srv)
		}
		if prevID != 0 && id <= prevID {
			return nil, viol(bad("c03/xml:message-id:not-increasing", "message-id %d after %d", id, prevID), i, q, srv)
		}
		if err != nil && !plannedTimeoutHit {
			if errors.Is(err, util.ErrTimeoutError) {
				return nil, &mon.Result{Verdict: mon.Inconclusive, Detail: "request decoded (well-formed, complete) and answered, call timed out (load / not this property)"}
			}
			return nil, viol(bad("c03/call-error:"+opOf(q.Shape), "call returned %v", err), i, q, srv)
		}
		if planned {
			out.obs["planned_timeouts_"+q.NoAnswer]++
			out.tags["timeout_via="+q.TimeoutVia] = true
			if i+1 < len(s.Reqs) {
				out.obs["requests_after_a_failed_request"] += int64(len(s.Reqs) - i - 1)
			}
			if q.NoAnswer == "late" {
				conn.Do(func() { srv.Send(conn, ncsim.Reply(m.ID, "<ok/>"), nil) })
			}
		}
		inputLen := len(input)
		prevID = id
		out.inputs = append(out.inputs, input)
		out.ids = append(out.ids, id)
		// observations
		out.obs["requests"]++
		out.obs["wire_bytes"] += int64(len(m.Raw))
		arg := q.Arg.Str()
		if len(arg) < 4096 {
			if strings.Contains(arg, "<?") {
				out.obs["args_with_processing_instruction"]++
			}
			if strings.Contains(arg, "<?xml-") {
				out.obs["args_with_pi_target_starting_with_xml"]++
			}
			if k := strings.Index(arg, "<?xml "); k >= 0 {
				if strings.TrimLeft(arg[:k], "\ufeff \n") == "" {
					out.obs["args_with_leading_xml_declaration"]++
				} else {
					out.obs["args_with_xml_declaration_inside_cdata_or_comment"]++
				}
			}
			if strings.Contains(arg, "\ufeff") {
				out.obs["args_with_bom"]++
			}
			if strings.Contains(arg, "]]>]]>") {
				out.obs["args_with_eom_delimiter_in_1.1_payload"]++
			} else if strings.Contains(arg, "]]]]>") || strings.Contains(arg, "]]&gt;]]") || strings.Contains(arg, "]] >") {
				out.obs["args_with_eom_lookalike"]++
			}
		}
		if !isASCII(arg) || !isASCII(q.Persist) || !isASCII(q.PersistID) || !isASCII(q.DS) {
			out.obs["requests_with_multibyte_argument"]++
		}
		if s.Version == "1.1" {
			dg := len(strconv.Itoa(inputLen))
			out.tags[fmt.Sprintf("chunk_size_digits=%d", dg)] = true
			if chunks == 1 {
				out.obs["single_chunk_frames"]++
			} else {
				out.obs["multi_chunk_frames"]++
			}
			if prevLen != 0 && len(strconv.Itoa(prevLen)) != dg && (inputLen-prevLen == 1 || prevLen-inputLen == 1) {
				out.obs["digit_boundary_crossed_by_one_byte"]++
			}
		}
		prevLen = inputLen
		if inputLen >= 100000 {
			out.obs["requests_over_100KB"]++
		}
		if q.Defaults != "" {
			out.tags["with_defaults="+q.Defaults+" vs hello:"+s.WD] = true
		}
		if strings.HasSuffix(q.Shape, "-xpath") {
			out.tags[fmt.Sprintf("xpath filter vs hello :xpath=%v", hasCap(s.Caps, ":xpath:"))] = true
		}
		if strings.HasPrefix(q.Shape, "commit-") {
			out.tags[fmt.Sprintf("%s vs hello :confirmed-commit=%v", q.Shape, hasCap(s.Caps, ":confirmed-commit:"))] = true
		}
		if s.Log != "" {
			sz := "<=1024"
			if len(m.Raw) > 8192 {
				sz = ">8192"
			} else if len(m.Raw) > 1024 {
				sz = ">1024"
			}
			out.tags[fmt.Sprintf("logger=%s/%s/frame%s", s.Log, s.Version, sz)] = true
			if len(m.Raw) > 1024 {
				out.obs["requests_over_1024B_with_logger_at_"+s.Log]++
			}
		}
		out.tags["op="+opOf(q.Shape)] = true
		out.tags[fmt.Sprintf("cell=%s/%s/force=%v/header=%v", q.Shape, s.Version, force, header)] = true
		out.tags[fmt.Sprintf("position=%d", i+1)] = true
	}
	sc.Quiesce(5 * time.Second)
	sc.mu.Lock()
	out.obs["stalled_writes"] += int64(sc.stalled)
	out.obs["stalled_writes_overtaken_by_a_later_write"] += int64(sc.overtook)
	sc.mu.Unlock()
	if desync {
		if c, pos := judgeStream(s, srv, conn, resps, header, force); c != nil {
			return nil, viol(c, pos, s.Reqs[pos], srv)
		}
		out.obs["sessions_judged_as_a_stream"]++
		out.inputs = nil
		return out, nil
	}
	// conservation: the wire is exactly hello, return, and the messages with their separators
	var c *complaint
	conn.Do(func() {
		end := 0
		for _, m := range srv.Msgs {
			if m.WireStart < end || m.WireEnd > len(srv.Wire) || !bytes.Equal(srv.Wire[end:m.WireStart], m.PreGap) || !bytes.Equal(srv.Wire[m.WireStart:m.WireEnd], m.Raw) {
				c = bad("c03/wire-conservation", "message %d: separator/raw bytes do not tile the bytes written", m.Index)
			}
			end = m.WireEnd
		}
		if len(srv.Msgs) != len(s.Reqs)+1 {
			c = bad("c03/message-count", "%d messages on the wire for hello + %d requests", len(srv.Msgs), len(s.Reqs))
		}
		out.wire = len(srv.Wire)
	})
	if c != nil {
		return nil, viol(c, len(s.Reqs)-1, s.Reqs[len(s.Reqs)-1], srv)
	}
	// Close is part of the client's stream: whatever it writes must again be complete, well-formed
	// messages in the session's framing (the pinned library writes nothing).
	var wireAtClose int
	conn.Do(func() { wireAtClose = len(srv.Wire) })
	if !closeDriver() {
		out.obs["close_did_not_return_in_5s_tail_not_judged"]++
		return out, nil
	}
	conn.Do(func() { c = judgeCloseTail(s, srv, wireAtClose, prevID, out) })
	if c != nil {
		r := viol(c, len(s.Reqs)-1, s.Reqs[len(s.Reqs)-1], srv)
		r.Detail = "at Close: " + c.detail
		return nil, r
	}
	out.obs["sessions_closed_and_tail_decoded"]++
	if s.Log != "" {
		out.obs["sessions_with_logger"]++
		out.obs["log_lines_received"] += atomic.LoadInt64(&logLines)
		out.obs["log_bytes_received"] += atomic.LoadInt64(&logBytes)
	}
	return out, nil
}

// judgeCloseTail (conn mutex held) judges what the client wrote after the last request, Close included.
func judgeCloseTail(s Session, srv *ncsim.Server, wireAtClose, prevID int, out *sessionOut) *complaint {
	out.obs["bytes_written_at_close"] += int64(len(srv.Wire) - wireAtClose)
	if srv.ProtoErr != "" {
		return bad("c03/wire-undecodable:"+s.Version, "the strict decoder rejects the client's byte stream: %s", srv.ProtoErr)
	}
	for _, m := range srv.Msgs[len(s.Reqs)+1:] {
		out.obs["messages_written_at_close"]++
		dc, err := parseDoc(m.Payload, false)
		if err != nil {
			return bad("c03/xml:not-well-formed:at-close", "message written at Close is not well-formed: %v: %s", err, clip(m.Payload))
		}
		r := dc.root
		ids, _ := r.attr("", "message-id")
		id, err := strconv.Atoi(ids)
		if r.name.Local != "rpc" || r.name.Space != baseNS || err != nil || id <= prevID {
			return bad("c03/xml:root:at-close", "message written at Close is not an <rpc> in the base namespace with a fresh integer message-id (last request had %d): %s", prevID, clip(m.Payload))
		}
		prevID = id
		want := "\n"
		if s.Version == "1.1" {
			want = ""
		}
		if string(m.PreGap) != want {
			return bad("c03/separator:"+s.Version, "bytes before the message written at Close are %q, want %q", m.PreGap, want)
		}
	}
	// what is left undecoded may only be the return(s) after the last message; anything else is a
	// message that never completes (the transport is closed behind it)
	if rest := srv.Leftover(); len(bytes.Trim(rest, "\n")) != 0 {
		return bad("c03/incomplete-message:"+s.Version, "the client's stream ends inside a message: after the last complete message the wire holds %s", clip(rest))
	}
	return nil
}

// judgeStream judges a session in which calls and messages do not pair up one by one (a call
// returned before its writes had happened): the whole stream must decode strictly, hold exactly one
// well-formed rpc per request (matched by message-id) carrying that request's content, and the
// returns between messages must be the ones the requests account for.
func judgeStream(s Session, srv *ncsim.Server, conn *devsim.Conn, resps []*response.NetconfResponse, header, force bool) (*complaint, int) {
	var c *complaint
	pos := len(s.Reqs) - 1
	conn.Do(func() {
		if srv.ProtoErr != "" {
			c = bad("c03/wire-undecodable:"+s.Version, "the strict decoder rejects the client's byte stream: %s", srv.ProtoErr)
			return
		}
		msgs := srv.Msgs[1:]
		if len(msgs) != len(s.Reqs) || len(srv.Leftover()) > 1 {
			c = bad("c03/message-count", "%d complete messages on the wire for %d requests; undecoded rest %s", len(msgs), len(s.Reqs), clip(srv.Leftover()))
			return
		}
		minID := 0
		for _, m := range msgs {
			if minID == 0 || m.ID < minID {
				minID = m.ID
			}
		}
		seen := map[int]bool{}
		covered := len(srv.Msgs[0].Raw)
		for _, m := range msgs {
			covered += len(m.Raw)
			k := m.ID - minID
			if k < 0 || k >= len(s.Reqs) || seen[k] {
				c = bad("c03/xml:message-id:stream", "message-ids on the wire are not one per request: %d (first %d)", m.ID, minID)
				return
			}
			seen[k] = true
			pos = k
			if _, cc := checkStructure(m.Payload, s.Reqs[k], header, force); cc != nil {
				c = cc
				return
			}
			if r := resps[k]; r != nil && !bytes.Equal(r.Input, m.Payload) {
				c = bad("c03/input-differs-from-wire", "message %d: decoded payload differs from the Input of its response at offset %d", m.ID, firstDiff(r.Input, m.Payload))
				return
			}
		}
		// returns: 1.0 one per message (hello included), 1.1 two per message of which one is part of Raw (and the hello's one)
		rest := len(srv.Wire) - covered
		want := len(srv.Msgs)
		if s.Version == "1.1" {
			want = 1
		}
		if rest != want {
			c = bad("c03/separator:"+s.Version, "%d bytes on the wire outside the messages, the requests account for %d returns", rest, want)
		}
	})
	return c, pos
}

// Run judges one case: the session itself plus the twin sessions that differ in exactly one option.
func Run(s Session) mon.Result {
	main, res := runSession(s, false, false)
	if res != nil {
		return *res
	}
	obs := main.obs
	obs["sessions"] = 1
	anyForce, anyNoHeader := s.Force, !s.Header
	for _, q := range s.Reqs {
		anyForce = anyForce || (q.SetForce != nil && *q.SetForce)
		anyNoHeader = anyNoHeader || (q.SetHeader != nil && !*q.SetHeader)
	}
	if anyForce && main.inputs != nil {
		twin, res := runSession(s, true, false)
		if res != nil {
			res.Detail = "twin session without forced self-closing tags: " + res.Detail
			return *res
		}
		obs["twin_sessions"]++
		for i := range s.Reqs {
			if !main.forces[i] {
				// self-closing not forced at this call: the request must be byte-identical to the twin's
				if !bytes.Equal(twin.inputs[i], main.inputs[i]) {
					d := firstDiff(twin.inputs[i], main.inputs[i])
					return *viol0(bad("c03/self-closing:forced-although-switched-off", "ForceSelfClosingTags is false at this call, yet Input differs from the never-forced twin at offset %d: %s vs twin %s",
						d, around(main.inputs[i], d), around(twin.inputs[i], d)), i, s.Reqs[i], &ncsim.Server{})
				}
				continue
			}
			rw, kept, c := checkRewrite(twin.inputs[i], main.inputs[i])
			if c != nil {
				if s.Hazard != "" {
					c.detail += " [argument: " + clipS(s.Reqs[i].Arg.Str()) + "]"
				}
				return *viol0(c, i, s.Reqs[i], &ncsim.Server{})
			}
			if _, err := parseDoc(main.inputs[i], strings.Contains(s.Reqs[i].Arg.Str(), "<?xml")); err != nil {
				return *viol0(bad("c03/self-closing-rewrite:not-well-formed", "forced Input is not well-formed: %v", err), i, s.Reqs[i], &ncsim.Server{})
			}
			obs["empty_pairs_self_closed"] += int64(rw)
			obs["empty_pairs_left_as_pair"] += int64(kept)
			if !bytes.Equal(twin.inputs[i], main.inputs[i]) {
				obs["requests_changed_by_force"]++
			}
		}
	}
	if anyNoHeader && main.inputs != nil {
		twin, res := runSession(s, false, true)
		if res != nil {
			res.Detail = "twin session with header: " + res.Detail
			return *res
		}
		obs["twin_sessions"]++
		for i := range s.Reqs {
			if main.headers[i] {
				if !bytes.Equal(twin.inputs[i], main.inputs[i]) {
					d := firstDiff(twin.inputs[i], main.inputs[i])
					return *viol0(bad("c03/header:differs-from-twin-with-header", "ExcludeHeader is false at this call, yet Input differs from the always-with-header twin at offset %d: %s vs twin %s",
						d, around(main.inputs[i], d), around(twin.inputs[i], d)), i, s.Reqs[i], &ncsim.Server{})
				}
				continue
			}
			if c := checkHeaderTwin(twin.inputs[i], main.inputs[i]); c != nil {
				return *viol0(c, i, s.Reqs[i], &ncsim.Server{})
			}
			obs["header_twins_compared"]++
		}
	}
	// non-triviality: at least two messages on one stream and a caller argument that is not plain ASCII text
	nontrivial := false
	if len(s.Reqs) >= 2 {
		for _, q := range s.Reqs {
			a := q.Arg.Str()
			if !isASCII(a) || strings.ContainsAny(a, "<&") || !isASCII(q.Persist+q.PersistID+q.DS) || strings.ContainsAny(q.Persist+q.PersistID, "<&>\"") {
				nontrivial = true
				break
			}
		}
	}
	tags := []string{"logger=" + s.Log, "hello_with_defaults=" + s.WD, fmt.Sprintf("hello_extra_capabilities=%d", len(s.Caps)), "kind=" + s.Kind, "via=" + s.Via, fmt.Sprintf("session_length=%d", len(s.Reqs)), "seg=" + s.Seg.Mode}
	for t := range main.tags {
		tags = append(tags, t)
	}
	sample := map[string]interface{}{
		"session": fmt.Sprintf("%s v%s force=%v header=%v requests=%d wire=%dB", s.Kind, s.Version, s.Force, s.Header, len(s.Reqs), main.wire),
	}
	if len(main.inputs) > 0 {
		k := len(main.inputs) - 1
		sample["last_shape"] = s.Reqs[k].Shape
		sample["last_input"] = clip(main.inputs[k])
		sample["message_ids"] = fmt.Sprintf("%d..%d", main.ids[0], main.ids[k])
	}
	return mon.Result{Verdict: mon.Held, NonTrivial: nontrivial, Obs: obs, Tags: tags, Sample: sample}
}

func init() {
	mon.Register(&mon.Property{
		ID:    "C03",
		Level: "exploration",
		Rule: "A case is one NETCONF session of 1..30 consecutive requests on one stream against the strict server model (ncsim/ncwire), plus twin sessions " +
			"with forced self-closing tags off / header on. Every (call shape x version x force x header) cell is covered in every run by the grid sessions " +
			"(19 shapes = 15 operation shapes, get/get-config split by filter kind; 152 cells, see distinct_seen cell=...). " +
			"Non-trivial = at least 2 requests on the stream and at least one caller argument with markup or multi-byte characters. Distinct = distinct descriptor hash.",
		Assumptions: []string{
			"caller arguments are well-formed XML content in valid UTF-8 (generated by construction); datastore names are valid XML names; with-defaults modes are the four RFC 6243 modes; confirm-timeout <= 4294967295",
			"arguments of 1.0 sessions never contain the delimiter ]]>]]> (1.1 sessions carry it inside comments and attribute values); a BOM or an XML declaration the caller itself puts into an argument is forwarded verbatim by the pinned library and that is the reference",
			"the request must carry exactly what the caller asked for whatever the server hello announced (with-defaults / xpath / confirmed-commit / ... capabilities present or absent in PRNG combinations)",
			"the server answers every request at once with <ok/> (except the planned unanswered requests of the noanswer sessions); the client-side reading of replies is not judged here (C02/C08)",
			"whitespace-only element content counts as empty for the self-closing option (the option's documented intent)",
			"trusted base: ncwire strict codec, ncsim stream grammar (1.0: one return after a message; 1.1: two), encoding/xml as well-formedness judge",
			"arguments whose CDATA sections or comments contain text that looks like an empty element pair (known finding: the regexp rewrite alters it) are confined to the 'hazard' sessions; ordinary arguments carry CDATA / comments without '<' ... '</' look-alikes",
		},
		Gen: Gen,
		Run: func(c mon.Case) mon.Result {
			var s Session
			c.Decode(&s)
			return Run(s)
		},
		Workers:     func(string) int { return 8 },
		Parallel:    func(string) int { return 4 },
		CaseTimeout: 300 * time.Second,
	})
}
