package c03

import (
	"fmt"
	"math/rand"
	"strings"
	"unicode/utf8"

	"verif/internal/devsim"
	"verif/internal/mon"
)

const declLen = len(`<?xml version="1.0" encoding="UTF-8"?>`)

// sweepOverhead is the generator's estimate of Input's length around an argument (only used to
// aim argument lengths at the points where the 1.1 chunk size gains a digit; the monitor counts
// the crossings it actually saw, so a wrong estimate shows up as a missing observation).
func sweepOverhead(shape string, header bool) int {
	n := len(`<rpc xmlns="urn:ietf:params:xml:ns:netconf:base:1.0" message-id="101"></rpc>`)
	if header {
		n += declLen
	}
	if shape == "get-subtree" {
		n += len(`<get><filter type="subtree"></filter></get>`)
	}
	return n
}

func genSeg(r *rand.Rand) devsim.Seg {
	return devsim.Seg{
		Mode: []string{"whole", "mix", "fixed", "geom"}[r.Intn(4)],
		Size: []int{1, 3, 7, 16, 64}[r.Intn(5)],
		Seed: r.Int63(),
	}
}

func pickS(r *rand.Rand, p []string) string { return p[r.Intn(len(p))] }

// genArgFor draws the caller's argument for a shape.
func genArgFor(r *rand.Rand, g *xg, shape string, medium bool) Arg {
	switch shape {
	case "get-subtree", "get-config-subtree", "rpc":
		if medium {
			return bigArg(r, 1000+r.Intn(20000))
		}
		for {
			if f := g.Fragment(); wellFormedContent(f, g.eom) {
				return lit(f)
			}
		}
	case "get-xpath", "get-config-xpath":
		for {
			x := pickS(r, xpathPool)
			if g.mb || isASCII(x) {
				return lit(x)
			}
		}
	case "edit-config":
		if medium {
			a := bigArg(r, 1000+r.Intn(20000))
			a.Pre = "<config>" + a.Pre
			a.Post += "</config>"
			return a
		}
		for {
			if f := g.Config(); wellFormedContent(f, g.eom) {
				return lit(f)
			}
		}
	}
	return Arg{}
}

// wellFormedContent is the generator-side check of the argument precondition: the string is
// well-formed element content in valid UTF-8 and does not contain the 1.0 delimiter.
func wellFormedContent(s string, eomOK bool) bool {
	if (!eomOK && strings.Contains(s, "]]>]]>")) || !utf8.ValidString(s) {
		return false
	}
	_, err := parseDoc([]byte("<r>"+s+"</r>"), strings.Contains(s, "<?xml"))
	return err == nil
}

func genReq(r *rand.Rand, g *xg, shape string) Req {
	q := Req{Shape: shape}
	medium := r.Intn(25) == 0
	q.Arg = genArgFor(r, g, shape, medium)
	ds := func() string {
		for {
			d := pickS(r, dsPool)
			if g.mb || isASCII(d) {
				return d
			}
		}
	}
	switch opOf(shape) {
	case "get-config":
		q.DS = ds()
		if r.Intn(2) == 0 {
			q.Defaults = pickS(r, defaultsPool)
		}
	case "edit-config", "delete-config", "lock", "unlock", "validate":
		q.DS = ds()
	case "copy-config":
		q.DS = ds()
		for {
			q.DS2 = ds()
			if q.DS2 != q.DS || r.Intn(8) == 0 {
				break
			}
		}
	case "commit":
	case "commit-confirmed":
		q.Confirmed = true
	case "commit-confirmed-timeout":
		q.Confirmed = true
		q.Timeout = []uint{1, 60, 600, 86400, 4294967295, uint(1 + r.Intn(100000))}[r.Intn(6)]
	case "commit-persist":
		q.Confirmed = true
		q.Persist = pickS(r, persistPool)
		if r.Intn(3) == 0 {
			q.Timeout = uint(1 + r.Intn(1000))
		}
	case "commit-persist-id":
		q.PersistID = pickS(r, persistPool)
		if r.Intn(4) == 0 { // all four at once
			q.Confirmed = true
			q.Timeout = uint(1 + r.Intn(1000))
			q.Persist = pickS(r, persistPool)
		}
	}
	if !g.mb {
		for !isASCII(q.Persist) {
			q.Persist = pickS(r, persistPool)
		}
		for !isASCII(q.PersistID) {
			q.PersistID = pickS(r, persistPool)
		}
	}
	return q
}

const wdCap = "urn:ietf:params:netconf:capability:with-defaults:1.0"

// wdVariants are the with-defaults capability forms of the server hello: name -> (also-supported list, escaped?).
var wdVariants = []struct {
	name string
	also string
	raw  bool // '&' written unescaped (seen in the field, not well-formed XML)
	none bool
}{
	{name: "absent", none: true},
	{name: "basic-only"},
	{name: "also=1", also: "report-all"},
	{name: "also=2", also: "report-all,trim"},
	{name: "also=3", also: "report-all,report-all-tagged,trim"},
	{name: "also=4", also: "report-all,report-all-tagged,trim,explicit"},
	{name: "also=1-raw-amp", also: "report-all", raw: true},
	{name: "also=3-raw-amp", also: "report-all-tagged,trim,report-all", raw: true},
}

var otherCaps = []string{
	"urn:ietf:params:netconf:capability:candidate:1.0",
	"urn:ietf:params:netconf:capability:confirmed-commit:1.0",
	"urn:ietf:params:netconf:capability:confirmed-commit:1.1",
	"urn:ietf:params:netconf:capability:validate:1.0",
	"urn:ietf:params:netconf:capability:validate:1.1",
	"urn:ietf:params:netconf:capability:xpath:1.0",
	"urn:ietf:params:netconf:capability:startup:1.0",
	"urn:ietf:params:netconf:capability:writable-running:1.0",
	"urn:ietf:params:netconf:capability:rollback-on-error:1.0",
	"urn:ietf:params:netconf:capability:notification:1.0",
	"urn:ietf:params:netconf:capability:interleave:1.0",
	"urn:ietf:params:netconf:capability:url:1.0?scheme=http,ftp,file",
	"urn:ietf:params:netconf:capability:yang-library:1.0?revision=2016-06-21&amp;module-set-id=42",
	"urn:ietf:params:netconf:capability:yang-library:1.1?revision=2019-01-04&amp;content-id=7",
	"urn:ietf:params:xml:ns:yang:ietf-netconf-with-defaults?module=ietf-netconf-with-defaults&amp;revision=2011-06-01",
	"http://example.com/ns/if?module=if&amp;revision=2020-01-01&amp;features=a,b",
}

// genCaps draws the server hello's extra capabilities. wd < 0: PRNG choice of the with-defaults form.
func genCaps(r *rand.Rand, wd int, lean bool) (caps []string, name string) {
	if wd < 0 {
		wd = r.Intn(len(wdVariants))
	}
	v := wdVariants[wd]
	name = v.name
	if !v.none {
		basic := "explicit"
		if r.Intn(3) == 0 {
			basic = []string{"report-all", "trim", "explicit"}[r.Intn(3)]
			name += "/basic=" + basic
		}
		c := wdCap + "?basic-mode=" + basic
		if v.also != "" {
			amp := "&amp;"
			if v.raw {
				amp = "&"
			}
			c += amp + "also-supported=" + v.also
		}
		caps = append(caps, c)
	}
	for _, c := range otherCaps {
		p := 2
		if lean && (strings.Contains(c, ":xpath:") || strings.Contains(c, ":confirmed-commit:")) {
			continue // a hello lacking :xpath and :confirmed-commit
		}
		if r.Intn(p) == 0 {
			caps = append(caps, c)
		}
	}
	r.Shuffle(len(caps), func(i, j int) { caps[i], caps[j] = caps[j], caps[i] })
	return caps, name
}

// capsSession: every with-defaults mode (x filter kind), xpath filters and all commit variants
// against one with-defaults form of the server hello.
func capsSession(r *rand.Rand, wd int, version string, lean bool) Session {
	s := newSessionCaps(r, "caps", version, r.Intn(2) == 0, r.Intn(2) == 0, wd, lean)
	g := &xg{r: r, mb: r.Intn(3) != 0, eom: s.Version == "1.1"}
	var reqs []Req
	for _, mode := range defaultsPool {
		for _, sh := range []string{"get-config", "get-config-subtree", "get-config-xpath"} {
			q := genReq(r, g, sh)
			q.Defaults = mode
			reqs = append(reqs, q)
		}
	}
	for _, sh := range []string{"get-xpath", "commit", "commit-confirmed", "commit-confirmed-timeout", "commit-persist", "commit-persist-id", "validate", "lock"} {
		reqs = append(reqs, genReq(r, g, sh))
	}
	r.Shuffle(len(reqs), func(i, j int) { reqs[i], reqs[j] = reqs[j], reqs[i] })
	s.Reqs = reqs
	return s
}

func newSessionCaps(r *rand.Rand, kind, version string, force, header bool, wd int, lean bool) Session {
	s := Session{Kind: kind, Version: version, Via: []string{"caps", "preferred"}[r.Intn(2)], Force: force, Header: header, Seg: genSeg(r)}
	s.Caps, s.WD = genCaps(r, wd, lean)
	s.Log = []string{"", "", "debug", "debug", "info", "critical"}[r.Intn(6)]
	return s
}

// logSession: a real logging instance at the given level, requests whose frames are longer than
// 1024 and than 8192 bytes (and short ones) through every method that carries caller content.
func logSession(r *rand.Rand, level, version string) Session {
	s := newSession(r, "log", version, r.Intn(2) == 0, r.Intn(2) == 0)
	s.Log = level
	g := &xg{r: r, mb: r.Intn(3) != 0, eom: s.Version == "1.1"}
	long := func(min int) string {
		var b strings.Builder
		for b.Len() < min {
			b.WriteString(pickS(r, []string{"/interfaces/interface[name='ge-0/0/", "é→", "0123456789", "label-", "#"}) + fmt.Sprint(r.Intn(1000)) + "']")
		}
		return b.String()
	}
	for _, min := range []int{1100, 8300} {
		for _, sh := range []string{"get-subtree", "get-config-subtree", "edit-config", "rpc"} {
			q := genReq(r, g, sh)
			q.Arg = bigArg(r, min+r.Intn(600))
			if sh == "edit-config" {
				q.Arg.Pre = "<config>" + q.Arg.Pre
				q.Arg.Post += "</config>"
			}
			s.Reqs = append(s.Reqs, q)
		}
		q := genReq(r, g, "get-xpath")
		q.Arg = lit(long(min))
		s.Reqs = append(s.Reqs, q)
		q = genReq(r, g, "commit-persist")
		q.Persist = long(min)
		s.Reqs = append(s.Reqs, q)
	}
	for i := 0; i < 4; i++ {
		s.Reqs = append(s.Reqs, genReq(r, g, shapes[r.Intn(len(shapes))]))
	}
	r.Shuffle(len(s.Reqs), func(i, j int) { s.Reqs[i], s.Reqs[j] = s.Reqs[j], s.Reqs[i] })
	return s
}

func newSession(r *rand.Rand, kind, version string, force, header bool) Session {
	return newSessionCaps(r, kind, version, force, header, -1, r.Intn(3) == 0)
}

// gridSession: every shape at least once in one (version, force, header) cell, shuffled, 19..30 requests.
func gridSession(r *rand.Rand, version string, force, header bool) Session {
	s := newSession(r, "grid", version, force, header)
	g := &xg{r: r, mb: r.Intn(4) != 0, eom: s.Version == "1.1"}
	n := len(shapes) + r.Intn(31-len(shapes))
	order := r.Perm(len(shapes))
	for i := 0; i < n; i++ {
		sh := shapes[r.Intn(len(shapes))]
		if i < len(order) {
			sh = shapes[order[i]]
		}
		s.Reqs = append(s.Reqs, genReq(r, g, sh))
	}
	return s
}

func randomSession(r *rand.Rand) Session {
	s := newSession(r, "random", []string{"1.0", "1.1"}[r.Intn(2)], r.Intn(2) == 0, r.Intn(2) == 0)
	g := &xg{r: r, mb: r.Intn(5) != 0, eom: s.Version == "1.1"}
	n := 1 + r.Intn(30)
	// some sessions hammer one shape, most mix
	one := ""
	if r.Intn(6) == 0 {
		one = shapes[r.Intn(len(shapes))]
	}
	for i := 0; i < n; i++ {
		sh := shapes[r.Intn(len(shapes))]
		if one != "" && r.Intn(4) != 0 {
			sh = one
		}
		s.Reqs = append(s.Reqs, genReq(r, g, sh))
	}
	return s
}

// sweepSession: 30 consecutive requests whose Input length grows by one byte per request across a
// power of ten, so that the chunk size changes its number of digits inside the session.
func sweepSession(r *rand.Rand, version string, boundary int, k int) (Session, bool) {
	shape := []string{"rpc", "get-subtree"}[k%2]
	header := (k/2)%2 == 0
	if boundary == 100 {
		shape, header = "rpc", false // the only shape that fits below 100 bytes
	}
	base := boundary - sweepOverhead(shape, header) - 14
	if base < 1 {
		return Session{}, false
	}
	s := newSession(r, "sweep", version, false, header)
	mb := r.Intn(3) != 0
	for i := 0; i < 30; i++ {
		s.Reqs = append(s.Reqs, Req{Shape: shape, Arg: padArg(base+i, mb)})
	}
	return s, true
}

func bigSession(r *rand.Rand, k int) Session {
	s := newSession(r, "big", []string{"1.0", "1.1"}[k%2], (k/2)%2 == 0, (k/4)%2 == 0)
	g := &xg{r: r, mb: true, eom: s.Version == "1.1"}
	n := 2 + r.Intn(3)
	for i := 0; i < n; i++ {
		sh := []string{"get-subtree", "get-config-subtree", "edit-config", "rpc"}[r.Intn(4)]
		q := genReq(r, g, sh)
		if i == 0 || r.Intn(2) == 0 {
			size := []int{9990, 65536, 100000, 150000, 200000}[r.Intn(5)] + r.Intn(50)
			q.Arg = bigArg(r, size)
			if sh == "edit-config" {
				q.Arg.Pre = "<config>" + q.Arg.Pre
				q.Arg.Post += "</config>"
			}
		}
		s.Reqs = append(s.Reqs, q)
	}
	return s
}

// hazardArgs: arguments that are well-formed XML on which a regexp-based whole-message rewrite is
// at risk; kept in their own sessions so that a finding has a stable class and the rest of the
// exploration is unaffected.
var hazardArgs = map[string][]string{
	"same-name-self-closed-child": {
		`<a><a x="1"/></a>`,
		"<interface><interface name=\"ge-0/0/0\"/>\n</interface>",
		`<group><item>1</item><group /></group>`,
		`<a><a x="1" /></a>`,
		`<a><a><a x="1"/></a></a>`,
		"<a><a><a /></a> </a>",
		"<a><a x=\"1\"/><a y=\"2\"/>\n</a>",
		`<a x="1"><a x="1"></a></a>`,
	},
	"cdata-with-markup": {
		`<script><![CDATA[if (a > b) { emit("<b></b>") }]]></script>`,
		"<banner><![CDATA[-> <motd>\n</motd> <-]]></banner>",
	},
	"comment-with-markup": {
		`<c><!-- a -> <x></x> --><v>1</v></c>`,
	},
	"mismatched-pair": { // must stay untouched; here to make sure the oracle sees these forms in force sessions
		`<t><c x="1"/></t>`, `<t><c /> </t>`, "<t><c x=\"1\"/>\n</t>", `<a><a/></a>`, `<a><a x="1"/><b/></a>`,
	},
}

var hazardKinds = []string{"same-name-self-closed-child", "cdata-with-markup", "comment-with-markup", "mismatched-pair"}

func hazardSession(r *rand.Rand, kind, version string, header bool) Session {
	s := newSession(r, "hazard", version, true, header)
	s.Hazard = kind
	for _, a := range hazardArgs[kind] {
		s.Reqs = append(s.Reqs,
			Req{Shape: "get-subtree", Arg: lit(a)},
			Req{Shape: "edit-config", DS: "candidate", Arg: lit("<config>" + a + "</config>")},
			Req{Shape: "rpc", Arg: lit(a)})
	}
	return s
}

func takesOptions(shape string) bool {
	switch opOf(shape) {
	case "get", "get-config", "rpc", "commit", "commit-confirmed", "commit-confirmed-timeout", "commit-persist", "commit-persist-id":
		return true
	}
	return false
}

// noAnswerSession: the server leaves one or two requests unanswered (or answers them only after the
// call has given up); 1..5 more requests follow each of them on the same stream.
func noAnswerSession(r *rand.Rand, k int) Session {
	s := newSession(r, "noanswer", []string{"1.0", "1.1"}[k%2], (k/2)%2 == 0, (k/4)%2 == 0)
	g := &xg{r: r, mb: r.Intn(4) != 0, eom: s.Version == "1.1"}
	before := r.Intn(4)
	after := 1 + r.Intn(5)
	mk := func(fail bool) Req {
		q := genReq(r, g, shapes[r.Intn(len(shapes))])
		if q.Arg.N > 0 {
			q.Arg = lit("<big/>")
		}
		if fail {
			q.NoAnswer = []string{"silent", "late"}[r.Intn(2)]
			q.TimeoutVia = "channel"
			if takesOptions(q.Shape) && r.Intn(3) != 0 {
				q.TimeoutVia = "op"
			}
		}
		return q
	}
	for i := 0; i < before; i++ {
		s.Reqs = append(s.Reqs, mk(false))
	}
	s.Reqs = append(s.Reqs, mk(true))
	for i := 0; i < after; i++ {
		s.Reqs = append(s.Reqs, mk(false))
	}
	if r.Intn(3) == 0 { // a second failure, directly after the first or later
		if r.Intn(2) == 0 {
			s.Reqs = append(s.Reqs[:before+1], append([]Req{mk(true)}, s.Reqs[before+1:]...)...)
		} else {
			s.Reqs = append(s.Reqs, mk(true))
			for i, n := 0, 1+r.Intn(3); i < n; i++ {
				s.Reqs = append(s.Reqs, mk(false))
			}
		}
	}
	return s
}

// stallSession: 0..2 ordinary requests, then a request one of whose transport writes (index k)
// stalls for longer than its operation timeout, 1..2 follow-up requests, then - after the stall
// has certainly ended - one more. (With the pinned library the caller sits out the stall inside
// Write; a library that returns earlier lets the follow-up reach the wire during the stall.)
func stallSession(r *rand.Rand, version string, k int, i int) Session {
	s := newSession(r, "stall", version, false, true)
	s.StallMs = 500
	g := &xg{r: r, mb: r.Intn(3) != 0, eom: s.Version == "1.1"}
	mk := func() Req {
		q := genReq(r, g, shapes[r.Intn(len(shapes))])
		if q.Arg.N > 0 {
			q.Arg = lit("<big/>")
		}
		return q
	}
	for j := 0; j < i%3; j++ {
		s.Reqs = append(s.Reqs, mk())
	}
	q := mk()
	q.Stall = k
	q.TimeoutVia = "channel"
	if takesOptions(q.Shape) && r.Intn(2) == 0 {
		q.TimeoutVia = "op"
	}
	s.Reqs = append(s.Reqs, q)
	for j, n := 0, 1+r.Intn(2); j < n; j++ {
		s.Reqs = append(s.Reqs, mk())
	}
	last := mk()
	last.AfterStall = true
	s.Reqs = append(s.Reqs, last)
	return s
}

// applyPool spells out what Pool[:n] means for a call of the given method.
func applyPool(q *Req, method string, pool []OptSpec, n int, positional string) {
	filter, ftype := "", "subtree"
	for _, o := range pool[:n] {
		switch o.K {
		case "filter":
			filter = o.S
		case "filter-type":
			ftype = o.S
		case "defaults":
			q.Defaults = o.S
		case "confirmed":
			q.Confirmed = true
		case "confirm-timeout":
			q.Timeout = o.U
		case "persist":
			q.Persist = o.S
		case "persist-id":
			q.PersistID = o.S
		}
	}
	q.UsePool, q.PoolN = true, n
	switch method {
	case "get":
		q.Defaults, q.Confirmed, q.Timeout, q.Persist, q.PersistID = "", false, 0, "", ""
		q.Shape = "get"
		if positional != "" {
			q.Shape = "get-" + ftype
			q.Arg = lit(positional)
		}
	case "get-config":
		q.Confirmed, q.Timeout, q.Persist, q.PersistID = false, 0, "", ""
		q.Shape = "get-config"
		if filter != "" {
			q.Shape = "get-config-" + ftype
			q.Arg = lit(filter)
		}
	case "rpc":
		q.Defaults, q.Confirmed, q.Timeout, q.Persist, q.PersistID = "", false, 0, "", ""
		q.Shape = "rpc"
		q.Arg = lit(filter)
	default: // commit: the shape name only labels the cell; the oracle goes by the fields
		q.Defaults = ""
		q.Shape = "commit"
		switch {
		case q.PersistID != "":
			q.Shape = "commit-persist-id"
		case q.Persist != "":
			q.Shape = "commit-persist"
		case q.Timeout > 0:
			q.Shape = "commit-confirmed-timeout"
		case q.Confirmed:
			q.Shape = "commit-confirmed"
		}
	}
}

// aliasSession: all option-taking methods are called with prefixes Pool[:n] of one option array
// (capacity > length), in an order in which shorter prefixes are used before and after longer ones,
// mixed with option-less calls.
func aliasSession(r *rand.Rand, k int) Session {
	s := newSession(r, "alias", []string{"1.0", "1.1"}[k%2], (k/2)%2 == 0, (k/4)%2 == 0)
	g := &xg{r: r, mb: r.Intn(3) != 0, eom: s.Version == "1.1"}
	frag := func() string {
		for {
			if f := g.Fragment(); wellFormedContent(f, g.eom) {
				return f
			}
		}
	}
	kinds := []string{"filter", "filter-type", "defaults", "confirmed", "confirm-timeout", "persist", "persist-id", "filter", "defaults"}
	np := 3 + r.Intn(6)
	for j := 0; j < np; j++ {
		o := OptSpec{K: kinds[r.Intn(len(kinds))]}
		switch o.K {
		case "filter":
			o.S = frag()
		case "filter-type":
			o.S = []string{"subtree", "xpath"}[r.Intn(2)]
		case "defaults":
			o.S = pickS(r, defaultsPool)
		case "confirm-timeout":
			o.U = uint(1 + r.Intn(5000))
		case "persist", "persist-id":
			o.S = pickS(r, persistPool)
		}
		s.Pool = append(s.Pool, o)
	}
	methods := []string{"get", "get", "get-config", "rpc", "commit"}
	n := 8 + r.Intn(16)
	for j := 0; j < n; j++ {
		if r.Intn(6) == 0 {
			s.Reqs = append(s.Reqs, genReq(r, g, shapes[r.Intn(len(shapes))])) // ordinary call with literal options
			continue
		}
		q := Req{DS: pickS(r, dsPool[:5])}
		m := methods[r.Intn(len(methods))]
		pn := r.Intn(np + 1)
		if j%4 == 0 {
			m, pn = "get", r.Intn(np) // a Get with a proper prefix, so that a longer slice exists behind it
		}
		pos := ""
		if m == "get" && r.Intn(5) != 0 {
			pos = frag()
		}
		applyPool(&q, m, s.Pool, pn, pos)
		if m != "get-config" {
			q.DS = ""
		}
		s.Reqs = append(s.Reqs, q)
	}
	return s
}

// flipSession: the caller assigns Driver.ForceSelfClosingTags / Driver.ExcludeHeader on the open
// driver between requests, in both directions, several times; each request is expected to follow
// the values at the time of its call.
func flipSession(r *rand.Rand, k int) Session {
	s := newSession(r, "flip", []string{"1.0", "1.1"}[k%2], (k/2)%2 == 0, (k/4)%2 == 0)
	g := &xg{r: r, mb: r.Intn(3) != 0, eom: s.Version == "1.1"}
	n := 10 + r.Intn(21)
	force, header := s.Force, s.Header
	for i := 0; i < n; i++ {
		q := genReq(r, g, shapes[r.Intn(len(shapes))])
		if q.Arg.N > 0 {
			q.Arg = lit("<list><e></e><f x=\"1\"> </f></list>")
		}
		if i > 0 && r.Intn(3) == 0 {
			force = !force
			v := force
			q.SetForce = &v
		} else if i > 0 && r.Intn(8) == 0 {
			v := force // assignment of the value it already has
			q.SetForce = &v
		}
		if i > 0 && r.Intn(3) == 0 {
			header = !header
			v := header
			q.SetHeader = &v
		}
		s.Reqs = append(s.Reqs, q)
	}
	return s
}

// Gen is the case list: a pure function of (tier, seed).
func Gen(tier string, seed int64) []mon.Case {
	r := rand.New(rand.NewSource(seed*104729 + 3))
	nGrid, nSweep, nRandom, nBig, nNoAns, nCaps, nStall, nAlias, nLog, nFlip := 4, 2, 150, 8, 24, 1, 2, 24, 1, 24
	if tier == "thorough" {
		nGrid, nSweep, nRandom, nBig, nNoAns, nCaps, nStall, nAlias, nLog, nFlip = 40, 12, 9000, 128, 400, 6, 12, 400, 10, 400
	}
	var ss []Session
	for round := 0; round < nGrid; round++ {
		for _, v := range []string{"1.0", "1.1"} {
			for _, force := range []bool{false, true} {
				for _, header := range []bool{true, false} {
					ss = append(ss, gridSession(r, v, force, header))
				}
			}
		}
	}
	for round := 0; round < nSweep; round++ {
		for bi, b := range []int{100, 1000, 10000, 100000} {
			for _, v := range []string{"1.1", "1.0"} {
				if v == "1.0" && (round%2 == 1 || b == 100000) {
					continue // digit counts only exist in 1.1; keep a few 1.0 sweeps for the arguments' sake
				}
				if s, ok := sweepSession(r, v, b, round+bi); ok {
					ss = append(ss, s)
				}
			}
		}
	}
	for i := 0; i < nRandom; i++ {
		ss = append(ss, randomSession(r))
	}
	for i := 0; i < nBig; i++ {
		ss = append(ss, bigSession(r, i))
	}
	for round := 0; round < nCaps; round++ {
		for wd := range wdVariants {
			for vi, v := range []string{"1.0", "1.1"} {
				ss = append(ss, capsSession(r, wd, v, (wd+vi+round)%2 == 0))
			}
		}
	}
	for round := 0; round < nStall; round++ {
		for _, v := range []string{"1.0", "1.1"} {
			for k := 1; k <= 3; k++ {
				if v == "1.0" && k == 3 {
					continue // a 1.0 request is two writes
				}
				ss = append(ss, stallSession(r, v, k, round+k))
			}
		}
	}
	for round := 0; round < nLog; round++ {
		for _, lv := range []string{"debug", "info", "critical"} {
			for _, v := range []string{"1.0", "1.1"} {
				ss = append(ss, logSession(r, lv, v))
			}
		}
	}
	for i := 0; i < nFlip; i++ {
		ss = append(ss, flipSession(r, i))
	}
	for i := 0; i < nAlias; i++ {
		ss = append(ss, aliasSession(r, i))
	}
	for i := 0; i < nNoAns; i++ {
		ss = append(ss, noAnswerSession(r, i))
	}
	for _, k := range hazardKinds {
		for _, v := range []string{"1.0", "1.1"} {
			ss = append(ss, hazardSession(r, k, v, true))
		}
	}
	cs := make([]mon.Case, 0, len(ss))
	for i, s := range ss {
		cs = append(cs, mon.MkCase(fmt.Sprintf("c03/%05d-%s", i, s.Kind), s))
	}
	return cs
}
