// Package c03: NETCONF requests on the wire are correctly framed and carry the caller's content.
//
// The real netconf.Driver is driven over devsim.Conn against the ncsim server model, which strictly
// decodes (ncwire) everything the client writes. Every call is judged on three levels: the wire
// (one complete message per call, exact separators, FramedInput is the wire slice, sizes are byte
// counts), the XML (encoding/xml walk of NetconfResponse.Input against the caller's arguments) and
// the two serialisation options (twin sessions with the option off).
package c03

import (
	"strings"

	"verif/internal/devsim"
)

// Arg is a caller-supplied argument string. Small ones are literal; big ones are spelled out as
// Pre + Unit*N + Post so that descriptors (and replay files) stay small and self-contained.
type Arg struct {
	S    string `json:"s,omitempty"`
	Pre  string `json:"pre,omitempty"`
	Unit string `json:"unit,omitempty"`
	N    int    `json:"n,omitempty"`
	Post string `json:"post,omitempty"`
}

// Str expands the argument.
func (a Arg) Str() string {
	if a.N > 0 {
		return a.Pre + strings.Repeat(a.Unit, a.N) + a.Post
	}
	return a.S
}

func lit(s string) Arg { return Arg{S: s} }

// Req is one call of a public RPC method.
type Req struct {
	// Shape: one of the 19 entries of `shapes`.
	Shape string `json:"shape"`
	// DS is the datastore of the single-datastore operations and the *source* of copy-config;
	// DS2 is the *target* of copy-config.
	DS  string `json:"ds,omitempty"`
	DS2 string `json:"ds2,omitempty"`
	// Arg is the subtree filter / xpath expression / edit-config payload / raw rpc filter.
	Arg      Arg    `json:"arg,omitempty"`
	Defaults string `json:"defaults,omitempty"` // with-defaults mode (get-config shapes)
	// commit variants
	Confirmed bool   `json:"confirmed,omitempty"`
	Timeout   uint   `json:"timeout,omitempty"`
	Persist   string `json:"persist,omitempty"`
	PersistID string `json:"persist_id,omitempty"`
	// NoAnswer: "" the server answers at once; "silent" the server never answers this request;
	// "late" the answer is emitted only after the call has returned. In both cases the call runs
	// with a 200 ms operation timeout and is expected to end in a timeout error.
	NoAnswer string `json:"no_answer,omitempty"`
	// TimeoutVia: "op" per-call opoptions.WithTimeoutOps (methods that take options), "channel"
	// Channel.TimeoutOps set around the call.
	TimeoutVia string `json:"timeout_via,omitempty"`
	// Stall k > 0: the k-th transport write of this call (1 = frame, 2 = return, 3 = second return of
	// a 1.1 message) stalls until another write has arrived or Session.StallMs have passed; the call
	// runs with a 150 ms operation timeout (TimeoutVia).
	Stall int `json:"stall,omitempty"`
	// AfterStall: the harness waits until the stalled write has completed before this call.
	AfterStall bool `json:"after_stall,omitempty"`
	// UsePool: the call's options are Session.Pool[:PoolN], spread from a slice of the session's
	// shared backing array (capacity > length). The other fields spell out what these options mean
	// for this method, i.e. what the request must carry.
	// SetForce / SetHeader: before this call the harness assigns the exported fields
	// Driver.ForceSelfClosingTags = *SetForce / Driver.ExcludeHeader = !*SetHeader on the open driver.
	SetForce  *bool `json:"set_force,omitempty"`
	SetHeader *bool `json:"set_header,omitempty"`
	UsePool   bool  `json:"use_pool,omitempty"`
	PoolN     int   `json:"pool_n,omitempty"`
}

// OptSpec is one operation option of a session's shared option array.
type OptSpec struct {
	K string `json:"k"` // filter | filter-type | defaults | confirmed | confirm-timeout | persist | persist-id
	S string `json:"s,omitempty"`
	U uint   `json:"u,omitempty"`
}

// Session is a case descriptor: one NETCONF session of N consecutive requests on one stream.
type Session struct {
	Kind    string `json:"kind"`    // grid | random | sweep | big | hazard | noanswer | caps | stall | alias | log | flip (how it was generated)
	Version string `json:"version"` // 1.0 | 1.1
	Via     string `json:"via"`     // caps: server offers only that version; preferred: server offers both, client option selects
	Force   bool   `json:"force"`   // options.WithNetconfForceSelfClosingTags
	Header  bool   `json:"header"`  // false: options.WithNetconfExcludeHeader
	// Caps are further capabilities of the server hello, as written on the wire (XML-escaped or not);
	// WD names the with-defaults variant among them (evidence only).
	Caps []string `json:"caps,omitempty"`
	WD   string   `json:"wd,omitempty"`
	// Log: "" the driver has no logger; "debug" | "info" | "critical": a logging.Instance at that level
	// with one logger function attached (options.WithLogger).
	Log  string `json:"log,omitempty"`
	Reqs []Req  `json:"reqs"`
	// Pool is the shared option array of an "alias" session; StallMs the maximal stall of a "stall" session.
	Pool    []OptSpec  `json:"pool,omitempty"`
	StallMs int        `json:"stall_ms,omitempty"`
	Seg     devsim.Seg `json:"seg"`
	// Hazard names the rewrite hazard a "hazard" session's arguments carry (empty otherwise).
	Hazard string `json:"hazard,omitempty"`
}

// shapes are the call shapes: the 11 public RPC methods, commit in its 5 variants (15 operation
// shapes), get and get-config additionally split by filter kind (19).
var shapes = []string{
	"get", "get-subtree", "get-xpath",
	"get-config", "get-config-subtree", "get-config-xpath",
	"edit-config", "copy-config", "delete-config", "lock", "unlock", "validate",
	"commit", "commit-confirmed", "commit-confirmed-timeout", "commit-persist", "commit-persist-id",
	"discard", "rpc",
}

// opOf maps a shape to its operation shape (one of 15).
func opOf(shape string) string {
	switch shape {
	case "get-subtree", "get-xpath":
		return "get"
	case "get-config-subtree", "get-config-xpath":
		return "get-config"
	}
	return shape
}

// elemOf is the name of the operation element a shape must produce ("" for the raw rpc).
func elemOf(shape string) string {
	switch opOf(shape) {
	case "get":
		return "get"
	case "get-config":
		return "get-config"
	case "commit", "commit-confirmed", "commit-confirmed-timeout", "commit-persist", "commit-persist-id":
		return "commit"
	case "discard":
		return "discard-changes"
	case "rpc":
		return ""
	}
	return shape
}
