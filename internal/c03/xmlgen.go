package c03

import (
	"math/rand"
	"strings"
)

// Generator of well-formed XML fragments as callers pass them (filters, configuration payloads).

var wordNames = []string{"a", "b", "c", "interface", "name", "config", "if-name", "x_y", "running", "system", "item", "v", "mtu", "unit"}

// oddNames are valid XML names the library's rewrite pattern never touches ([\w-]+ does not match them).
var oddNames = []string{"a.b", "élément", "名前", "n1.x-y", "_u"}

// libNames collide with, extend, or are prefixes of the element names the library itself emits.
var libNames = []string{
	"filter", "filters", "filter-list", "filterX", "filte", "source", "sources", "target", "targets", "config", "configuration", "confi",
	"rpc", "rpc-reply", "rp", "get", "get-config", "get-configs", "edit-config", "edit-conf", "with-defaults", "commit", "commits", "confirmed",
	"confirm-timeout", "persist", "persist-id", "candidate", "running", "startup", "ok", "copy-config", "delete-config", "lock", "unlock",
	"validate", "discard-changes", "data", "hello",
}

var textPool = []string{
	"x", "eth0", "10.0.0.1/24", "a b  c", "1 > 0", "q&amp;a", "&lt;tag&gt;&lt;/tag&gt;", "é", "→ü€", "😀 ok", "line1\nline2", "tab\there",
	" lead", "trail ", "ge-0/0/0", "&#233;&#x2192;", "a]]b", "#42\n##", "日本語のテキスト", "#",
	// not XML whitespace: an element holding only these is NOT empty
	"\u00a0", "\u3000", "\u2003 \u2003", "\ufeff", "\u2028", "&#32;", "&#xA;",
}

var attrPool = []string{
	`x="1"`, `name="ge-0/0/0"`, `v='a "q" b'`, `u="é→"`, `gt="a>b"`, `e="x&amp;y"`, `empty=""`, `xml:lang="de"`,
	`nc:operation="delete" xmlns:nc="urn:ietf:params:xml:ns:netconf:base:1.0"`, `xmlns="urn:example:cfg"`,
	`xmlns="http://example.com/ns/if"`, `select="/a/b"`, `message-id="7"`, `long="` + strings.Repeat("v", 70) + `"`,
}

var wsPool = []string{" ", "\n", "\n  ", "\t", "\r\n", "   ", "\n\n"}

type xg struct {
	r  *rand.Rand
	mb bool // allow multi-byte material
	// forceLib makes the next name() draw from libNames (used for the root of a fragment)
	forceLib bool
	// eom: the session is 1.1, the 1.0 delimiter may occur in the payload
	eom bool
}

func (g *xg) pick(p []string) string { return p[g.r.Intn(len(p))] }

func (g *xg) text() string {
	for {
		t := g.pick(textPool)
		if g.mb || isASCII(t) {
			return t
		}
	}
}

func isASCII(s string) bool {
	for i := 0; i < len(s); i++ {
		if s[i] >= 0x80 {
			return false
		}
	}
	return true
}

func (g *xg) name(parent string) (name, nsAttr string) {
	k := g.r.Intn(12)
	if g.forceLib {
		g.forceLib = false
		k = 2
	}
	switch k {
	case 2, 3:
		name = g.pick(libNames)
		if g.r.Intn(5) == 0 {
			name = "p:" + name
			nsAttr = `xmlns:p="urn:example:p"`
		}
	case 0:
		if g.mb {
			name = g.pick(oddNames)
		} else {
			name = "a.b"
		}
	case 1:
		name = "p:" + g.pick(wordNames)
		nsAttr = `xmlns:p="urn:example:p"`
	default:
		name = g.pick(wordNames)
	}
	if name == parent && g.r.Intn(2) == 0 {
		// equal names nest half of the time (a self-closed child with attributes as the last child
		// of a same-named parent was a rewrite defect, fixed by 11a6e1c); otherwise a name that has
		// the parent's name as a proper prefix
		name += "2"
	}
	return
}

func (g *xg) attrs(nsAttr string) string {
	var parts []string
	if nsAttr != "" {
		parts = append(parts, nsAttr)
	}
	n := 0
	switch g.r.Intn(6) {
	case 0, 1:
		n = 1
	case 2:
		n = 2
	}
	seen := map[string]bool{}
	for i := 0; i < n; i++ {
		a := g.pick(attrPool)
		key := a[:strings.IndexByte(a, '=')]
		if seen[key] || (!g.mb && !isASCII(a)) || (strings.HasPrefix(a, "xmlns=") && seen["xmlns"]) {
			continue
		}
		seen[key] = true
		if strings.HasPrefix(a, "nc:") {
			seen["xmlns:nc"] = true
		}
		parts = append(parts, a)
	}
	if len(parts) == 0 {
		return ""
	}
	sep := " "
	switch g.r.Intn(8) {
	case 0:
		sep = "\n    "
	case 1:
		sep = "  "
	}
	lead := " "
	if g.r.Intn(10) == 0 {
		lead = "\n "
	}
	return lead + strings.Join(parts, sep)
}

// elem writes one element. budget bounds the number of elements still to be written.
func (g *xg) elem(b *strings.Builder, depth int, parent string, budget *int) {
	*budget--
	name, ns := g.name(parent)
	at := g.attrs(ns)
	tagWS := ""
	if g.r.Intn(12) == 0 {
		tagWS = g.pick([]string{" ", "  ", "\n"})
	}
	end := "</" + name + ">"
	if g.r.Intn(15) == 0 {
		end = "</" + name + " >"
	}
	k := g.r.Intn(12)
	if depth <= 0 || *budget <= 0 {
		k = g.r.Intn(7)
	}
	switch k {
	case 0: // already self-closed
		if at == "" && g.r.Intn(2) == 0 {
			b.WriteString("<" + name + tagWS + "/>")
		} else {
			b.WriteString("<" + name + at + tagWS + "/>")
		}
	case 1: // empty pair
		b.WriteString("<" + name + at + tagWS + ">" + end)
	case 2: // whitespace-only content
		b.WriteString("<" + name + at + tagWS + ">" + g.pick(wsPool) + end)
	case 3, 4, 5: // text
		b.WriteString("<" + name + at + tagWS + ">" + g.text() + end)
	case 6: // comment / CDATA / PI content without markup look-alikes
		b.WriteString("<" + name + at + tagWS + ">")
		b.WriteString(g.special())
		b.WriteString(end)
	default: // children, optionally indented, optionally mixed with text
		b.WriteString("<" + name + at + tagWS + ">")
		n := 1 + g.r.Intn(4)
		indent := ""
		if g.r.Intn(2) == 0 {
			indent = "\n" + strings.Repeat("  ", 3-depth+1)
		}
		for i := 0; i < n; i++ {
			b.WriteString(indent)
			if g.r.Intn(10) == 0 {
				b.WriteString(g.text())
			}
			g.elem(b, depth-1, name, budget)
		}
		if g.r.Intn(4) == 0 {
			// the rewrite pattern's other branch: an already self-closed last child (attributes or a
			// space before "/>") directly before the parent's end tag; its name differs from the
			// parent's, sometimes only by a suffix or a prefix
			b.WriteString(indent)
			cn := g.pick(wordNames)
			switch g.r.Intn(4) {
			case 0:
				cn = name + "x"
			case 1:
				if len(name) > 1 && isASCII(name) && !strings.Contains(name, ":") && !strings.HasSuffix(name[:len(name)-1], ".") {
					cn = name[:len(name)-1]
				}
			}
			if cn == name && g.r.Intn(2) == 0 {
				cn += "-2"
			} else if g.r.Intn(8) == 0 {
				cn = name // self-closed child, same name as the parent, directly before the parent's end tag
			}
			if g.r.Intn(3) == 0 {
				b.WriteString("<" + cn + " />")
			} else {
				b.WriteString("<" + cn + " " + g.pick(attrPool[:8]) + "/>")
			}
		}
		if indent != "" {
			b.WriteString("\n")
		} else if g.r.Intn(6) == 0 {
			b.WriteString(" ")
		}
		b.WriteString(end)
	}
}

var piPool = []string{
	"<?hint keep?>", `<?xml-stylesheet type="text/xsl" href="a.xsl"?>`, `<?xml-model href="x.rnc" type="application/relax-ng-compact-syntax"?>`,
	"<?xmlfoo?>", "<?XML-Thing a > b?>", "<?php echo 1; ?>", "<?target?>",
}

var afterPI = []string{"", " ", "\n", "\t\n  ", "\r\n", "  \n\n"}

const embeddedDoc = "<device><a>1</a><b x=\"2\">é</b></device>"

// special draws comment / CDATA / processing-instruction content (without text that looks like an
// empty element pair after a '>', which is the known rewrite finding).
func (g *xg) special() string {
	switch g.r.Intn(12) {
	case 0:
		return "<!-- note " + g.text2() + " -->"
	case 1:
		return "<![CDATA[ 1 < 2 && \"x\" " + g.text2() + " ]]>"
	case 2, 3: // processing instructions, also with targets that start with "xml", mixed white space after
		return g.pick(piPool) + g.pick(afterPI) + g.text()
	case 4: // an XML document carried as data
		return "<![CDATA[<?xml version=\"1.0\" encoding=\"UTF-8\"?>" + g.pick(afterPI) + embeddedDoc + "]]>"
	case 5:
		return "<![CDATA[\ufeff<?xml version='1.1' standalone=\"yes\" ?>\n" + embeddedDoc + "\n]]>"
	case 6:
		return "<!-- <?xml version=\"1.0\"?>" + g.pick(afterPI) + "was the first line -->" + g.text()
	case 7: // look-alikes of the 1.0 delimiter
		return g.pick([]string{"<![CDATA[x]]]]><![CDATA[>]]>", "<![CDATA[]]]>", "]]&gt;]]&gt;", "<![CDATA[ ]] > ]] > ]]>", "]]]]", "<![CDATA[]]]]><![CDATA[>]]]]><![CDATA[>]]>"})
	case 8:
		if g.eom {
			return g.pick([]string{"<!-- ]]>]]> -->", "<?pi ]]>]]>?>", "<!--]]>]]>--><![CDATA[x]]>"})
		}
		return "<!-- ]]> ]]> -->"
	case 9: // entity and character references
		return g.pick([]string{"&amp;&lt;&gt;&apos;&quot;", "&#60;?xml version=&#34;1.0&#34;?&#62;", "&#xFEFF;x", "a&#x26;b", "&lt;?xml version=\"1.0\"?&gt; "})
	case 10:
		return "\ufeff" + g.text()
	default:
		return g.pick(piPool) + g.pick(afterPI) + "<![CDATA[" + g.pick(piPool) + "]]>" + g.pick(afterPI) + g.pick(piPool)
	}
}

// text2 is text without '<' '&' and without "--" (usable inside comments / CDATA).
func (g *xg) text2() string {
	for {
		t := g.text()
		if !strings.ContainsAny(t, "<&") && !strings.Contains(t, "--") && !strings.Contains(t, "]]") {
			return t
		}
	}
}

// Fragment draws a well-formed content fragment (usually one element).
func (g *xg) Fragment() string {
	var b strings.Builder
	budget := 3 + g.r.Intn(25)
	switch g.r.Intn(12) {
	case 0: // text only
		return g.text()
	case 1: // one byte
		return "x"
	case 2: // siblings with whitespace around
		b.WriteString("\n  ")
		g.forceLib = g.r.Intn(3) == 0
		g.elem(&b, 2, "", &budget)
		b.WriteString("\n  ")
		g.elem(&b, 1, "", &budget)
		b.WriteString("\n")
	default:
		switch g.r.Intn(16) {
		case 0:
			b.WriteString(g.pick(piPool) + g.pick(afterPI))
		case 1:
			b.WriteString("<?xml version=\"1.0\" encoding=\"UTF-8\"?>" + g.pick(afterPI))
		case 2:
			b.WriteString("\ufeff")
		}
		g.forceLib = g.r.Intn(3) == 0
		g.elem(&b, 3, "", &budget)
	}
	return b.String()
}

// Config draws an edit-config payload.
func (g *xg) Config() string {
	var b strings.Builder
	budget := 3 + g.r.Intn(25)
	switch g.r.Intn(14) {
	case 0: // what a config read from a file starts with; the pinned library forwards it verbatim
		b.WriteString("<?xml version=\"1.0\" encoding=\"UTF-8\"?>" + g.pick(afterPI))
	case 1:
		b.WriteString("\ufeff")
	case 2:
		b.WriteString("\ufeff<?xml version=\"1.0\"?>\n")
	case 3:
		b.WriteString(g.pick(piPool) + g.pick(afterPI))
	}
	switch g.r.Intn(5) {
	case 0:
		b.WriteString("<default-operation>merge</default-operation>")
	case 1:
		b.WriteString("<test-option>set</test-option>\n")
	}
	open := "<config>"
	switch g.r.Intn(4) {
	case 0:
		open = `<config xmlns:xc="urn:ietf:params:xml:ns:netconf:base:1.0">`
	case 1:
		open = "<config >"
	}
	closeTag := "</config>"
	if g.r.Intn(5) == 0 {
		// payload whose root is not <config> but a name close to one the library emits
		nm := g.pick([]string{"configuration", "config-list", "confi", "target", "targets", "edit-config", "edit-configs", "rpc", "filter", "filters"})
		open = "<" + nm + g.pick([]string{"", ` xmlns="urn:example:cfg"`, ` x="1"`}) + ">"
		closeTag = "</" + nm + ">"
	}
	b.WriteString(open)
	n := g.r.Intn(3)
	for i := 0; i <= n; i++ {
		g.elem(&b, 3, "config", &budget)
	}
	b.WriteString(closeTag)
	return b.String()
}

var xpathPool = []string{
	"/", "/interfaces/interface[name='eth0']", `//a[b="c"]`, "/a/b[x<5 and y>3]", "/näme/→[.='ü']", "/a[.='&']", "/if:interfaces/if:interface",
	"//*[contains(., '<x></x>')]", "/a\n/b\t/c", "/a[b='&amp;']", `/a[@n="1"]/b[@m='2']`, "count(//item) > 0", "/ a / b ", "/😀",
}

var persistPool = []string{
	"label-1", `a<b>&"c"`, "é→😀", " spaced ", "p", "<persist></persist>", "tok#1\n##", "0", `it's`, "]]>",
}

var dsPool = []string{"running", "candidate", "startup", "running", "candidate", "my-store_1", "x", "a.b", "datén", "url-store", "CANDIDATE"}

var defaultsPool = []string{"report-all", "report-all-tagged", "trim", "explicit"}

// ---- big arguments --------------------------------------------------------------------------------

// bigArg draws an argument of roughly `size` bytes as a repeated unit.
func bigArg(r *rand.Rand, size int) Arg {
	type u struct{ pre, unit, post string }
	us := []u{
		{"<data>", "é", "</data>"},
		{"<data>", "0123456789", "</data>"},
		{"<list>", `<i n="1">→ü</i>`, "</list>"},
		{"<list>\n", "<e></e>\n", "</list>"},
		{"<list>", `<e a="é"> </e><f/>`, "</list>"},
		{"<t>", "😀", "</t>"},
		{"<cfg xmlns=\"urn:example:cfg\">", "<if><name>ge-0/0/0</name><mtu>9000</mtu><d>日本</d></if>", "</cfg>"},
	}
	x := us[r.Intn(len(us))]
	n := (size - len(x.pre) - len(x.post)) / len(x.unit)
	if strings.Contains(x.unit, "</e>") && n > 4000 {
		// the library rewrites every empty pair with one bytes.ReplaceAll over the whole message;
		// keep the number of distinct matches (FindAll results) bounded so a request stays well below a second
		n = 4000
	}
	if n < 1 {
		n = 1
	}
	return Arg{Pre: x.pre, Unit: x.unit, N: n, Post: x.post}
}

// padArg builds a text argument of exactly n bytes (n >= 1) mixing multi-byte and ASCII runes.
func padArg(n int, mb bool) Arg {
	if !mb || n < 4 {
		return Arg{Unit: "x", N: n}
	}
	// "é" is 2 bytes: N of them plus 0/1 ASCII byte
	if n%2 == 0 {
		return Arg{Unit: "é", N: n / 2}
	}
	return Arg{Unit: "é", N: n / 2, Post: "a"}
}
