package c03

import (
	"bytes"
	"encoding/xml"
	"errors"
	"fmt"
	"io"
	"regexp"
	"strconv"
	"strings"

	"verif/internal/ncwire"
)

const (
	baseNS     = "urn:ietf:params:xml:ns:netconf:base:1.0"
	defaultsNS = "urn:ietf:params:xml:ns:yang:ietf-netconf-with-defaults"
)

// complaint is an oracle's verdict on one request.
type complaint struct {
	key    string
	detail string
}

func bad(key, f string, a ...interface{}) *complaint {
	return &complaint{key: key, detail: fmt.Sprintf(f, a...)}
}

func clip(b []byte) string {
	if len(b) > 400 {
		return fmt.Sprintf("%q…(%d bytes)…%q", b[:200], len(b), b[len(b)-200:])
	}
	return fmt.Sprintf("%q", b)
}

func clipS(s string) string { return clip([]byte(s)) }

// firstDiff returns the first offset at which a and b differ.
func firstDiff(a, b []byte) int {
	n := len(a)
	if len(b) < n {
		n = len(b)
	}
	for i := 0; i < n; i++ {
		if a[i] != b[i] {
			return i
		}
	}
	return n
}

func around(b []byte, at int) string {
	lo, hi := at-60, at+60
	if lo < 0 {
		lo = 0
	}
	if hi > len(b) {
		hi = len(b)
	}
	return fmt.Sprintf("%q", b[lo:hi])
}

// ---- wire level -----------------------------------------------------------------------------------

// checkFrame: FramedInput must be exactly one frame (in the session's framing) of Input, sizes
// being exact byte counts. Decoded with the independent strict codec; returns the number of chunks.
func checkFrame(version string, input, framed []byte) (chunks int, c *complaint) {
	switch version {
	case "1.0":
		want := append(append([]byte(nil), input...), ncwire.EOM...)
		if !bytes.Equal(framed, want) {
			return 0, bad("c03/bad-frame:1.0", "FramedInput is not Input + \"]]>]]>\": first difference at %d: framed %s, want %s",
				firstDiff(framed, want), around(framed, firstDiff(framed, want)), around(want, firstDiff(framed, want)))
		}
		if bytes.Contains(input, []byte(ncwire.EOM)) {
			return 0, bad("c03/bad-frame:1.0-delimiter-in-payload", "Input contains the end-of-message delimiter")
		}
		return 1, nil
	default:
		// the LF that opens the first chunk and the LF that ends the end-of-chunks marker are the
		// returns the client writes around FramedInput (checked against the wire separately)
		raw := append(append([]byte("\n"), framed...), '\n')
		p, n, err := ncwire.DecodeChunkedStrict(raw)
		if err != nil {
			return 0, bad("c03/bad-frame:1.1", "FramedInput is not a valid RFC 6242 chunk stream: %v; head %s tail %s", err, around(framed, 0), around(framed, len(framed)))
		}
		if n != len(raw) {
			return 0, bad("c03/bad-frame:1.1", "FramedInput has %d bytes after the end-of-chunks marker", len(raw)-n)
		}
		if !bytes.Equal(p, input) {
			return 0, bad("c03/bad-frame:1.1", "FramedInput decodes to %d bytes, Input has %d; first difference at %d", len(p), len(input), firstDiff(p, input))
		}
		chunks = bytes.Count(framed, []byte("\n#")) // upper bound; exact for the single-chunk form below
		single := "#" + strconv.Itoa(len(input)) + "\n" + string(input) + "\n##"
		if string(framed) == single {
			chunks = 1
		}
		return chunks, nil
	}
}

// ---- XML level ------------------------------------------------------------------------------------

type node struct {
	name  xml.Name
	attrs []xml.Attr
	// start tag is in[b:sEnd], end tag in[eBeg:e]; a self-closed element has eBeg == e == sEnd
	b, sEnd, eBeg, e int
	kids             []*node
	text             []byte // character data directly under this element (decoded)
}

func (n *node) selfClosed() bool { return n.eBeg == n.e }

func (n *node) attr(space, local string) (string, bool) {
	for _, a := range n.attrs {
		if a.Name.Space == space && a.Name.Local == local {
			return a.Value, true
		}
	}
	return "", false
}

func onlyWS(b []byte) bool {
	for _, c := range b {
		if c != ' ' && c != '\t' && c != '\n' && c != '\r' {
			return false
		}
	}
	return true
}

// errMultiRoot: the message holds more than one document.
var errMultiRoot = errors.New("more than one document in one message")

type doc struct {
	declEnd int // > 0: an XML declaration occupies in[:declEnd]
	root    *node
}

// parseDoc walks the bytes with encoding/xml (strict mode: well-formedness, nesting, namespaces) and
// builds the element tree with byte offsets.
// innerDeclOK: the caller's own argument contains "<?xml" (a declaration forwarded verbatim inside the
// rpc is then the caller's content, not the library's doing).
func parseDoc(in []byte, innerDeclOK bool) (*doc, error) {
	d := xml.NewDecoder(bytes.NewReader(in))
	dc := &doc{}
	var stack []*node
	first := true
	rootDone := false
	for {
		b := int(d.InputOffset())
		t, err := d.Token()
		if err == io.EOF {
			break
		}
		if err != nil {
			return nil, fmt.Errorf("at offset %d: %v", b, err)
		}
		e := int(d.InputOffset())
		switch x := t.(type) {
		case xml.ProcInst:
			if x.Target == "xml" {
				if rootDone {
					return nil, fmt.Errorf("%w: XML declaration at offset %d, after a complete root element", errMultiRoot, b)
				}
				if !first || b != 0 {
					if !innerDeclOK {
						return nil, fmt.Errorf("XML declaration at offset %d, not at the start", b)
					}
				} else {
					dc.declEnd = e
				}
			} else if len(stack) == 0 {
				return nil, fmt.Errorf("processing instruction %q outside the root element", x.Target)
			}
		case xml.StartElement:
			n := &node{name: x.Name, attrs: append([]xml.Attr(nil), x.Attr...), b: b, sEnd: e}
			if len(stack) == 0 {
				if rootDone {
					return nil, fmt.Errorf("%w: second root element <%s> at offset %d", errMultiRoot, x.Name.Local, b)
				}
				dc.root = n
			} else {
				p := stack[len(stack)-1]
				p.kids = append(p.kids, n)
			}
			stack = append(stack, n)
		case xml.EndElement:
			n := stack[len(stack)-1]
			n.eBeg, n.e = b, e
			stack = stack[:len(stack)-1]
			if len(stack) == 0 {
				rootDone = true
			}
		case xml.CharData:
			if len(stack) == 0 {
				if !onlyWS(x) {
					return nil, fmt.Errorf("character data outside the root element at offset %d: %s", b, clip(x))
				}
			} else {
				p := stack[len(stack)-1]
				p.text = append(p.text, x...)
			}
		case xml.Directive:
			return nil, fmt.Errorf("directive at offset %d", b)
		}
		first = false
	}
	if dc.root == nil || !rootDone {
		return nil, fmt.Errorf("no complete root element")
	}
	return dc, nil
}

var wordName = regexp.MustCompile(`^[A-Za-z_][\w-]*$`)

// checkDS: wrapper (source/target) holds exactly one element with the caller's local name.
func checkDS(in []byte, w *node, wname, ds, op string, force bool) *complaint {
	if w.name.Local != wname || w.name.Space != baseNS {
		return bad("c03/xml:datastore:"+op, "expected <%s> in the base namespace, found <%s> in %q", wname, w.name.Local, w.name.Space)
	}
	if len(w.kids) != 1 || !onlyWS(w.text) {
		return bad("c03/xml:datastore:"+op, "<%s> must hold exactly one element (the datastore %q): %s", wname, ds, clip(in[w.b:w.e]))
	}
	k := w.kids[0]
	if k.name.Local != ds || k.name.Space != baseNS {
		return bad("c03/xml:datastore:"+op, "<%s> holds <%s> (namespace %q), the caller asked for %q", wname, k.name.Local, k.name.Space, ds)
	}
	if len(k.kids) != 0 || !onlyWS(k.text) || len(k.attrs) != 0 {
		return bad("c03/xml:datastore:"+op, "datastore element is not empty: %s", clip(in[k.b:k.e]))
	}
	if force && wordName.MatchString(ds) && !k.selfClosed() {
		return bad("c03/self-closing:datastore-not-self-closed:"+op, "self-closing tags forced, but the datastore element is %s", clip(in[k.b:k.e]))
	}
	return nil
}

// checkStructure walks Input. With verbatim set (self-closing not forced) the caller's filter /
// payload must occur byte for byte; with force the byte-level comparison is made against the twin
// session's Input by checkRewrite instead.
func checkStructure(in []byte, rq Req, header, force bool) (id int, c *complaint) {
	verbatim := !force
	op := opOf(rq.Shape)
	dc, err := parseDoc(in, strings.Contains(rq.Arg.Str(), "<?xml"))
	if err != nil {
		if errors.Is(err, errMultiRoot) {
			return 0, bad("c03/xml:more-than-one-rpc-in-message", "%v: %s", err, clip(in))
		}
		if force {
			// judged (and classified) against the unforced twin by the caller
			return 0, bad("c03/self-closing-rewrite:not-well-formed", "Input is not well-formed XML: %v", err)
		}
		return 0, bad("c03/xml:not-well-formed:"+op, "Input is not well-formed XML: %v: %s", err, clip(in))
	}
	if header && dc.declEnd == 0 {
		return 0, bad("c03/header:declaration-missing", "no XML declaration at the start of Input: %s", around(in, 0))
	}
	if !header && dc.declEnd != 0 {
		return 0, bad("c03/header:declaration-present", "WithNetconfExcludeHeader set, but Input starts with %s", around(in, 0))
	}
	r := dc.root
	if r.name.Local != "rpc" || r.name.Space != baseNS {
		return 0, bad("c03/xml:root:"+op, "root element is <%s> in namespace %q, want <rpc> in %q", r.name.Local, r.name.Space, baseNS)
	}
	ids, ok := r.attr("", "message-id")
	if !ok {
		return 0, bad("c03/xml:message-id:"+op, "<rpc> has no message-id attribute: %s", clip(in[r.b:r.sEnd]))
	}
	id, err = strconv.Atoi(ids)
	if err != nil || id <= 0 || strconv.Itoa(id) != ids {
		return 0, bad("c03/xml:message-id:"+op, "message-id %q is not a positive integer", ids)
	}
	arg := rq.Arg.Str()
	if rq.Shape == "rpc" {
		if verbatim && string(in[r.sEnd:r.eBeg]) != arg {
			return id, bad("c03/xml:rpc-filter", "content of <rpc> differs from the caller's filter at offset %d: got %s, caller gave %s",
				firstDiff(in[r.sEnd:r.eBeg], []byte(arg)), around(in[r.sEnd:r.eBeg], firstDiff(in[r.sEnd:r.eBeg], []byte(arg))), around([]byte(arg), firstDiff(in[r.sEnd:r.eBeg], []byte(arg))))
		}
		return id, nil
	}
	if len(r.kids) != 1 || !onlyWS(r.text) {
		return id, bad("c03/xml:operation:"+op, "<rpc> must hold exactly one operation element, has %d elements / text %s", len(r.kids), clip(r.text))
	}
	o := r.kids[0]
	if o.name.Local != elemOf(rq.Shape) || o.name.Space != baseNS {
		return id, bad("c03/xml:operation:"+op, "operation element is <%s> (namespace %q), want <%s>", o.name.Local, o.name.Space, elemOf(rq.Shape))
	}
	if len(o.attrs) != 0 {
		return id, bad("c03/xml:operation:"+op, "operation element carries attributes: %s", clip(in[o.b:o.sEnd]))
	}
	kids := o.kids
	next := func() *node {
		if len(kids) == 0 {
			return nil
		}
		k := kids[0]
		kids = kids[1:]
		return k
	}
	noMore := func() *complaint {
		if len(kids) != 0 {
			return bad("c03/xml:operation:"+op, "unexpected extra element <%s> in <%s>: %s", kids[0].name.Local, o.name.Local, clip(in[o.b:o.e]))
		}
		return nil
	}
	checkFilter := func(f *node) *complaint {
		if f == nil || f.name.Local != "filter" || f.name.Space != baseNS {
			return bad("c03/xml:filter:"+op, "expected a <filter> element: %s", clip(in[o.b:o.e]))
		}
		typ, _ := f.attr("", "type")
		sel, hasSel := f.attr("", "select")
		if strings.HasSuffix(rq.Shape, "-xpath") {
			if typ != "xpath" {
				return bad("c03/xml:filter:"+op, "filter type is %q, want \"xpath\"", typ)
			}
			if !hasSel || sel != arg {
				return bad("c03/xml:filter:"+op, "select attribute unescapes to %q, the caller gave %q", sel, arg)
			}
			if len(f.kids) != 0 || !onlyWS(f.text) {
				return bad("c03/xml:filter:"+op, "xpath filter element has content: %s", clip(in[f.b:f.e]))
			}
			if len(f.attrs) != 2 {
				return bad("c03/xml:filter:"+op, "xpath filter element has %d attributes: %s", len(f.attrs), clip(in[f.b:f.sEnd]))
			}
			return nil
		}
		if typ != "subtree" {
			return bad("c03/xml:filter:"+op, "filter type is %q, want \"subtree\"", typ)
		}
		if hasSel || len(f.attrs) != 1 {
			return bad("c03/xml:filter:"+op, "subtree filter element has extra attributes: %s", clip(in[f.b:f.sEnd]))
		}
		if verbatim && string(in[f.sEnd:f.eBeg]) != arg {
			d := firstDiff(in[f.sEnd:f.eBeg], []byte(arg))
			return bad("c03/xml:filter:"+op, "content of <filter> differs from the caller's filter at offset %d: got %s, caller gave %s",
				d, around(in[f.sEnd:f.eBeg], d), around([]byte(arg), d))
		}
		return nil
	}
	textElem := func(n *node, name, want, key string) *complaint {
		if n == nil || n.name.Local != name || n.name.Space != baseNS {
			return bad(key, "expected <%s> in <%s>: %s", name, o.name.Local, clip(in[o.b:o.e]))
		}
		if len(n.kids) != 0 || len(n.attrs) != 0 || string(n.text) != want {
			return bad(key, "<%s> carries %q (elements: %d, attributes: %d), the caller gave %q", name, n.text, len(n.kids), len(n.attrs), want)
		}
		return nil
	}
	switch op {
	case "get", "get-config":
		if op == "get-config" {
			s := next()
			if s == nil {
				return id, bad("c03/xml:datastore:"+op, "<get-config> has no <source>")
			}
			if c := checkDS(in, s, "source", rq.DS, op, force); c != nil {
				return id, c
			}
		}
		if rq.Shape != op { // a filter kind is part of the shape
			if c := checkFilter(next()); c != nil {
				return id, c
			}
		}
		if rq.Defaults != "" {
			w := next()
			if w == nil || w.name.Local != "with-defaults" || w.name.Space != defaultsNS {
				return id, bad("c03/xml:defaults", "expected <with-defaults xmlns=%q>: %s", defaultsNS, clip(in[o.b:o.e]))
			}
			if len(w.kids) != 0 || string(w.text) != rq.Defaults {
				return id, bad("c03/xml:defaults", "<with-defaults> carries %q, the caller asked for %q", w.text, rq.Defaults)
			}
		}
		if c := noMore(); c != nil {
			return id, c
		}
		if !onlyWS(o.text) {
			return id, bad("c03/xml:operation:"+op, "stray text in <%s>: %s", op, clip(o.text))
		}
	case "edit-config":
		t := next()
		if t == nil {
			return id, bad("c03/xml:datastore:"+op, "<edit-config> has no <target>")
		}
		if c := checkDS(in, t, "target", rq.DS, op, force); c != nil {
			return id, c
		}
		if verbatim && string(in[t.e:o.eBeg]) != arg {
			d := firstDiff(in[t.e:o.eBeg], []byte(arg))
			return id, bad("c03/xml:config", "bytes after </target> differ from the caller's configuration at offset %d: got %s, caller gave %s",
				d, around(in[t.e:o.eBeg], d), around([]byte(arg), d))
		}
	case "copy-config":
		t, s := next(), next()
		if t == nil || s == nil {
			return id, bad("c03/xml:datastore:"+op, "<copy-config> needs <target> and <source>: %s", clip(in[o.b:o.e]))
		}
		if c := checkDS(in, t, "target", rq.DS2, op, force); c != nil {
			return id, c
		}
		if c := checkDS(in, s, "source", rq.DS, op, force); c != nil {
			return id, c
		}
		if c := noMore(); c != nil {
			return id, c
		}
	case "delete-config", "lock", "unlock":
		t := next()
		if t == nil {
			return id, bad("c03/xml:datastore:"+op, "<%s> has no <target>", op)
		}
		if c := checkDS(in, t, "target", rq.DS, op, force); c != nil {
			return id, c
		}
		if c := noMore(); c != nil {
			return id, c
		}
	case "validate":
		s := next()
		if s == nil {
			return id, bad("c03/xml:datastore:"+op, "<validate> has no <source>")
		}
		if c := checkDS(in, s, "source", rq.DS, op, force); c != nil {
			return id, c
		}
		if c := noMore(); c != nil {
			return id, c
		}
	case "discard":
		if c := noMore(); c != nil {
			return id, c
		}
		if !onlyWS(o.text) {
			return id, bad("c03/xml:operation:"+op, "stray text in <discard-changes>")
		}
	default: // commit variants
		key := "c03/xml:commit:" + op
		if rq.Confirmed {
			n := next()
			if n == nil || n.name.Local != "confirmed" || n.name.Space != baseNS || len(n.kids) != 0 || !onlyWS(n.text) {
				return id, bad(key, "expected an empty <confirmed/>: %s", clip(in[o.b:o.e]))
			}
		}
		if rq.Timeout > 0 {
			if c := textElem(next(), "confirm-timeout", strconv.FormatUint(uint64(rq.Timeout), 10), key); c != nil {
				return id, c
			}
		}
		if rq.Persist != "" {
			if c := textElem(next(), "persist", rq.Persist, key); c != nil {
				return id, c
			}
		}
		if rq.PersistID != "" {
			if c := textElem(next(), "persist-id", rq.PersistID, key); c != nil {
				return id, c
			}
		}
		if c := noMore(); c != nil {
			return id, c
		}
		if !onlyWS(o.text) {
			return id, bad(key, "stray text in <commit>: %s", clip(o.text))
		}
	}
	return id, nil
}

// ---- option: exclude header -----------------------------------------------------------------------

// checkHeaderTwin: withHeader is the same request serialised with the declaration; without must be
// exactly the rest.
func checkHeaderTwin(withHeader, without []byte) *complaint {
	if !bytes.HasPrefix(withHeader, []byte("<?xml")) {
		return bad("c03/header:declaration-missing", "twin with header does not start with a declaration: %s", around(withHeader, 0))
	}
	k := bytes.Index(withHeader, []byte("?>"))
	if k < 0 {
		return bad("c03/header:declaration-missing", "unterminated declaration")
	}
	rest := withHeader[k+2:]
	if !bytes.Equal(rest, without) {
		d := firstDiff(rest, without)
		return bad("c03/header:differs-beyond-declaration", "excluding the header changed more than the declaration: at offset %d with header %s, without %s",
			d, around(rest, d), around(without, d))
	}
	return nil
}

// ---- option: force self-closing tags --------------------------------------------------------------

type rtok struct {
	kind string // start | end | text | cdata | comment | pi | directive
	b, e int
	name string // raw qualified name of start/end tags
	self bool   // start tag of a self-closed element / its synthesised end
}

func rawTokens(in []byte) ([]rtok, error) {
	d := xml.NewDecoder(bytes.NewReader(in))
	var out []rtok
	for {
		b := int(d.InputOffset())
		t, err := d.RawToken()
		if err == io.EOF {
			return out, nil
		}
		if err != nil {
			return nil, err
		}
		e := int(d.InputOffset())
		qn := func(n xml.Name) string {
			if n.Space != "" {
				return n.Space + ":" + n.Local
			}
			return n.Local
		}
		switch x := t.(type) {
		case xml.StartElement:
			out = append(out, rtok{kind: "start", b: b, e: e, name: qn(x.Name), self: e-b >= 2 && in[e-2] == '/'})
		case xml.EndElement:
			out = append(out, rtok{kind: "end", b: b, e: e, name: qn(x.Name), self: b == e})
		case xml.CharData:
			k := "text"
			if bytes.HasPrefix(in[b:e], []byte("<![CDATA[")) {
				k = "cdata"
			}
			out = append(out, rtok{kind: k, b: b, e: e})
		case xml.Comment:
			out = append(out, rtok{kind: "comment", b: b, e: e})
		case xml.ProcInst:
			out = append(out, rtok{kind: "pi", b: b, e: e})
		case xml.Directive:
			out = append(out, rtok{kind: "directive", b: b, e: e})
		}
	}
}

// checkRewrite decides whether forced is unforced with some (start tag, only-whitespace, end tag)
// triples replaced by the self-closed form of the start tag, and byte-identical everywhere else.
// It returns the number of rewritten and of untouched empty pairs.
func checkRewrite(unforced, forced []byte) (rewritten, kept int, c *complaint) {
	toks, err := rawTokens(unforced)
	if err != nil {
		return 0, 0, bad("c03/harness:twin-not-tokenisable", "%v", err)
	}
	pos := 0
	U, F := unforced, forced
	deviation := func(i int, what string) *complaint {
		t := toks[i]
		d := pos + firstDiff(F[imin(pos, len(F)):], U[t.b:])
		wf := "forced output is well-formed"
		if _, err := parseDoc(F, true); err != nil {
			wf = "forced output is NOT well-formed XML (" + err.Error() + ")"
		}
		return bad("c03/self-closing-rewrite:"+what,
			"forcing self-closing tags changed something that is not an empty element: unforced token %s at %d; unforced %s, forced %s; %s",
			clip(U[t.b:t.e]), t.b, around(U, t.b+(d-pos)), around(F, d), wf)
	}
	for i := 0; i < len(toks); {
		t := toks[i]
		if t.kind == "start" && !t.self {
			j := i + 1
			if j < len(toks) && toks[j].kind == "text" && onlyWS(U[toks[j].b:toks[j].e]) {
				j++
			}
			if j < len(toks) && toks[j].kind == "end" && !toks[j].self && toks[j].name == t.name {
				orig := U[t.b:toks[j].e]
				if bytes.HasPrefix(F[pos:], orig) {
					pos += len(orig)
					kept++
					i = j + 1
					continue
				}
				stem := U[t.b : t.e-1]
				if bytes.HasPrefix(F[pos:], stem) {
					rest := F[pos+len(stem):]
					k := 0
					for k < len(rest) && (rest[k] == ' ' || rest[k] == '\t' || rest[k] == '\n' || rest[k] == '\r') {
						k++
					}
					if bytes.HasPrefix(rest[k:], []byte("/>")) {
						pos += len(stem) + k + 2
						rewritten++
						i = j + 1
						continue
					}
				}
				return rewritten, kept, deviation(i, "empty-element-garbled")
			}
		}
		seg := U[t.b:t.e]
		if len(seg) == 0 { // synthesised end of a self-closed element
			i++
			continue
		}
		if !bytes.HasPrefix(F[pos:], seg) {
			what := t.kind + "-altered"
			switch t.kind {
			case "start":
				if t.self {
					// which end tag follows the self-closed element?
					j := i + 2
					if j < len(toks) && toks[j].kind == "text" && onlyWS(U[toks[j].b:toks[j].e]) {
						j++
					}
					if j < len(toks) && toks[j].kind == "end" && toks[j].name == t.name {
						what = "self-closed-child-of-same-name-parent"
					} else {
						what = "self-closed-element-altered"
					}
				} else {
					what = "non-empty-element-altered"
				}
			case "end":
				what = "end-tag-altered"
			case "cdata":
				what = "cdata-content-altered"
			case "comment":
				what = "comment-altered"
			}
			return rewritten, kept, deviation(i, what)
		}
		pos += len(seg)
		i++
	}
	if pos != len(F) {
		return rewritten, kept, bad("c03/self-closing-rewrite:trailing-bytes", "forced output has %d extra bytes at the end: %s", len(F)-pos, around(F, pos))
	}
	return rewritten, kept, nil
}

func imin(a, b int) int {
	if a < b {
		return a
	}
	return b
}
