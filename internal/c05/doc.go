// Package c05 holds the runtime monitor for property C05 (see DESIGN.md §3 C05).
package c05
