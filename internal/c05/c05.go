// Package c05: every blocking operation honours its timeout.
package c05

import (
	"errors"
	"fmt"
	"regexp"
	"strings"
	"sync"
	"sync/atomic"
	"time"

	"github.com/scrapli/scrapligo/driver/opoptions"
	"github.com/scrapli/scrapligo/driver/options"
	"github.com/scrapli/scrapligo/util"

	"verif/internal/devsim"
	"verif/internal/mon"
	"verif/internal/scen"
	"verif/internal/yield"
)

// Desc is one stall case.
type Desc struct {
	Scenario string     `json:"scenario"`
	K        int        `json:"k"` // the device goes silent after byte K of the exchange
	Setting  string     `json:"setting"`
	Seg      devsim.Seg `json:"seg"`
	Base     int        `json:"base"`
	S        int        `json:"s"`
	Want     string     `json:"want"`
	DryErr   string     `json:"dry_err,omitempty"`
	CmdAt    int        `json:"cmd_at"`
	// YieldPoint (setting "conn+yield"): the first goroutine arriving at this library yield point is
	// held for the connection-wide timeout plus 60 ms - a schedule a loaded machine could produce.
	YieldPoint string `json:"yield_point,omitempty"`
	// J (setting "writeblock", login scenarios only): the J-th transport write of the login blocks
	// (the peer stopped draining) until the transport is closed.
	J int `json:"j,omitempty"`
	// K2 (setting "paced"): the device is slow but alive: it pauses at byte K for 3 s, then goes on
	// and falls silent for good after byte K2. The 4 s timeout runs from the start of the operation.
	K2 int `json:"k2,omitempty"`
	// ReadDelayUs > 0: the channel's read delay for this case (default otherwise).
	ReadDelayUs int `json:"read_delay_us,omitempty"`
}

// Timeout settings:
//
//	conn      connection-wide 150 ms, stall forever            -> timeout error by 150 ms + slack
//	conn-long connection-wide 2.5 s (longer than the slack)     -> timeout error by 2.5 s + slack
//	perop     per-op 150 ms over connection-wide 4 s            -> timeout error by 150 ms + slack (precedence by outcome)
//	perop-long per-op 900 ms over connection-wide 100 ms, device resumes ~350 ms after the call started -> must succeed
//	zero      per-op 0 (= maximum) over connection-wide 150 ms, device resumes after ~600 ms             -> must succeed
const (
	tShort = 150 * time.Millisecond
	slack  = 1500 * time.Millisecond
)

type opRes struct {
	res string
	err error
	pan interface{}
	at  time.Time
}

func runOp(f func() (string, error)) chan opRes {
	ch := make(chan opRes, 1)
	go func() {
		defer func() {
			if x := recover(); x != nil {
				ch <- opRes{pan: fmt.Sprintf("%v\n%s", x, mon.GoroutineDump()[:3000]), at: time.Now()}
			}
		}()
		r, e := f()
		ch <- opRes{res: r, err: e, at: time.Now()}
	}()
	return ch
}

var gidRe = regexp.MustCompile(`^goroutine (\d+) \[([^\]]+)\]`)

// opGoroutines returns the library goroutines that are neither read loops nor parked for good,
// excluding the ids in `before`.
func opGoroutines(before map[string]bool) []string {
	var out []string
	for _, g := range mon.LibGoroutines() {
		m := gidRe.FindStringSubmatch(g)
		if m == nil || before[m[1]] {
			continue
		}
		if strings.Contains(g, "channel.(*Channel).read(") || strings.Contains(g, "netconf.(*Driver).read(") {
			continue
		}
		st := m[2]
		if strings.HasPrefix(st, "chan send") || strings.HasPrefix(st, "chan receive") {
			continue // parked on a channel nobody services any more: cannot consume anything
		}
		if strings.Contains(g, "verif/internal/") && !strings.Contains(g, "created by github.com/scrapli") {
			// a harness goroutine that is currently inside a library call (our own op runner)
			continue
		}
		out = append(out, g)
	}
	return out
}

func libIDs() map[string]bool {
	ids := map[string]bool{}
	for _, g := range mon.LibGoroutines() {
		if m := gidRe.FindStringSubmatch(g); m != nil {
			ids[m[1]] = true
		}
	}
	return ids
}

func run(c mon.Case) mon.Result {
	var d Desc
	c.Decode(&d)
	sc := scen.ByName(d.Scenario)
	if sc == nil {
		return mon.Result{Verdict: mon.Inconclusive, Detail: "unknown scenario"}
	}
	if d.DryErr != "" {
		st := scen.DryRun(sc)
		return mon.Result{Verdict: mon.Inconclusive, Detail: "dry run fails on a healthy connection: " + d.DryErr + " / " + st.Err}
	}
	for attempt := 0; ; attempt++ {
		var r mon.Result
		if d.Setting == "late-reader" {
			r = runLate(d, sc)
		} else {
			r = runOnce(d, sc)
		}
		if r.Verdict == mon.Inconclusive && strings.HasPrefix(r.Detail, "load:") && attempt < 2 {
			time.Sleep(200 * time.Millisecond)
			continue
		}
		return r
	}
}

func runOnce(d Desc, sc *scen.Scenario) mon.Result {
	t00 := time.Now()
	var yarm *atomic.Bool
	connWide := tShort
	var perOp []util.Option
	expectSuccess := false
	var resumeAfter time.Duration
	T := tShort
	var held time.Duration
	switch d.Setting {
	case "conn":
	case "conn+yield":
		held = tShort + 60*time.Millisecond
		var once sync.Once
		pt := d.YieldPoint
		armed := new(atomic.Bool)
		yield.Install(func(p string) {
			if p == pt && armed.Load() {
				once.Do(func() { time.Sleep(held) })
			}
		})
		defer yield.Install(nil)
		defer func() { armed.Store(false) }()
		yarm = armed
	case "conn-long":
		// a timeout that is LONGER than the slack: an operation that takes a multiple of its timeout
		// is seen here (with 150 ms it hides inside the 1.5 s slack)
		connWide = 2500 * time.Millisecond
		T = 2500 * time.Millisecond
	case "paced":
		connWide = 4 * time.Second
		T = 4 * time.Second
	case "perop":
		connWide = 4 * time.Second
		perOp = []util.Option{opoptions.WithTimeoutOps(tShort), scen.WithCallbackTimeout(tShort)}
		if sc.UserCmd != "" && !sc.PrivErrOK && d.CmdAt > 0 && d.K < d.CmdAt {
			// the privilege change in front of the configuration lines is an operation of its own,
			// governed by the connection-wide timeout
			T = connWide
		}
	case "perop-long":
		connWide = 100 * time.Millisecond
		perOp = []util.Option{opoptions.WithTimeoutOps(900 * time.Millisecond), scen.WithCallbackTimeout(900 * time.Millisecond)}
		expectSuccess, resumeAfter, T = true, 350*time.Millisecond, 900*time.Millisecond
	case "zero":
		perOp = []util.Option{opoptions.WithTimeoutOps(0)}
		expectSuccess, resumeAfter = true, 600*time.Millisecond
	}
	cfg := devsim.Config{Seg: d.Seg, KeepData: true}
	if sc.Pre == nil {
		cfg.Fault, cfg.FaultAt = devsim.FaultStall, d.K
	}
	if d.Setting == "writeblock" {
		cfg.Fault, cfg.FaultAt = devsim.FaultNone, 0
		cfg.WriteBlockN = d.J
	}
	var ctorExtra []util.Option
	if d.ReadDelayUs > 0 {
		ctorExtra = append(ctorExtra, options.WithReadDelay(time.Duration(d.ReadDelayUs)*time.Microsecond))
	}
	s, err := sc.New(cfg, connWide, ctorExtra...)
	if err != nil {
		return mon.Result{Verdict: mon.Inconclusive, Detail: "constructor: " + err.Error()}
	}
	defer s.Conn.Abandon()
	if sc.Pre != nil {
		// the set-up runs with a generous timeout, then the connection-wide value under test is set
		s.G0().TimeoutOps = 10 * time.Second
		if err := sc.Pre(s); err != nil {
			return mon.Result{Verdict: mon.Inconclusive, Detail: "set-up failed on a healthy connection: " + err.Error()}
		}
		if !s.Quiesce(5 * time.Second) {
			return mon.Result{Verdict: mon.Inconclusive, Detail: "set-up: stream not drained"}
		}
		s.G0().TimeoutOps = connWide
		var gen int
		s.Conn.Do(func() { gen = s.Conn.Generated() })
		if gen != d.Base {
			return mon.Result{Verdict: mon.Inconclusive, Detail: fmt.Sprintf("set-up generated %d bytes, dry run %d", gen, d.Base)}
		}
		s.Conn.SetFault(devsim.FaultStall, d.Base+d.K)
	}
	viol := func(key, f string, a ...interface{}) mon.Result {
		return mon.Result{Verdict: mon.Violated, Key: key, Detail: fmt.Sprintf("%s setting=%s stall after byte %d of %d: ", d.Scenario, d.Setting, d.K, d.S) + fmt.Sprintf(f, a...),
			Events: tail(s.Conn.Log(), 40), NonTrivial: true}
	}
	before := libIDs()
	if yarm != nil {
		yarm.Store(true)
	}
	slk := slack
	if d.Setting == "conn-long" {
		slk = 700 * time.Millisecond
	}
	hang := 20 * T
	if hang < T+5*time.Second {
		hang = T + 5*time.Second
	}
	t0 := time.Now()
	ch := runOp(func() (string, error) { return sc.Op(s, perOp...) })
	var r opRes
	released := false
	if d.Setting == "paced" {
		pacer := time.AfterFunc(3*time.Second, func() { s.Conn.SetFault(devsim.FaultStall, d.Base+d.K2) })
		defer pacer.Stop()
	}
	if expectSuccess {
		// the device resumes only after the harness has SEEN that the call did not return
		select {
		case r = <-ch:
			// returned before the device resumed
			if r.pan == nil && r.err != nil && d.K < d.S {
				if mon.LoadedSince(t00) {
					return mon.Result{Verdict: mon.Inconclusive, Detail: "load: early return under load"}
				}
				return viol("c05/precedence:"+d.Setting+":"+d.Scenario, "returned %q after %s although the per-operation timeout (%s) had not expired and overrides the connection-wide %s",
					r.err, time.Since(t0).Round(time.Millisecond), map[string]string{"perop-long": "900ms", "zero": "0 = maximum"}[d.Setting], connWide)
			}
		case <-time.After(resumeAfter):
			if since := time.Since(t0); d.Setting == "perop-long" && since > 700*time.Millisecond {
				return mon.Result{Verdict: mon.Inconclusive, Detail: "load: harness woke too late to resume the device inside the per-op timeout"}
			}
			s.Conn.Release()
			released = true
			select {
			case r = <-ch:
			case <-time.After(hang):
				if mon.LoadedSince(t00) {
					return mon.Result{Verdict: mon.Inconclusive, Detail: "load: no return, machine loaded"}
				}
				return viol("c05/hang:"+d.Scenario, "no return %s after the device resumed\n%s", hang, libStacks())
			}
		}
	} else {
		select {
		case r = <-ch:
		case <-time.After(hang):
			if mon.LoadedSince(t00) {
				return mon.Result{Verdict: mon.Inconclusive, Detail: "load: no return, machine loaded"}
			}
			return viol("c05/hang:"+d.Scenario, "operation has not returned after %s (timeout %s)\n%s", hang, T, libStacks())
		}
	}
	el := r.at.Sub(t0)
	obs := map[string]int64{"cases": 1}
	tags := []string{"scenario=" + d.Scenario, "setting=" + d.Setting}
	if got := s.G0().TimeoutOps; got != connWide {
		// a per-operation timeout belongs to its operation: whatever happened, the connection-wide
		// value that governs every later operation must be what was configured
		return viol("c05/connection-wide-timeout-changed:"+d.Scenario, "the connection-wide timeout is %s after the operation, configured was %s (per-operation options: %d)", got, connWide, len(perOp))
	}
	if d.Setting == "paced" {
		obs["paced_cases"]++
	}
	if r.pan != nil {
		return viol("c05/panic-in-caller:"+d.Scenario, "operation panicked: %v", r.pan)
	}
	if r.err == nil {
		obs["op_succeeded"]++
		if sc.IsOpen && d.Setting != "writeblock" && !released && d.K < d.S-2 {
			return viol("c05/partial-success:"+d.Scenario, "Open reported success although the device went silent after byte %d of the %d-byte opening exchange", d.K, d.S)
		}
		if r.res != d.Want {
			return viol("c05/partial-success:"+d.Scenario, "success reported with a result that is not the complete one\n got: %q\nwant: %q", r.res, d.Want)
		}
	} else {
		obs["op_timed_out_or_failed"]++
		if d.Setting != "writeblock" && d.Setting != "conn+yield" && !released && s.Conn.Delivered() < d.Base+d.K {
			// the operation gave up before the device had gone silent at all: the stall cannot be
			// the reason, a step simply took longer than the (short) timeout on this machine
			return mon.Result{Verdict: mon.Inconclusive, Detail: fmt.Sprintf("load: operation failed (%v) with %d bytes delivered, before the stall point %d was reached", r.err, s.Conn.Delivered(), d.Base+d.K)}
		}
		if expectSuccess && released {
			if mon.LoadedSince(t00) {
				return mon.Result{Verdict: mon.Inconclusive, Detail: "load: failure after resume under load"}
			}
			return viol("c05/precedence:"+d.Setting+":"+d.Scenario, "device resumed %s into a %s per-operation timeout, yet the call failed with %q after %s",
				resumeAfter, map[string]string{"perop-long": "900ms", "zero": "unlimited"}[d.Setting], r.err, el.Round(time.Millisecond))
		}
		isTimeout := errors.Is(r.err, util.ErrTimeoutError)
		isPriv := errors.Is(r.err, util.ErrPrivilegeError)
		if sc.PrivErrOK && d.Setting == "conn+yield" {
			// the held goroutine may make either phase run into its deadline
			if !isTimeout && !isPriv {
				return viol("c05/error-class:"+d.Scenario, "expected a timeout or privilege error, got %q", r.err)
			}
		} else if sc.PrivErrOK && d.Setting == "paced" {
			if !isTimeout && !isPriv {
				return viol("c05/error-class:"+d.Scenario, "expected a timeout or privilege error, got %q", r.err)
			}
		} else if sc.PrivErrOK && d.CmdAt >= 0 {
			// the stall hit the implicit privilege change iff it began before the user's own command
			// could be typed
			if d.K < d.CmdAt && !isPriv {
				return viol("c05/error-class:implicit-privilege-change:"+d.Scenario, "the stall (byte %d) is inside the implicit privilege change (complete at byte %d): expected a privilege error, got %q", d.K, d.CmdAt, r.err)
			}
			if d.K >= d.CmdAt && !isTimeout {
				return viol("c05/error-class:"+d.Scenario, "the stall (byte %d) is inside the user's command (typed at byte %d): expected a timeout error, got %q", d.K, d.CmdAt, r.err)
			}
		} else if !isTimeout {
			return viol("c05/error-class:"+d.Scenario, "expected a timeout error, got %q", r.err)
		}
		tags = append(tags, "err="+map[bool]string{true: "timeout", false: "privilege"}[isTimeout])
		if el > T+slk+held {
			if mon.LoadedSince(t00) {
				return mon.Result{Verdict: mon.Inconclusive, Detail: fmt.Sprintf("load: returned after %s under load", el)}
			}
			return viol("c05/late:"+d.Setting+":"+d.Scenario, "timeout error returned after %s; configured timeout %s (+%s slack)", el.Round(time.Millisecond), T, slk)
		}
		tags = append(tags, "latency="+bucket(el-T))
		if d.Setting == "writeblock" && s.Conn.CloseCalls() < 1 {
			return viol("c05/transport-left-open:"+d.Scenario, "Open failed with %q but the transport was not closed", r.err)
		}
	}
	// recovery clause
	recovered := false
	if r.err != nil && sc.Later != nil && (sc.Pre != nil || s.Opened) {
		judge := false
		if s.CLI != nil {
			judge = s.AtCommandPrompt()
		} else if s.NC != nil {
			judge = true
		}
		if judge {
			// quiescence by observation: no operation goroutine of this case may still be running
			deadline := time.Now().Add(2 * time.Second)
			var still []string
			for {
				still = opGoroutines(before)
				if len(still) == 0 || time.Now().After(deadline) {
					break
				}
				time.Sleep(2 * time.Millisecond)
			}
			if len(still) > 0 {
				obs["op_goroutine_still_running_at_resume"]++
			}
			s.G0().TimeoutOps = 5 * time.Second
			s.Conn.Release()
			var lr opRes
			select {
			case lr = <-runOp(func() (string, error) { return sc.Later(s) }):
			case <-time.After(15 * time.Second):
				if mon.LoadedSince(t00) {
					return mon.Result{Verdict: mon.Inconclusive, Detail: "load: follow-up did not return, machine loaded"}
				}
				return viol("c05/recovery-hang:"+d.Scenario, "the exchange after the timed-out one has not returned after 15 s\n%s", libStacks())
			}
			if lr.pan != nil {
				return viol("c05/panic-in-caller-later:"+d.Scenario, "follow-up panicked: %v", lr.pan)
			}
			if lr.err != nil || lr.res != sc.LaterWant {
				if lr.err != nil && errors.Is(lr.err, util.ErrTimeoutError) && mon.LoadedSince(t00) {
					return mon.Result{Verdict: mon.Inconclusive, Detail: "load: follow-up timed out under load"}
				}
				extra := ""
				if len(still) > 0 {
					extra = "\nan operation goroutine of the timed-out call was still running when the device resumed:\n" + clip(still[0], 1200)
				}
				return viol("c05/recovery:"+d.Scenario, "after the device caught up the next exchange did not return its own result\n got: %q err=%v\nwant: %q%s", lr.res, lr.err, sc.LaterWant, extra)
			}
			recovered = true
			obs["recovery_checked"]++
		}
	}
	nt := d.K > 0 && d.K < d.S
	return mon.Result{Verdict: mon.Held, NonTrivial: nt, Obs: obs, Tags: tags,
		Sample: map[string]interface{}{"scenario": d.Scenario, "setting": d.Setting, "k": d.K, "of": d.S, "error": fmt.Sprint(r.err), "elapsed_ms": el.Milliseconds(),
			"recovery_checked": recovered, "transport": devsim.Summary(s.Conn.Log())}}
}

// runLate: setting "late-reader". The first reader goroutine of the operation that arrives at the
// queue-read yield point within the last 40 ms before the deadline is parked there. The unchanged
// library's operation waits for its reader, so the harness lets it go after 250 ms and judges the
// case like any other stall. If the operation returns while its reader is still parked, the device
// catches up, one follow-up exchange drains what was left, and then the parked reader is let go at
// the moment the echo of a second follow-up sits in the queue: "a timed-out operation consumes no
// further device output once it has returned, so that ... the next exchange returns its own result".
func runLate(d Desc, sc *scen.Scenario) mon.Result {
	t00 := time.Now()
	T := tShort
	s, err := sc.New(devsim.Config{Seg: d.Seg, KeepData: true}, T)
	if err != nil {
		return mon.Result{Verdict: mon.Inconclusive, Detail: "constructor: " + err.Error()}
	}
	defer s.Conn.Abandon()
	s.G0().TimeoutOps = 10 * time.Second
	if err := sc.Pre(s); err != nil {
		return mon.Result{Verdict: mon.Inconclusive, Detail: "set-up failed on a healthy connection: " + err.Error()}
	}
	if !s.Quiesce(5 * time.Second) {
		return mon.Result{Verdict: mon.Inconclusive, Detail: "set-up: stream not drained"}
	}
	s.G0().TimeoutOps = T
	s.Conn.SetFault(devsim.FaultStall, d.Base+d.K)
	viol := func(key, f string, a ...interface{}) mon.Result {
		return mon.Result{Verdict: mon.Violated, Key: key, Detail: fmt.Sprintf("%s setting=%s stall after byte %d of %d: ", d.Scenario, d.Setting, d.K, d.S) + fmt.Sprintf(f, a...),
			Events: tail(s.Conn.Log(), 40), NonTrivial: true}
	}
	var mu sync.Mutex
	phase := 0 // 0 operation under test, 1 first follow-up, 2 second follow-up
	var t0 time.Time
	parkedA, parkedB := false, false
	relA, relB, arrivedB := make(chan struct{}), make(chan struct{}), make(chan struct{})
	var onceA, onceB sync.Once
	releaseA := func() { onceA.Do(func() { close(relA) }) }
	releaseB := func() { onceB.Do(func() { close(relB) }) }
	defer releaseA()
	defer releaseB()
	yield.Install(func(p string) {
		if p != "chan.op.read.enter" {
			return
		}
		mu.Lock()
		switch {
		case phase == 0 && !parkedA && !t0.IsZero() && time.Since(t0) >= T-40*time.Millisecond:
			parkedA = true
			mu.Unlock()
			<-relA
			return
		case phase == 2 && !parkedB:
			parkedB = true
			close(arrivedB)
			mu.Unlock()
			<-relB
			return
		}
		mu.Unlock()
	})
	defer yield.Install(nil)
	mu.Lock()
	t0 = time.Now()
	mu.Unlock()
	ch := runOp(func() (string, error) { return sc.Op(s) })
	var r opRes
	returnedWhileParked := false
	select {
	case r = <-ch:
		mu.Lock()
		returnedWhileParked = parkedA
		mu.Unlock()
	case <-time.After(T + 250*time.Millisecond):
		releaseA()
		select {
		case r = <-ch:
		case <-time.After(T + 5*time.Second):
			if mon.LoadedSince(t00) {
				return mon.Result{Verdict: mon.Inconclusive, Detail: "load: no return, machine loaded"}
			}
			return viol("c05/hang:"+d.Scenario, "operation has not returned %s after its parked reader was let go\n%s", T+5*time.Second, libStacks())
		}
	}
	el := r.at.Sub(t0)
	obs := map[string]int64{"cases": 1, "late_reader_cases": 1}
	tags := []string{"scenario=" + d.Scenario, "setting=" + d.Setting}
	if r.pan != nil {
		return viol("c05/panic-in-caller:"+d.Scenario, "operation panicked: %v", r.pan)
	}
	if r.err == nil {
		// the stall did not bite (k at the very end): nothing more to see here
		releaseA()
		if r.res != d.Want {
			return viol("c05/partial-success:"+d.Scenario, "success reported with a result that is not the complete one\n got: %q\nwant: %q", r.res, d.Want)
		}
		return mon.Result{Verdict: mon.Held, Obs: obs, Tags: tags}
	}
	if !errors.Is(r.err, util.ErrTimeoutError) {
		releaseA()
		return viol("c05/error-class:"+d.Scenario, "expected a timeout error, got %q", r.err)
	}
	if el > T+slack+250*time.Millisecond {
		releaseA()
		if mon.LoadedSince(t00) {
			return mon.Result{Verdict: mon.Inconclusive, Detail: fmt.Sprintf("load: returned after %s under load", el)}
		}
		return viol("c05/late:"+d.Setting+":"+d.Scenario, "timeout error returned after %s; configured timeout %s", el.Round(time.Millisecond), T)
	}
	if !s.AtCommandPrompt() {
		releaseA()
		return mon.Result{Verdict: mon.Held, Obs: obs, Tags: append(tags, "recovery=not-applicable(input line not clean)")}
	}
	follow := func() (opRes, bool) {
		select {
		case lr := <-runOp(func() (string, error) { return sc.Later(s) }):
			return lr, true
		case <-time.After(15 * time.Second):
			return opRes{}, false
		}
	}
	s.G0().TimeoutOps = 5 * time.Second
	if !returnedWhileParked {
		// the operation waited for its reader: the ordinary recovery clause
		obs["operation_waited_for_its_reader"]++
		s.Conn.Release()
		lr, ok := follow()
		if !ok {
			if mon.LoadedSince(t00) {
				return mon.Result{Verdict: mon.Inconclusive, Detail: "load: follow-up did not return"}
			}
			return viol("c05/recovery-hang:"+d.Scenario, "the exchange after the timed-out one has not returned after 15 s\n%s", libStacks())
		}
		if lr.pan != nil || lr.err != nil || lr.res != sc.LaterWant {
			if lr.err != nil && errors.Is(lr.err, util.ErrTimeoutError) && mon.LoadedSince(t00) {
				return mon.Result{Verdict: mon.Inconclusive, Detail: "load: follow-up timed out under load"}
			}
			return viol("c05/recovery:"+d.Scenario, "after the device caught up the next exchange did not return its own result\n got: %q err=%v pan=%v\nwant: %q", lr.res, lr.err, lr.pan, sc.LaterWant)
		}
		obs["recovery_checked"]++
		return mon.Result{Verdict: mon.Held, NonTrivial: true, Obs: obs, Tags: tags}
	}
	// the operation returned although one of its reader goroutines is still parked in front of a
	// queue read
	obs["operation_returned_before_its_reader"]++
	mu.Lock()
	phase = 1
	mu.Unlock()
	s.Conn.Release()
	lr, ok := follow()
	if !ok || lr.pan != nil || lr.err != nil || lr.res != sc.LaterWant {
		releaseA()
		if mon.LoadedSince(t00) {
			return mon.Result{Verdict: mon.Inconclusive, Detail: "load: first follow-up failed under load"}
		}
		return viol("c05/recovery:"+d.Scenario, "after the device caught up the next exchange did not return its own result\n got: %q err=%v\nwant: %q", lr.res, lr.err, sc.LaterWant)
	}
	mu.Lock()
	phase = 2
	mu.Unlock()
	ch2 := runOp(func() (string, error) { return sc.Later(s) })
	select {
	case <-arrivedB:
	case <-time.After(3 * time.Second):
		releaseA()
		releaseB()
		return mon.Result{Verdict: mon.Inconclusive, Detail: "second follow-up never reached its first queue read"}
	}
	s.Quiesce(2 * time.Second)
	time.Sleep(5 * time.Millisecond) // let the read loop queue the echo
	releaseA()
	time.Sleep(20 * time.Millisecond) // the reader of the returned operation does what it does
	releaseB()
	var lr2 opRes
	select {
	case lr2 = <-ch2:
	case <-time.After(15 * time.Second):
		if mon.LoadedSince(t00) {
			return mon.Result{Verdict: mon.Inconclusive, Detail: "load: second follow-up did not return"}
		}
		return viol("c05/recovery-hang:"+d.Scenario, "second follow-up has not returned after 15 s\n%s", libStacks())
	}
	if lr2.pan != nil || lr2.err != nil || lr2.res != sc.LaterWant {
		return viol("c05/recovery:"+d.Scenario, "the timed-out operation returned while a reader goroutine of it was still alive; that reader then consumed device output of a later exchange, which did not return its own result\n got: %q err=%v\nwant: %q",
			lr2.res, lr2.err, sc.LaterWant)
	}
	obs["recovery_checked"]++
	return mon.Result{Verdict: mon.Held, NonTrivial: true, Obs: obs, Tags: append(tags, "late-reader=returned-before-reader-but-harmless")}
}

func bucket(d time.Duration) string {
	switch {
	case d < 20*time.Millisecond:
		return "T+<20ms"
	case d < 200*time.Millisecond:
		return "T+<200ms"
	}
	return "T+<1.5s"
}

func clip(s string, n int) string {
	if len(s) > n {
		return s[:n]
	}
	return s
}

func libStacks() string {
	g := mon.LibGoroutines()
	if len(g) > 6 {
		g = g[:6]
	}
	out := ""
	for _, x := range g {
		out += clip(x, 900) + "\n\n"
	}
	return out
}

func tail(l []devsim.Event, n int) []devsim.Event {
	if len(l) > n {
		l = l[len(l)-n:]
	}
	for i := range l {
		if len(l[i].Data) > 80 {
			l[i].Data = l[i].Data[:80] + "…"
		}
	}
	return l
}

func gen(tier string, seed int64) []mon.Case {
	stats, ok := scen.DryStats()
	var cs []mon.Case
	n := 0
	add := func(d Desc) {
		cs = append(cs, mon.MkCase(fmt.Sprintf("c05/%05d-%s-%s-k%d-j%d%s", n, d.Scenario, d.Setting, d.K, d.J, map[bool]string{true: fmt.Sprintf("-rd%d", d.ReadDelayUs)}[d.ReadDelayUs > 0]), d))
		n++
	}
	segs := []devsim.Seg{{Mode: "fixed", Size: 7, Seed: seed}, {Mode: "mix", Size: 16, Seed: seed + 1, Delay: "gosched"}, {Mode: "whole", Seed: seed + 2}}
	if tier != "thorough" {
		segs = segs[:1]
	}
	for _, sc := range scen.All() {
		st, have := stats[sc.Name]
		if !ok || !have || st.Err != "" {
			e := st.Err
			if e == "" {
				e = "dry-run process crashed"
			}
			add(Desc{Scenario: sc.Name, DryErr: e})
			continue
		}
		if sc.LossOnly {
			continue
		}
		if tier != "thorough" && !sc.Quick {
			// the scenarios left to the thorough tier are still met at the edges of their exchange:
			// a device that never says anything, one that stops after its first byte, in the middle,
			// and one byte short of the end
			eseg := segs[0]
			if sc.Seg != nil {
				eseg = *sc.Seg
			}
			for _, k := range []int{0, 1, st.S / 2, st.S - 1} {
				if k >= 0 && k <= st.S {
					add(Desc{Scenario: sc.Name, K: k, Setting: "conn", Seg: eseg, Base: st.Base, S: st.S, Want: st.Want, CmdAt: st.CmdAt})
				}
			}
			continue
		}
		scSegs := segs
		if sc.Seg != nil {
			scSegs = []devsim.Seg{*sc.Seg}
		}
		for si, seg := range scSegs {
			for _, k := range sc.Ks(st.S) {
				add(Desc{Scenario: sc.Name, K: k, Setting: "conn", Seg: seg, Base: st.Base, S: st.S, Want: st.Want, CmdAt: st.CmdAt})
				if sc.UserCmd != "" && !sc.PrivErrOK {
					// per-operation timeout on a configuration send: one stall inside the privilege
					// change (connection-wide timeout: 4 s) and the stalls inside the lines themselves
					if !(k == st.CmdAt/2 || k >= st.CmdAt) {
						continue
					}
				}
				if sc.PerOp && (tier == "thorough" || k%2 == 0 || k == st.CmdAt/2) {
					add(Desc{Scenario: sc.Name, K: k, Setting: "perop", Seg: seg, Base: st.Base, S: st.S, Want: st.Want, CmdAt: st.CmdAt})
				}
			}
			if si == 0 && yield.Available {
				// a caller (or reader) goroutine held at a yield point past the deadline
				pts := []string{"chan.op.read.enter", "chan.op.read.after-errs-poll", "chan.read.after-transport-read"}
				if sc.Driver == "netconf" && !sc.IsOpen {
					pts = append(pts, "nc.rpc.before-wait", "nc.read.after-channel-read")
				}
				ks := []int{0, st.S / 2, st.S - 1}
				if tier != "thorough" {
					ks = []int{st.S / 2}
				}
				for _, pt := range pts {
					for _, k := range ks {
						for rep := 0; rep < 3; rep++ {
							add(Desc{Scenario: sc.Name, K: k, Setting: "conn+yield", YieldPoint: pt, Seg: devsim.Seg{Mode: seg.Mode, Size: seg.Size, Seed: seg.Seed + int64(rep)},
								Base: st.Base, S: st.S, Want: st.Want, CmdAt: st.CmdAt})
						}
					}
				}
			}
			if si == 0 && yield.Available && sc.Pre != nil && sc.Driver != "netconf" && sc.Later != nil && sc.KStep <= 1 &&
				(sc.Name == "g.sendcommand" || sc.Name == "g.getprompt" || sc.Name == "g.interactive" || (tier == "thorough" && (sc.Name == "g.sendcommands" || sc.Name == "n.sendcommand-at-default"))) {
				// the operation's reader is parked (yield point) just before the deadline: does the
				// operation return without it, and does that reader later take bytes of another exchange?
				ks := []int{st.S / 2, st.S - 1}
				if tier == "thorough" {
					ks = append(ks, st.S/3, st.S*2/3, st.S-3)
				}
				for _, k := range ks {
					for rep := 0; rep < 2; rep++ {
						add(Desc{Scenario: sc.Name, K: k, Setting: "late-reader", Seg: devsim.Seg{Mode: seg.Mode, Size: seg.Size, Seed: seg.Seed + int64(rep)},
							Base: st.Base, S: st.S, Want: st.Want, CmdAt: st.CmdAt})
					}
				}
			}
			if si == 0 && sc.Pre != nil && sc.SingleDeadline && sc.KStep <= 1 && st.S >= 30 && (tier == "thorough" || sc.Quick) {
				// slow-then-silent device: the deadline must run from the start of the operation, not
				// restart with every step of a multi-step exchange
				pairs := [][2]int{{st.S * 3 / 10, st.S * 8 / 10}, {st.S / 2, st.S * 9 / 10}}
				if tier == "thorough" {
					pairs = append(pairs, [2]int{st.S * 2 / 10, st.S * 6 / 10}, [2]int{st.S * 4 / 10, st.S * 7 / 10}, [2]int{st.S * 6 / 10, st.S - 2})
				}
				for _, pr := range pairs {
					add(Desc{Scenario: sc.Name, K: pr[0], K2: pr[1], Setting: "paced", Seg: seg, Base: st.Base, S: st.S, Want: st.Want, CmdAt: st.CmdAt})
				}
			}
			if si == 0 && sc.KStep <= 1 && st.S >= 4 && (tier == "thorough" || sc.Quick) {
				ks := []int{st.S / 2}
				if st.CmdAt > 2 {
					ks = append(ks, st.CmdAt/2)
				}
				if tier == "thorough" {
					ks = append(ks, st.S/4, st.S*3/4)
				}
				for i, k := range ks {
					add(Desc{Scenario: sc.Name, K: k, Setting: "conn-long", Seg: seg, Base: st.Base, S: st.S, Want: st.Want, CmdAt: st.CmdAt})
					if i == 0 && sc.Driver != "netconf" && sc.Pre != nil {
						// (not for Open scenarios: a failed Open closes the channel, and how long THAT may
						// take at a given read delay is C07's matter - see DESIGN.md, observations)
						// the same with a read delay of 4 ms: pauses that grow with the read delay must
						// still end at the deadline
						add(Desc{Scenario: sc.Name, K: k, Setting: "conn-long", ReadDelayUs: 4000, Seg: seg, Base: st.Base, S: st.S, Want: st.Want, CmdAt: st.CmdAt})
					}
				}
			}
			if si == 0 && sc.IsOpen && sc.Driver == "generic" {
				// in-channel login with a peer that stops draining what we type: the login must still
				// end in a timeout error (only explored for the login, whose deadline is a timer of its own)
				for j := 1; j <= st.Writes; j++ {
					add(Desc{Scenario: sc.Name, K: st.S, J: j, Setting: "writeblock", Seg: seg, Base: st.Base, S: st.S, Want: st.Want, CmdAt: st.CmdAt})
				}
			}
			if sc.PerOp && si == 0 {
				// precedence by outcome: a handful of stall points per scenario
				ks := []int{0, st.S / 3, st.S / 2, st.S - 1}
				if tier != "thorough" {
					ks = []int{st.S / 2}
				}
				for _, k := range ks {
					if sc.UserCmd != "" && !sc.PrivErrOK && k < st.CmdAt {
						// the privilege change in front of the configuration lines is an operation of its
						// own, governed by the connection-wide timeout: the override is judged from the
						// first byte of the user's own lines on
						k = st.CmdAt + k%7
					}
					add(Desc{Scenario: sc.Name, K: k, Setting: "perop-long", Seg: seg, Base: st.Base, S: st.S, Want: st.Want, CmdAt: st.CmdAt})
					if sc.Name != "g.callbacks" {
						add(Desc{Scenario: sc.Name, K: k, Setting: "zero", Seg: seg, Base: st.Base, S: st.S, Want: st.Want, CmdAt: st.CmdAt})
					}
				}
			}
		}
	}
	return cs
}

func init() {
	mon.Register(&mon.Property{
		ID:    "C05",
		Level: "fault_enumeration",
		Rule: "For every listed operation scenario the full exchange stream S is measured by a fault-free dry run; then for EVERY k in [0,|S|] a fresh session's device " +
			"goes silent after byte k under the connection-wide timeout (and the per-operation override where the operation accepts one); precedence is decided by outcome " +
			"(per-op longer than connection-wide with a device that resumes; zero = maximum); a slow-then-silent device (pause 3 s at k, silent after k2, timeout 4 s) checks that the " +
			"deadline runs from the start of the operation; a goroutine held at a yield point past the deadline checks the expiry race; a reader parked just before the deadline and let go when a LATER exchange's echo is queued checks that a returned operation consumes nothing more. Recovery is judged when the device sits at a clean command prompt (CLI) or for NETCONF. " +
			"Non-trivial = 0<k<|S|. Distinct = (scenario, setting, k, segmentation).",
		Assumptions: []string{
			"the stall is modelled at the transport boundary: devsim.Conn delivers exactly k bytes of the exchange and then blocks reads; the device itself has produced its whole reaction",
			"timeouts are real time (the library has no clock injection): upper bound = configured timeout + 1.5 s, judged only while the load canary is healthy, retried twice, else inconclusive",
			"recovery clause only when the device model reports an empty input line at a command prompt at the moment the call returned; the follow-up command carries a byte that occurs nowhere else",
			"the stall is released only after no operation goroutine of the case is observed running (goroutine profile; one case per worker process at a time)",
		},
		// not flagged exhaustive: every k is enumerated for the short exchanges, but the two ~150 kB NETCONF replies are sampled
		Exhaustive:      func(tier string) bool { return false },
		Gen:             gen,
		Run:             run,
		Workers:         func(string) int { return 16 },
		Parallel:        func(string) int { return 1 },
		CaseTimeout:     120 * time.Second,
		HangIsViolation: true,
	})
}
