//go:build verif

// Package yield installs a function at the library's named yield points (build tag verif).
package yield

import "github.com/scrapli/scrapligo/util"

// Install sets the process-wide hook called at every util.VerifYield point.
func Install(f func(point string)) { util.SetVerifHook(f) }

// Available reports whether the hooks are compiled in.
const Available = true
