//go:build !verif

// Package yield installs a function at the library's named yield points (build tag verif).
package yield

// Install is a no-op without the verif build tag.
func Install(func(point string)) {}

// Available reports whether the hooks are compiled in.
const Available = false
