// Package c10 holds the runtime monitor for property C10 (see DESIGN.md §3 C10).
package c10
