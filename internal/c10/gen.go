package c10

import (
	"fmt"
	"math/rand"
	"regexp"
	"strings"
	"sync"
	"time"

	"github.com/scrapli/scrapligo/channel"
	"github.com/scrapli/scrapligo/driver/generic"
	"github.com/scrapli/scrapligo/driver/netconf"
	"github.com/scrapli/scrapligo/driver/network"
	"github.com/scrapli/scrapligo/driver/options"
	"github.com/scrapli/scrapligo/transport"
	"github.com/scrapli/scrapligo/util"

	"verif/internal/devsim"
	"verif/internal/ncsim"
)

// Dialogue is a complete case descriptor.
type Dialogue struct {
	Auth       string `json:"auth"`   // telnet | ssh
	Driver     string `json:"driver"` // generic | network | netconf
	Host       string `json:"host"`
	User       string `json:"user"`
	Password   string `json:"password"`
	Passphrase string `json:"passphrase,omitempty"`
	// KeyPath: the session is configured with a private key (ssh type). User, Password and Passphrase
	// may each be empty: the credential is not configured (a client asked for it can only send an
	// empty line).
	KeyPath    string         `json:"key_path,omitempty"`
	Steps      []Step         `json:"steps"`
	NL         string         `json:"nl"`
	EchoUser   bool           `json:"echo_user,omitempty"`
	Prompt     string         `json:"prompt,omitempty"`
	Cmd        string         `json:"cmd,omitempty"`
	Out        []devsim.Token `json:"out,omitempty"`
	Exact      bool           `json:"exact,omitempty"`
	FirstOp    string         `json:"first_op,omitempty"` // getprompt | sendcommand | readall
	Caps       []string       `json:"caps,omitempty"`
	SessionID  string         `json:"session_id,omitempty"`
	ReadSize   int            `json:"read_size"`
	PSD        int            `json:"psd"`
	ReturnChar string         `json:"return_char"`
	ReadDelay  int            `json:"read_delay_us"`
	Seg        devsim.Seg     `json:"seg"`
	StallAt    int            `json:"stall_at"` // -1: no stall; else the transport delivers exactly this many bytes
	TimeoutMS  int            `json:"timeout_ms"`
	// Custom patterns (regexp source; "" = the library default): the session is configured with
	// WithUsernamePattern / WithPasswordPattern / WithPassphrasePattern / WithPromptPattern and the
	// device spells the corresponding prompts so that only the custom pattern accepts them.
	UserPat   string `json:"user_pattern,omitempty"`
	PassPat   string `json:"password_pattern,omitempty"`
	PhrasePat string `json:"passphrase_pattern,omitempty"`
	PromptPat string `json:"prompt_pattern,omitempty"`
	// Then: a second dialogue opened (on a fresh driver object) in the same process right after this
	// one; both are judged.
	Then *Dialogue `json:"then,omitempty"`
	// Lo: the case is a login through the real telnet transport over loopback TCP (all other fields
	// unused).
	Lo *LoDesc `json:"telnet_loopback,omitempty"`
	// LogLevel: the session gets a real logger (a logging.Instance of this level with a logger
	// function); "" = none.
	LogLevel string `json:"log_level,omitempty"`
	// Interleave (with Then): Then is opened and used after this dialogue's Open and BEFORE its first
	// operation.
	Interleave bool `json:"interleave,omitempty"`
	// CloseErr: the transport's Close does close it but returns an error.
	CloseErr bool `json:"close_err,omitempty"`
	// Loss: the connection is lost during the login exchange: "eof" | "err" | "err-timedout" (reads
	// deliver exactly LossAt bytes, then fail) | "write" (the LossAt-th write, 1-based, and later fail).
	Loss   string `json:"loss,omitempty"`
	LossAt int    `json:"loss_at,omitempty"`
	// derived from the fields above (Analyse recomputes them; stored for the reader of a replay file)
	Expect     string `json:"expect"`
	NeedOffset int    `json:"need_offset"`
}

// Session bundles whichever driver a dialogue uses.
type Session struct {
	GD *generic.Driver
	ND *network.Driver
	NC *netconf.Driver
}

// Channel returns the session's channel.
func (s *Session) Channel() *channel.Channel {
	if s.NC != nil {
		return s.NC.Channel
	}
	return s.GD.Channel
}

// Open opens the session's driver.
func (s *Session) Open() error {
	switch {
	case s.NC != nil:
		return s.NC.Open()
	case s.ND != nil:
		return s.ND.Open()
	}
	return s.GD.Open()
}

// Close closes the driver, bounded, swallowing panics (Close is not what C10 judges).
func (s *Session) Close() {
	done := make(chan struct{})
	go func() {
		defer func() { recover(); close(done) }()
		switch {
		case s.NC != nil:
			s.NC.Close()
		case s.ND != nil:
			s.ND.Close()
		default:
			s.GD.Close()
		}
	}()
	select {
	case <-done:
	case <-time.After(5 * time.Second):
	}
}

const defaultPromptPattern = `(?im)^[a-z\d.\-@()/:]{1,48}[#>$]\s*$`

// NewSession constructs the driver of a dialogue over the given transport.
func NewSession(d *Dialogue, tr transport.Implementation, extra []util.Option) (*Session, error) {
	opts := []util.Option{
		options.WithCustomTransport(tr),
		options.WithAuthUsername(d.User),
		options.WithAuthPassword(d.Password),
		options.WithTransportReadSize(d.ReadSize),
		options.WithPromptSearchDepth(d.PSD),
		options.WithReturnChar(d.ReturnChar),
		options.WithReadDelay(time.Duration(d.ReadDelay) * time.Microsecond),
		options.WithTimeoutOps(time.Duration(d.TimeoutMS) * time.Millisecond),
	}
	if d.UserPat != "" {
		opts = append(opts, options.WithUsernamePattern(regexp.MustCompile(d.UserPat)))
	}
	if d.PassPat != "" {
		opts = append(opts, options.WithPasswordPattern(regexp.MustCompile(d.PassPat)))
	}
	if d.PhrasePat != "" {
		opts = append(opts, options.WithPassphrasePattern(regexp.MustCompile(d.PhrasePat)))
	}
	promptPat := defaultPromptPattern
	if d.PromptPat != "" {
		promptPat = d.PromptPat
		opts = append(opts, options.WithPromptPattern(regexp.MustCompile(d.PromptPat)))
	}
	opts = append(opts, extra...)
	s := &Session{}
	var err error
	switch d.Driver {
	case "netconf":
		s.NC, err = netconf.NewDriver(d.Host, opts...)
	case "network":
		opts = append(opts,
			options.WithPrivilegeLevels(map[string]*network.PrivilegeLevel{
				"exec": {Name: "exec", Pattern: promptPat},
			}),
			options.WithDefaultDesiredPriv("exec"))
		s.ND, err = network.NewDriver(d.Host, opts...)
		if err == nil {
			s.GD = s.ND.Driver
		}
	default:
		s.GD, err = generic.NewDriver(d.Host, opts...)
	}
	if err != nil {
		return nil, err
	}
	return s, nil
}

var (
	patMu    sync.Mutex
	patCache = map[string]*Patterns{}
)

// sessionPatterns returns the patterns a session of this type really uses (taken from a driver
// constructed exactly as the runner constructs it, custom patterns included).
func sessionPatterns(of *Dialogue) *Patterns {
	patMu.Lock()
	defer patMu.Unlock()
	k := strings.Join([]string{of.Auth, of.Driver, of.UserPat, of.PassPat, of.PhrasePat, of.PromptPat}, "\x00")
	if p, ok := patCache[k]; ok {
		return p
	}
	d := &Dialogue{Auth: of.Auth, Driver: of.Driver, Host: "h", User: "u", Password: "p", ReadSize: 8192, PSD: 1000, ReturnChar: "\n", ReadDelay: 250, TimeoutMS: 1000,
		UserPat: of.UserPat, PassPat: of.PassPat, PhrasePat: of.PhrasePat, PromptPat: of.PromptPat}
	conn := devsim.NewConn(nil, devsim.Config{AuthType: of.Auth})
	s, err := NewSession(d, &devsim.AuthConn{Conn: conn}, nil)
	if err != nil {
		panic("c10: cannot construct a driver: " + err.Error())
	}
	ch := s.Channel()
	p := &Patterns{Auth: of.Auth, Prompt: ch.PromptPattern, User: ch.UsernamePattern, Password: ch.PasswordPattern, Passphrase: ch.PassphrasePattern,
		Spec: map[string]*regexp.Regexp{}}
	if of.UserPat != "" {
		p.Spec[KUser] = ch.UsernamePattern
	}
	if of.PassPat != "" {
		p.Spec[KPassword] = ch.PasswordPattern
	}
	if of.PhrasePat != "" {
		p.Spec[KPassphrase] = ch.PassphrasePattern
	}
	patCache[k] = p
	return p
}

var (
	specMu    sync.Mutex
	specCache = map[string]*regexp.Regexp{}
)

// spec is the pattern the dialogue's prompts of this kind are spelled for.
func (d *Dialogue) spec(kind string) *regexp.Regexp {
	src := ""
	switch kind {
	case KUser:
		src = d.UserPat
	case KPassword:
		src = d.PassPat
	case KPassphrase:
		src = d.PhrasePat
	}
	if src == "" {
		return specFor(kind)
	}
	specMu.Lock()
	defer specMu.Unlock()
	if r, ok := specCache[src]; ok {
		return r
	}
	r := regexp.MustCompile(src)
	specCache[src] = r
	return r
}

// credConfigs lists the credential configurations of an auth type. The first is the full one.
func credConfigs(auth string) []string {
	if auth == "telnet" {
		return []string{"user+password", "password-only", "nothing"}
	}
	return []string{"password+passphrase", "password-only", "key+password", "key+passphrase", "key-only", "nothing"}
}

// applyCredConfig blanks the credentials a configuration does not have (the dialogue comes with all
// of them set) and sets the key path.
func applyCredConfig(d *Dialogue, cfg string) {
	switch cfg {
	case "password-only":
		d.Passphrase = ""
		if d.Auth == "telnet" {
			d.User = ""
		}
	case "key+password":
		d.KeyPath, d.Passphrase = "/home/c10/.ssh/id_ed25519", ""
	case "key+passphrase":
		d.KeyPath, d.Password = "/home/c10/.ssh/id_ed25519", ""
	case "key-only":
		d.KeyPath, d.Password, d.Passphrase = "/home/c10/.ssh/id_ed25519", "", ""
	case "nothing":
		d.User, d.Password, d.Passphrase = "", "", ""
	}
}

// CredConfig names the credential configuration of a dialogue.
func (d *Dialogue) CredConfig() string {
	var parts []string
	if d.User != "" && d.Auth == "telnet" {
		parts = append(parts, "user")
	}
	if d.KeyPath != "" {
		parts = append(parts, "key")
	}
	if d.Password != "" {
		parts = append(parts, "password")
	}
	if d.Passphrase != "" {
		parts = append(parts, "passphrase")
	}
	if len(parts) == 0 {
		return "nothing"
	}
	return strings.Join(parts, "+")
}

// SSHArgs are the ssh arguments the transport model reports for this dialogue.
func (d *Dialogue) SSHArgs() *transport.SSHArgs {
	return &transport.SSHArgs{PrivateKeyPath: d.KeyPath, PrivateKeyPassPhrase: d.Passphrase}
}

// credentialWords: a line that contains a credential word and ends in a colon without being a
// prompt (the default patterns want the colon right after the word).
var credentialWordLines = []string{
	"Password policy: minimum 12 characters, questions to the noc, contact:",
	"Your password expires in 3 days; renew it at:",
	"passwords are rotated every 90 days by:",
	"username and password reminders go to:",
	"Lost your Password? Ask the operator on duty:",
	"login banner maintained by:",
	"username policy - see:",
	"passphrase for the backup key is kept by:",
}

// HasCredentialWordLines reports whether a banner of the dialogue has such a line.
func HasCredentialWordLines(d *Dialogue) bool {
	for _, s := range d.Steps {
		for _, l := range s.Lines {
			for _, c := range credentialWordLines {
				if strings.EqualFold(l.S, c) {
					return true
				}
			}
		}
	}
	return false
}

// HasCustomPatterns reports whether the session is configured with a custom credential pattern.
func (d *Dialogue) HasCustomPatterns() bool {
	return d.UserPat != "" || d.PassPat != "" || d.PhrasePat != ""
}

// Custom credential patterns and spellings that only they accept.
const (
	customUserPat   = `(?im)^(?:user id|benutzer|account name):\s?$`
	customPassPat   = `(?im)^(?:kennwort|pin|passcode):\s?$`
	customPhrasePat = `(?i)unlock private key`
)

// ---------------------------------------------------------------------------------------------
// generator

var hosts = []string{"r1", "core-sw01", "edge.lab", "pe1", "a", "lab-7.example.net"}

var words = []string{"the", "system", "is", "for", "authorized", "use", "only", "interface", "uptime", "days", "load", "average",
	"welcome", "to", "maintenance", "window", "tonight", "contact", "noc", "at", "ext", "4711", "version", "15.2", "build", "copyright",
	"all", "rights", "reserved", "unit", "serial", "temperature", "ok", "fan", "warning", "last", "change", "by", "admin", "config", "saved"}

const punct = ".,:;-_/()[]'*=+#>$@ "

var escFamily = []string{"\x1b[0m", "\x1b[1m", "\x1b[1;31m", "\x1b[K", "\x1b[2J", "\x1b[H", "\x1b[?25h"}

const secretAlpha = "abcdefghijklmnopqrstuvwxyzABCDEFGHIJKLMNOPQRSTUVWXYZ0123456789@#$%^&*-_=+.,:;/?"

func randStr(r *rand.Rand, alpha string, n int) string {
	b := make([]byte, n)
	for i := range b {
		b[i] = alpha[r.Intn(len(alpha))]
	}
	return string(b)
}

func mangleCase(r *rand.Rand, s string) string {
	switch r.Intn(6) {
	case 0:
		return strings.ToUpper(s)
	case 1:
		return strings.ToLower(s)
	case 2:
		b := []byte(s)
		for i := range b {
			if r.Intn(2) == 0 {
				b[i] = strings.ToUpper(string(b[i]))[0]
			} else {
				b[i] = strings.ToLower(string(b[i]))[0]
			}
		}
		return string(b)
	}
	return s
}

func randWordsLine(r *rand.Rand) string {
	n := r.Intn(9)
	var b strings.Builder
	for i := 0; i < n; i++ {
		if i > 0 {
			b.WriteByte(' ')
		}
		b.WriteString(words[r.Intn(len(words))])
		if r.Intn(5) == 0 {
			b.WriteByte(punct[r.Intn(len(punct))])
		}
	}
	s := b.String()
	if r.Intn(6) == 0 {
		s += strings.Repeat(" ", 1+r.Intn(3))
	}
	if r.Intn(10) == 0 {
		s = "  " + s
	}
	if r.Intn(14) == 0 {
		s += " é→ü"
	}
	if len(s) > 110 {
		s = s[:110]
	}
	return s
}

// family: "pre" | "rej" | "motd" | "trail"
func candidateLine(r *rand.Rand, fam string, d *Dialogue) string {
	h := d.Host
	tricky := []string{
		"Password: ********", "Your password: expires in 3 days", "last login: never", "console login: disabled on this line",
		h + "#show clock", h + "> is the user prompt", "username: field is case sensitive", "Username: and password: are required",
		"enter passphrase for key is not supported here", "Permission denied (try again)", "Connection timed out earlier today",
		"Last login: Fri Oct  2 10:11:12 2026 from 10.0.0.5", "-->", "status:", "motd$", "login:", "old password: new password: confirm",
		"Please enter your username:", "Enter passphrase for key '/dev/null':", "no matching entries in the access list", "host key verification failed (cached)", d.User + "@" + h + "'s password: was changed",
	}
	if r.Intn(4) == 0 {
		return tricky[r.Intn(len(tricky))]
	}
	if r.Intn(8) == 0 {
		return mangleCase(r, credentialWordLines[r.Intn(len(credentialWordLines))])
	}
	var fixed []string
	switch fam {
	case "pre":
		if d.Auth == "telnet" {
			fixed = []string{"Trying 10.1.2.3...", "Connected to " + h + ".", "Escape character is '^]'.", "", "User Access Verification",
				"*** authorized users only ***", "", h + " console"}
		} else {
			fixed = []string{"Warning: Permanently added '" + h + "' (ED25519) to the list of known hosts.", "",
				"** WARNING: connection is not using a post-quantum key exchange algorithm.", "Authenticated with partial success.",
				"*** authorized users only ***", "debug1: Next authentication method: password"}
		}
	case "rej":
		if d.Auth == "telnet" {
			fixed = []string{"% Login invalid", "Login incorrect", "% Authentication failed", "% Bad passwords", "Access denied", ""}
		} else {
			fixed = []string{"Sorry, try again.", "Access denied", "", "Received disconnect notice later"}
		}
	case "motd":
		fixed = []string{"Last login: Fri Oct  2 10:11:12 2026 from 10.0.0.5", "Welcome to " + h, "Type help or '?' for a list of available commands.",
			"", "uptime 12 days, load: 0.10 0.08 0.01", "*** maintenance window tonight 22:00 ***", "", "You have new mail."}
	default:
		fixed = []string{"please wait", "loading configuration", "% system is busy", ""}
	}
	if r.Intn(2) == 0 {
		return fixed[r.Intn(len(fixed))]
	}
	return randWordsLine(r)
}

// genLines draws n banner lines, enforcing the generator precondition by brute force with the
// session's patterns: a line that is accepted by a pattern as a whole is resampled; a line with a
// hazardous cut position is either resampled or marked "deliver uncut".
func genLines(r *rand.Rand, p *Patterns, fam string, d *Dialogue, n int, st *GenStats) []Line {
	var out []Line
	for i := 0; i < n; i++ {
		for try := 0; try < 60; try++ {
			s := candidateLine(r, fam, d)
			if strings.ContainsAny(s, "!\x1b\r\n") {
				continue
			}
			full, prefix := p.lineHazard(s)
			if full {
				st.RejectedFull++
				continue
			}
			l := Line{S: s}
			if prefix {
				if r.Intn(5) < 2 {
					st.RejectedPrefix++
					continue
				}
				l.Prot = true
				st.Protected++
			}
			if r.Intn(12) == 0 {
				l.Esc = escFamily[r.Intn(len(escFamily))]
			}
			out = append(out, l)
			break
		}
	}
	return out
}

// promptFamily lists the base spellings of a credential prompt.
func promptFamily(kind string, d *Dialogue) []string {
	var base []string
	switch kind {
	case KUser:
		// the default pattern accepts "username:" anywhere in a line with anything after it, or a line
		// ending in "login:" plus at most one white-space character
		base = []string{"Username:", "username:", "login:", "Login:", d.Host + " login:", "Enter username:", "Router Login:", "Username:",
			"Username: Kerberos: No default realm defined for Kerberos", "Username:  ", "Username: \t", "Enter Username: (case sensitive)",
			"console username:>", "*** " + d.Host + " username: ***"}
	case KPassword:
		base = []string{"Password:", "password:", "Password:", d.User + "@" + d.Host + "'s password:", "(" + d.User + "@" + d.Host + ") Password:",
			"Enter password:", d.User + "@10.0.0.1's Password:", "Login password:", "(current) UNIX password:", "[sudo] x@y - password:"}
	case KPassphrase:
		base = []string{"Enter passphrase for key '/home/" + d.User + "/.ssh/id_rsa':", "Enter passphrase for key '/tmp/k':",
			"Enter passphrase for key 'id_ed25519':", "Enter passphrase for key '/etc/keys/" + d.Host + ".pem':",
			"ssh: Enter passphrase for key '/k' (will not echo):", "Please enter passphrase for key id_rsa now >", "enter passphrase for key"}
	}
	return base
}

func genPromptText(r *rand.Rand, kind string, d *Dialogue) string {
	base := promptFamily(kind, d)
	switch {
	case kind == KUser && d.UserPat != "":
		base = []string{"User ID:", "Benutzer:", "Account name:"}
	case kind == KPassword && d.PassPat != "":
		base = []string{"Kennwort:", "PIN:", "Passcode:"}
	case kind == KPassphrase && d.PhrasePat != "":
		base = []string{"Unlock private key '/home/" + d.User + "/.ssh/id_rsa':", "Unlock private key 'id_ed25519':"}
	}
	s := mangleCase(r, base[r.Intn(len(base))])
	switch r.Intn(10) {
	case 0, 1, 2, 3, 4, 5:
		s += " "
	case 6:
		s += "\t" // the patterns allow one white-space character of any kind
	}
	return s
}

// sshErrFamily lists ssh client failure lines, one or more per recognised phrase.
func sshErrFamily(d *Dialogue) []string {
	h := d.Host
	return []string{
		"ssh: connect to host " + h + " port 22: Connection timed out",
		"ssh: connect to host " + h + " port 22: Operation timed out",
		"ssh: connect to host " + h + " port 22: No route to host",
		"Host key verification failed.",
		"Unable to negotiate with 10.0.0.1 port 22: no matching key exchange method found. Their offer: diffie-hellman-group1-sha1",
		"Unable to negotiate with 10.0.0.1 port 22: no matching host key type found. Their offer: ssh-rsa,ssh-dss",
		"Unable to negotiate with 10.0.0.1 port 22: no matching cipher found. Their offer: aes128-cbc,3des-cbc",
		"/home/" + d.User + "/.ssh/config: line 3: Bad configuration option: foobar",
		"WARNING: UNPROTECTED PRIVATE KEY FILE",
		"ssh: Could not resolve hostname " + h + ": Name or service not known",
		d.User + "@" + h + ": Permission denied (publickey,password).",
		"Permission denied, please try again.",
	}
}

func genSSHErr(r *rand.Rand, d *Dialogue, afterPassword bool) string {
	fam := sshErrFamily(d)
	if afterPassword && r.Intn(2) == 0 {
		return "Permission denied, please try again."
	}
	return mangleCase(r, fam[r.Intn(len(fam))])
}

// GenStats counts what the generator's precondition checks did.
type GenStats struct {
	RejectedFull, RejectedPrefix, Protected, RejectedPrompt int
}

// kinds: sequence of step kinds, "rej" = optional rejection message
func genShape(r *rand.Rand, auth string) []string {
	var k []string
	rep := func(n int, ks ...string) {
		for i := 0; i < n; i++ {
			k = append(k, ks...)
		}
	}
	fails := func() int { return []int{0, 0, 0, 1, 1, 2, 3}[r.Intn(7)] }
	if auth == "telnet" {
		switch r.Intn(6) {
		case 0, 1:
			rep(fails(), KUser, KPassword, "rej")
			rep(1, KUser, KPassword)
		case 2:
			rep(fails(), KPassword, "rej")
			rep(1, KPassword)
		case 3:
			rep(fails(), KUser, "rej")
			rep(1, KUser)
			rep(1+r.Intn(3), KPassword)
		case 4:
			n := r.Intn(8)
			for i := 0; i < n; i++ {
				k = append(k, []string{KUser, KPassword}[r.Intn(2)])
				if r.Intn(2) == 0 {
					k = append(k, "rej")
				}
			}
		}
		return k
	}
	switch r.Intn(6) {
	case 0, 1:
		rep(fails(), KPassword, "rej")
		rep(1, KPassword)
	case 2:
		rep(fails(), KPassphrase, "rej")
		rep(1, KPassphrase)
		rep(r.Intn(3), KPassword)
	case 3:
		n := r.Intn(8)
		for i := 0; i < n; i++ {
			k = append(k, []string{KPassword, KPassphrase}[r.Intn(2)])
			if r.Intn(2) == 0 {
				k = append(k, "rej")
			}
		}
	case 4:
		k = append(k, KSSHErr)
		return k
	}
	if r.Intn(4) == 0 {
		// a failure line somewhere in the dialogue
		pos := r.Intn(len(k) + 1)
		k = append(k[:pos], append([]string{KSSHErr}, k[pos:]...)...)
	}
	return k
}

// GenOpts steers GenDialogue.
type GenOpts struct {
	NoStall bool
	// Auth, Driver, PromptPat, if set, are forced. Custom: 0 = custom credential patterns in one
	// dialogue of ten, 1 = never, 2 = always.
	Auth, Driver, PromptPat string
	Custom                  int
}

// GenDialogue draws one dialogue.
func GenDialogue(r *rand.Rand, o GenOpts) (Dialogue, GenStats) {
	var st GenStats
	d := Dialogue{StallAt: -1}
	d.Auth = []string{"telnet", "ssh"}[r.Intn(2)]
	if d.Auth == "telnet" {
		d.Driver = []string{"generic", "generic", "generic", "network", "network"}[r.Intn(5)]
	} else {
		d.Driver = []string{"generic", "generic", "network", "netconf", "netconf"}[r.Intn(5)]
	}
	if o.Auth != "" {
		d.Auth = o.Auth
	}
	if o.Driver != "" {
		d.Driver = o.Driver
	}
	if d.Driver != "netconf" {
		d.PromptPat = o.PromptPat
	}
	if o.Custom == 2 || o.Custom == 0 && r.Intn(10) == 0 {
		// at least one credential kind gets a custom pattern
		for d.UserPat == "" && d.PassPat == "" && d.PhrasePat == "" {
			if d.Auth == "telnet" && r.Intn(2) == 0 {
				d.UserPat = customUserPat
			}
			if r.Intn(2) == 0 {
				d.PassPat = customPassPat
			}
			if d.Auth == "ssh" && r.Intn(2) == 0 {
				d.PhrasePat = customPhrasePat
			}
		}
	}
	p := sessionPatterns(&d)
	d.Host = hosts[r.Intn(len(hosts))]
	d.User = []string{"admin", "netops", "svc-backup", "r.user", "u1", "operator"}[r.Intn(6)]
	d.Password = "pw" + randStr(r, secretAlpha, 4+r.Intn(10))
	if d.Auth == "ssh" {
		d.Passphrase = "ph" + randStr(r, secretAlpha, 4+r.Intn(10))
	}
	applyCredConfig(&d, credConfigs(d.Auth)[[]int{0, 0, 0, 0, 0, 0, 0, 1, 2, 3, 4, 5}[r.Intn(12)]%len(credConfigs(d.Auth))])
	d.NL = []string{"\r\n", "\r\n", "\n"}[r.Intn(3)]
	d.EchoUser = d.Auth == "telnet" && r.Intn(10) < 7

	kinds := genShape(r, d.Auth)
	if r.Intn(5) < 3 {
		d.Steps = append(d.Steps, Step{Kind: KBanner, Lines: genLines(r, p, "pre", &d, 1+r.Intn(5), &st)})
	}
	for i, k := range kinds {
		switch k {
		case "rej":
			if r.Intn(10) < 7 {
				d.Steps = append(d.Steps, Step{Kind: KBanner, Lines: genLines(r, p, "rej", &d, 1+r.Intn(2), &st)})
			}
		case KSSHErr:
			var txt string
			for try := 0; try < 60; try++ {
				txt = genSSHErr(r, &d, i > 0 && kinds[i-1] == KPassword)
				at := sshFailureAt(txt)
				ok := at > 0
				for n := 1; ok && n < at; n++ {
					if len(p.matches(txt[:n])) > 0 {
						ok = false
					}
				}
				if ok {
					break
				}
				st.RejectedPrompt++
			}
			d.Steps = append(d.Steps, Step{Kind: KSSHErr, Text: txt})
		default:
			var txt string
			for try := 0; try < 60; try++ {
				txt = genPromptText(r, k, &d)
				echo := ""
				if k == KUser && d.EchoUser {
					echo = d.User
				}
				if p.promptTextOK(k, txt) && p.tailOK(k, txt, echo) {
					break
				}
				st.RejectedPrompt++
			}
			d.Steps = append(d.Steps, Step{Kind: k, Text: txt})
		}
	}
	// the end of the dialogue
	if r.Intn(20) < 15 {
		if r.Intn(5) < 3 && d.Driver != "netconf" || r.Intn(5) == 0 {
			d.Steps = append(d.Steps, Step{Kind: KBanner, Lines: genLines(r, p, "motd", &d, 1+r.Intn(5), &st)})
		}
		if d.Driver == "netconf" {
			d.Steps = append(d.Steps, Step{Kind: KHello})
		} else {
			d.Steps = append(d.Steps, Step{Kind: KShell})
		}
	} else {
		if r.Intn(2) == 0 {
			d.Steps = append(d.Steps, Step{Kind: KBanner, Lines: genLines(r, p, "trail", &d, 1+r.Intn(3), &st)})
		}
		d.Steps = append(d.Steps, Step{Kind: KSilence})
	}
	// what the device is after login
	if d.Driver == "netconf" {
		d.Caps = []string{ncsim.Cap10}
		if r.Intn(2) == 0 {
			d.Caps = append(d.Caps, ncsim.Cap11)
		}
		if r.Intn(2) == 0 {
			d.Caps = append(d.Caps, "urn:ietf:params:netconf:capability:candidate:1.0")
		}
		d.SessionID = fmt.Sprint(1 + r.Intn(65000))
	} else {
		for try := 0; ; try++ {
			d.Prompt = d.Host + string("#>$"[r.Intn(3)])
			if r.Intn(4) == 0 {
				d.Prompt = d.User + "@" + d.Host + ":/x" + string("#$"[r.Intn(2)])
			}
			if r.Intn(2) == 0 {
				d.Prompt += " "
			}
			if p.promptTextOK(KShell, d.Prompt) || try > 60 {
				break
			}
			st.RejectedPrompt++
		}
		d.Cmd = "show " + randStr(r, "abcdefghijklmnopqrstuvwxyz0123456789 -", 1+r.Intn(20)) + "!"
		d.Cmd = strings.Join(strings.Fields(d.Cmd), " ")
		for _, l := range genLines(r, p, "trail", &d, r.Intn(6), &st) {
			if l.Prot {
				continue // command output is delivered under any segmentation (C01's precondition): no hazardous lines
			}
			d.Out = append(d.Out, devsim.T(l.S+d.NL))
		}
		d.Exact = r.Intn(2) == 0
		d.FirstOp = []string{"getprompt", "sendcommand", "readall", "readall"}[r.Intn(4)]
	}
	genTransport(r, &d)
	d.CloseErr = r.Intn(6) == 0
	d.LogLevel = []string{"", "", "", "", "debug", "debug", "info", "critical"}[r.Intn(8)]
	if d.Driver != "netconf" {
		switch r.Intn(12) {
		case 0:
			addLongMotd(r, p, &d, &st)
		case 1:
			addNotices(r, p, &d, &st)
		case 2:
			addDecoys(r, p, &d, &st)
		}
	}
	if d.Auth == "ssh" && r.Intn(2) == 0 {
		mergeFailureLines(&d)
	}
	if !o.NoStall && r.Intn(5) == 0 {
		a := Analyse(&d)
		cuts := a.AllowedCuts()
		d.StallAt = cuts[r.Intn(len(cuts))]
	}
	Finish(&d)
	return d, st
}

// addLongMotd puts a banner of 1.2-5 x the session's prompt search depth (many lines, each within
// the usual preconditions) between the last credential and the shell prompt: everything read since
// the last answered prompt must still be there for the first operation. The transport parameters
// are kept fast enough for thousands of bytes.
func addLongMotd(r *rand.Rand, p *Patterns, d *Dialogue, st *GenStats) {
	n := len(d.Steps)
	if n == 0 || d.Steps[n-1].Kind != KShell {
		return
	}
	target := int(float64(d.PSD) * (1.2 + 3.8*r.Float64()))
	var lines []Line
	for size := 0; size < target; {
		for _, l := range genLines(r, p, "motd", d, 8, st) {
			lines = append(lines, l)
			size += len(l.S) + len(d.NL)
		}
	}
	steps := append([]Step(nil), d.Steps[:n-1]...)
	steps = append(steps, Step{Kind: KBanner, Lines: lines}, d.Steps[n-1])
	d.Steps = steps
	if d.ReadSize < 64 {
		d.ReadSize = 64
	}
	if d.ReadDelay > 250 {
		d.ReadDelay = 250
	}
	if d.Seg.Size < 16 {
		d.Seg.Size = []int{16, 100}[r.Intn(2)]
	}
	if d.Seg.Mode == "geom" {
		d.Seg.Mode = "mix"
	}
	if r.Intn(3) != 0 {
		d.FirstOp = "readall"
	}
}

// addNotices turns every password prompt of the dialogue into "notice that itself ends in
// password:" + newline + real prompt, delivered uncut in one read (keyboard-interactive / LDAP /
// TACACS style). Delivered in separate reads the notice would be answered as a prompt (ambiguous,
// excluded); in one read the two lines are one match on the buffer and get one answer. The shell
// that follows prints a few lines before its prompt, cut small, so that a client that answers the
// same read twice types its password at the shell.
func addNotices(r *rand.Rand, p *Patterns, d *Dialogue, st *GenStats) {
	notices := []string{"Please enter your LDAP password:", "Keyboard-interactive authentication, enter password:", "(RADIUS) one-time password:",
		"Enter your TACACS password:", "This system requires your domain Password: "}
	changed := false
	for i, s := range d.Steps {
		if s.Kind != KPassword || s.Uncut {
			continue
		}
		nt := mangleCase(r, notices[r.Intn(len(notices))])
		if m := p.matches(nt); len(m) != 1 || m[0] != KPassword {
			continue // the notice must look like a password prompt and like nothing else
		}
		d.Steps[i].Text = nt + d.NL + s.Text
		d.Steps[i].Uncut = true
		changed = true
	}
	n := len(d.Steps)
	if !changed || n == 0 || d.Steps[n-1].Kind != KShell {
		return
	}
	if n < 2 || d.Steps[n-2].Kind != KBanner || len(d.Steps[n-2].Lines) < 3 {
		steps := append([]Step(nil), d.Steps[:n-1]...)
		steps = append(steps, Step{Kind: KBanner, Lines: genLines(r, p, "motd", d, 3+r.Intn(4), st)}, d.Steps[n-1])
		d.Steps = steps
	}
	d.Seg.Mode = []string{"fixed", "geom", "mix"}[r.Intn(3)]
	d.Seg.Size = []int{2, 3, 7, 16}[r.Intn(4)]
}

// mergeFailureLines makes every ssh failure line that is directly followed by a password prompt, a
// passphrase prompt or the shell prompt arrive in the same read as that prompt (one uncut span). The
// plan's meaning is unchanged: a recognised failure line comes first, the outcome is a connection
// error.
func mergeFailureLines(d *Dialogue) {
	var out []Step
	for i := 0; i < len(d.Steps); i++ {
		s := d.Steps[i]
		if s.Kind == KSSHErr && s.Then == "" && i+1 < len(d.Steps) {
			n := d.Steps[i+1]
			switch {
			case (n.Kind == KPassword || n.Kind == KPassphrase) && !n.Uncut:
				s.Then, s.ThenText = n.Kind, n.Text
				i++
			case n.Kind == KShell && d.Prompt != "":
				s.Then, s.ThenText = KShell, d.Prompt
				i++
			}
		}
		out = append(out, s)
	}
	d.Steps = out
}

// addDecoys puts, in front of a real credential prompt and in the same read (uncut), a line that the
// OTHER credential's pattern accepts while the device is asking for this one. Only the placements in
// which a client that looks for the prompts in the documented order is not misled are generated:
// telnet - a line ending in "password:" together with the user-name prompt (the user-name prompt is
// looked for first); ssh - a line containing "enter passphrase for key" together with the password
// prompt (the password prompt is looked for first). The reverse placements (a user-name-looking line
// with the password prompt; a password-looking line with the passphrase prompt) and any decoy that
// ends a read of its own mislead every client that recognises prompts by pattern, and stay excluded
// by the no-ambiguous-prefix precondition. Lines that look like a credential the session type does
// not know at all (user-name prompts in ssh dialogues, passphrase prompts in telnet dialogues) are
// ordinary banner lines under any segmentation.
func addDecoys(r *rand.Rand, p *Patterns, d *Dialogue, st *GenStats) {
	var decoys []string
	var target, want string
	if d.Auth == "telnet" {
		target, want = KUser, KPassword
		decoys = []string{"Please enter your username and password:", "Enter login name, then password:", "Authentication required - user and Password: ",
			"This console asks for a Password:"}
	} else {
		target, want = KPassword, KPassphrase
		decoys = []string{"Enter passphrase for key '/home/" + d.User + "/.ssh/id_rsa' skipped (agent refused):", "note: enter passphrase for key is disabled on this host",
			"debug1: Enter passphrase for key: not a tty"}
	}
	for i, s := range d.Steps {
		if s.Kind != target || s.Uncut {
			continue
		}
		dc := mangleCase(r, decoys[r.Intn(len(decoys))])
		if m := p.matches(dc); len(m) != 1 || m[0] != want {
			continue
		}
		if d.Auth == "ssh" && containsSSHWords(dc) {
			continue
		}
		d.Steps[i].Text = dc + d.NL + s.Text
		d.Steps[i].Uncut = true
		st.Protected++
	}
}

func genTransport(r *rand.Rand, d *Dialogue) {
	d.ReadSize = []int{1, 2, 7, 64, 8192, 8192}[r.Intn(6)]
	d.PSD = []int{1000, 1000, 300}[r.Intn(3)]
	d.ReturnChar = []string{"\n", "\n", "\r", "\r\n"}[r.Intn(4)]
	if d.Driver == "netconf" {
		d.ReturnChar = "\n"
	}
	d.ReadDelay = []int{10, 50, 250, 250, 1000}[r.Intn(5)]
	mode := []string{"fixed", "whole", "geom", "mix", "mix"}[r.Intn(5)]
	d.Seg = devsim.Seg{Mode: mode, Size: []int{1, 2, 3, 7, 16, 100}[r.Intn(6)], Seed: r.Int63()}
	if d.Seg.Size >= 16 || mode == "whole" {
		d.Seg.Delay = []string{"", "gosched", "sleep"}[r.Intn(3)]
	} else {
		d.Seg.Delay = []string{"", "gosched"}[r.Intn(2)]
	}
}

// Sweep enumerates minimal dialogues that cover every ssh failure line and every base prompt
// spelling of the generator's families (so that each is exercised in every run, not only when the
// PRNG happens to pick it). Transport parameters are still drawn from r.
func Sweep(r *rand.Rand) []Dialogue {
	var out []Dialogue
	base := func(auth, driver string) Dialogue {
		d := Dialogue{StallAt: -1, Auth: auth, Driver: driver, Host: hosts[r.Intn(len(hosts))], User: "admin",
			Password: "pw" + randStr(r, secretAlpha, 8), NL: "\r\n", EchoUser: auth == "telnet"}
		if auth == "ssh" {
			d.Passphrase = "ph" + randStr(r, secretAlpha, 8)
		}
		d.Prompt = d.Host + "# "
		d.Cmd = "show sweep!"
		d.Out = []devsim.Token{devsim.T("sweep ok" + d.NL)}
		d.FirstOp = "getprompt"
		if driver == "netconf" {
			d.Caps, d.SessionID = []string{ncsim.Cap10, ncsim.Cap11}, "7"
		}
		genTransport(r, &d)
		return d
	}
	final := func(d *Dialogue) Step {
		if d.Driver == "netconf" {
			return Step{Kind: KHello}
		}
		return Step{Kind: KShell}
	}
	drivers := []string{"generic", "network", "netconf"}
	n := 0
	for i := range sshErrFamily(&Dialogue{}) {
		for _, after := range []bool{false, true} {
			d := base("ssh", drivers[n%3])
			n++
			e := sshErrFamily(&d)[i]
			if after {
				d.Steps = []Step{{Kind: KPassword, Text: "Password: "}, {Kind: KSSHErr, Text: e}, final(&d)}
			} else {
				d.Steps = []Step{{Kind: KSSHErr, Text: e}, final(&d)}
			}
			Finish(&d)
			out = append(out, d)
		}
	}
	// long post-login banners (both search depths, every first operation) and notice+prompt dialogues
	var st GenStats
	for _, auth := range []string{"telnet", "ssh"} {
		for _, psd := range []int{1000, 300} {
			for _, op := range []string{"readall", "getprompt", "sendcommand", "readall"} {
				d := base(auth, []string{"generic", "network"}[n%2])
				n++
				d.PSD = psd
				if auth == "telnet" {
					d.Steps = []Step{{Kind: KUser, Text: "Username: "}, {Kind: KPassword, Text: "Password: "}, {Kind: KShell}}
				} else {
					d.Steps = []Step{{Kind: KPassword, Text: d.User + "@" + d.Host + "'s password: "}, {Kind: KShell}}
				}
				addLongMotd(r, sessionPatterns(&d), &d, &st)
				d.FirstOp = op
				Finish(&d)
				out = append(out, d)
			}
		}
		for k := 0; k < 6; k++ {
			d := base(auth, []string{"generic", "network"}[n%2])
			n++
			pw := Step{Kind: KPassword, Text: d.User + "@" + d.Host + "'s password: "}
			if auth == "telnet" {
				pw.Text = "Password: "
				d.Steps = []Step{{Kind: KUser, Text: "Username: "}, pw, {Kind: KShell}}
			} else if k%2 == 0 {
				d.Steps = []Step{pw, {Kind: KShell}}
			} else {
				d.Steps = []Step{pw, {Kind: KBanner, Lines: []Line{{S: "Sorry, try again."}}}, pw, {Kind: KShell}}
			}
			addNotices(r, sessionPatterns(&d), &d, &st)
			d.FirstOp = []string{"getprompt", "sendcommand", "readall"}[k%3]
			Finish(&d)
			out = append(out, d)
		}
		for k := 0; k < 6; k++ {
			d := base(auth, []string{"generic", "network"}[n%2])
			n++
			pw := Step{Kind: KPassword, Text: d.User + "@" + d.Host + "'s password: "}
			rej := Step{Kind: KBanner, Lines: []Line{{S: "Access denied"}}}
			switch {
			case auth == "telnet" && k%2 == 0:
				d.Steps = []Step{{Kind: KUser, Text: "Username: "}, {Kind: KPassword, Text: "Password: "}, {Kind: KShell}}
			case auth == "telnet":
				d.Steps = []Step{{Kind: KUser, Text: "login: "}, {Kind: KPassword, Text: "Password: "}, rej, {Kind: KUser, Text: "login: "}, {Kind: KPassword, Text: "Password: "}, {Kind: KShell}}
			case k%2 == 0:
				d.Steps = []Step{pw, {Kind: KShell}}
			default:
				d.Steps = []Step{{Kind: KPassphrase, Text: "Enter passphrase for key '/tmp/k': "}, pw, rej, pw, {Kind: KShell}}
			}
			addDecoys(r, sessionPatterns(&d), &d, &st)
			d.FirstOp = []string{"getprompt", "sendcommand", "readall"}[k%3]
			Finish(&d)
			out = append(out, d)
		}
	}
	// every ssh failure line in the same read as the prompt that follows it
	for i := range sshErrFamily(&Dialogue{}) {
		for _, then := range []string{KPassword, KPassphrase, KShell} {
			d := base("ssh", []string{"generic", "network"}[n%2])
			n++
			e := Step{Kind: KSSHErr, Text: sshErrFamily(&d)[i], Then: then}
			switch then {
			case KPassword:
				e.ThenText = d.User + "@" + d.Host + "'s password: "
			case KPassphrase:
				e.ThenText = "Enter passphrase for key '/home/" + d.User + "/.ssh/id_rsa': "
			default:
				e.ThenText = d.Prompt
			}
			d.Steps = []Step{e, {Kind: KShell}}
			if i%2 == 1 {
				d.Steps = []Step{{Kind: KPassword, Text: "Password: "}, e, {Kind: KShell}}
			}
			Finish(&d)
			out = append(out, d)
		}
	}
	// credential configurations x device plans
	for _, auth := range []string{"telnet", "ssh"} {
		for _, cfg := range credConfigs(auth) {
			var plans [][]Step
			mk := func(auth string, d *Dialogue) [][]Step {
				u := Step{Kind: KUser, Text: "Username: "}
				pw := Step{Kind: KPassword, Text: "Password: "}
				k := Step{Kind: KPassphrase, Text: "Enter passphrase for key '/home/c10/.ssh/id_ed25519': "}
				rej := Step{Kind: KBanner, Lines: []Line{{S: "Access denied"}}}
				quiet := []Step{{Kind: KBanner, Lines: []Line{{S: "please wait"}}}, {Kind: KSilence}}
				f := final(d)
				if auth == "telnet" {
					return [][]Step{{f}, {u, pw, f}, {u, pw, rej, u, pw, f}, {u, pw, rej, u, pw, rej, u, pw, f}, {pw, pw, pw, f}, quiet}
				}
				pw.Text = d.User + "@" + d.Host + "'s password: "
				refused := Step{Kind: KSSHErr, Text: d.User + "@" + d.Host + ": Permission denied (publickey)."}
				return [][]Step{{f}, {pw, f}, {pw, rej, pw, f}, {pw, pw, pw, f}, {k, f}, {k, k, k, f}, {k, pw, f}, {refused}, quiet}
			}
			probe := base(auth, "generic")
			plans = mk(auth, &probe)
			for pi := range plans {
				drv := drivers[n%3]
				if auth == "telnet" {
					drv = drivers[n%2]
				}
				n++
				d := base(auth, drv)
				d.Steps = mk(auth, &d)[pi]
				applyCredConfig(&d, cfg)
				d.CloseErr = n%2 == 0
				Finish(&d)
				out = append(out, d)
			}
		}
	}
	// post-login lines that contain a credential word and end in a colon, cut small
	for _, auth := range []string{"telnet", "ssh"} {
		for k := 0; k < 4; k++ {
			d := base(auth, []string{"generic", "network"}[n%2])
			n++
			if auth == "telnet" {
				d.Steps = []Step{{Kind: KUser, Text: "Username: "}, {Kind: KPassword, Text: "Password: "}}
			} else {
				d.Steps = []Step{{Kind: KPassword, Text: d.User + "@" + d.Host + "'s password: "}}
			}
			var lines []Line
			for j := 0; j < 3; j++ {
				lines = append(lines, Line{S: mangleCase(r, credentialWordLines[(k*3+j)%len(credentialWordLines)])}, Line{S: "uptime 12 days, load: 0.10 0.08 0.01"})
			}
			d.Steps = append(d.Steps, Step{Kind: KBanner, Lines: lines}, Step{Kind: KShell})
			d.Seg.Mode, d.Seg.Size = []string{"fixed", "geom"}[k%2], []int{7, 16, 3, 100}[k]
			d.FirstOp = []string{"getprompt", "sendcommand", "readall", "getprompt"}[k]
			Finish(&d)
			out = append(out, d)
		}
	}
	for _, kind := range []string{KUser, KPassword, KPassphrase} {
		for _, auth := range []string{"telnet", "ssh"} {
			if kind == KUser && auth == "ssh" || kind == KPassphrase && auth == "telnet" {
				continue
			}
			for i := range promptFamily(kind, &Dialogue{}) {
				for _, sp := range []string{"", " ", "\t"} {
					drv := drivers[n%3]
					if auth == "telnet" {
						drv = drivers[n%2]
					}
					n++
					d := base(auth, drv)
					txt := promptFamily(kind, &d)[i] + sp
					p := sessionPatterns(&d)
					echo := ""
					if kind == KUser && d.EchoUser {
						echo = d.User
					}
					if !p.promptTextOK(kind, txt) || !p.tailOK(kind, txt, echo) {
						continue
					}
					// asked twice (one rejection), then admitted
					d.Steps = []Step{{Kind: kind, Text: txt}, {Kind: kind, Text: txt}, final(&d)}
					Finish(&d)
					out = append(out, d)
				}
			}
		}
	}
	return out
}

// Finish fills the derived fields (expected class, needed offset, timeout).
func Finish(d *Dialogue) {
	a := Analyse(d)
	d.Expect = a.Class
	d.NeedOffset = a.Need
	if a.Class == OutTimeout {
		d.TimeoutMS = 300
	} else {
		d.TimeoutMS = 4000
	}
}

// Analysis is what the plan implies, computed by running the device model against an ideal client.
type Analysis struct {
	PlanClass string // outcome of the plan without the stall
	Class     string // outcome with the stall taken into account
	Decisive  int
	Need      int    // stream offset that must have been delivered for PlanClass to be decided (-1: never)
	Stream    []byte // everything the device generates up to the deciding step
	Log       []Rec  // what the device must have received by then
	Prot      [][2]int
	Esc       [][2]int
	StepOff   []int
	StepEnd   []int
	LastCred  [2]int // stream offsets [first match point, end] of the last answered credential prompt (-1: none)
}

// AllowedCuts lists the stream offsets at which a segmentation may cut (not strictly inside a
// protected span).
func (a *Analysis) AllowedCuts() []int {
	var out []int
	for i := 0; i <= len(a.Stream); i++ {
		ok := true
		for _, p := range a.Prot {
			if i > p[0] && i < p[1] {
				ok = false
				break
			}
		}
		if ok {
			out = append(out, i)
		}
	}
	return out
}

func (d *Dialogue) cli() *devsim.CLI {
	c := &devsim.CLI{Prompts: map[string]string{"exec": d.Prompt}, Mode: "exec", NL: d.NL}
	c.Handler = func(dev *devsim.CLI, mode, line string) devsim.Reply {
		if line == "" {
			return devsim.Reply{}
		}
		if line == d.Cmd {
			return devsim.Reply{Out: d.Out}
		}
		return devsim.Reply{Out: []devsim.Token{devsim.T("% unexpected input " + fmt.Sprintf("%q", line) + dev.NL)}}
	}
	return c
}

func (d *Dialogue) ncServer() *ncsim.Server {
	srv := &ncsim.Server{HelloBytes: ncsim.Hello(d.Caps, d.SessionID)}
	srv.OnMsg = func(s *ncsim.Server, c *devsim.Conn, m *ncsim.Msg) {
		if m.Hello {
			return
		}
		s.Send(c, ncsim.Reply(m.ID, "<data><c10>"+d.SessionID+"</c10></data>"), nil)
	}
	return srv
}

// NewDevice builds the device model of a dialogue.
func (d *Dialogue) NewDevice() *Dev {
	if d.Driver == "netconf" {
		return NewDev(d.Steps, d.NL, d.EchoUser, nil, d.ncServer())
	}
	return NewDev(d.Steps, d.NL, d.EchoUser, d.cli(), nil)
}

func (d *Dialogue) credential(state string) string {
	switch state {
	case StWantUser:
		return d.User
	case StWantPass:
		return d.Password
	case StWantPhrase:
		return d.Passphrase
	}
	return ""
}

// Analyse runs the device model against an ideal client (answers every credential prompt before
// the deciding step, once, with the right credential) and derives the expectations.
func Analyse(d *Dialogue) *Analysis {
	a := &Analysis{LastCred: [2]int{-1, -1}}
	a.PlanClass, a.Decisive = Expected(d.Auth, d.Steps)
	dev := d.NewDevice()
	conn := devsim.NewConn(dev, devsim.Config{Seg: devsim.Seg{Mode: "whole"}})
	conn.Open(nil)
	for guard := 0; guard < 64; guard++ {
		var st string
		var step int
		conn.Do(func() { st, step = dev.state, dev.step })
		if step >= a.Decisive {
			break
		}
		if st != StWantUser && st != StWantPass && st != StWantPhrase {
			break
		}
		cred := d.credential(st)
		off, end := dev.StepOff[step], dev.StepEnd[step]
		a.LastCred = [2]int{off + firstMatch(d.Steps[step], d), end}
		conn.Write([]byte(cred))
		conn.Write([]byte(d.ReturnChar))
	}
	a.Stream = conn.Stream()
	conn.Do(func() {
		a.Log = append([]Rec(nil), dev.Log...)
		a.Prot = append([][2]int(nil), dev.Prot...)
		a.Esc = append([][2]int(nil), dev.Esc...)
		a.StepOff = append([]int(nil), dev.StepOff...)
		a.StepEnd = append([]int(nil), dev.StepEnd...)
	})
	conn.Abandon()
	a.Need = -1
	if a.Decisive < len(d.Steps) {
		s := d.Steps[a.Decisive]
		off := a.StepOff[a.Decisive]
		switch a.PlanClass {
		case OutConn:
			a.Need = off + sshFailureAt(s.Text)
			if s.Then != "" {
				a.Need = a.StepEnd[a.Decisive] // delivered uncut together with the prompt that follows
			}
		case OutAuth:
			a.Need = off + firstMatch(s, d)
		case OutOK:
			if s.Kind == KHello {
				a.Need = off + strings.Index(string(a.Stream[off:]), "]]>]]>") + 6
			} else {
				a.Need = off + earliest(specPrompt, d.Prompt)
			}
		}
	}
	a.Class = a.PlanClass
	if d.StallAt >= 0 && a.Need >= 0 && d.StallAt < a.Need {
		a.Class = OutTimeout
	}
	return a
}
