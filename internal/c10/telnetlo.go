package c10

import (
	"fmt"
	"math/rand"
	"net"
	"strings"
	"sync"
	"time"

	"github.com/scrapli/scrapligo/driver/generic"
	"github.com/scrapli/scrapligo/driver/options"
	"github.com/scrapli/scrapligo/util"

	"verif/internal/mon"
)

// LoDesc is a login through the library's REAL telnet transport against a device model on a
// loopback TCP socket. Discipline is how the device's line input takes return characters:
// "crlf-one" (CR LF, a lone CR and a lone LF are each one enter), "each" (CR and LF are each an
// enter: a console behind a raw terminal server, a tty with ICRNL), "lf-only" (LF is the enter, CR is
// ignored). Only (discipline, return char) pairs for which the configured return char is exactly one
// enter are generated.
type LoDesc struct {
	Discipline string `json:"discipline"`
	RC         string `json:"return_char"`
	User       string `json:"user"`
	Password   string `json:"password"`
	Rejects    int    `json:"rejects"`  // the first Rejects attempts are refused whatever is typed
	DelayMS    int    `json:"delay_ms"` // the credential check takes this long
	Negotiate  bool   `json:"negotiate"`
	UserPrompt string `json:"user_prompt"`
	PassPrompt string `json:"pass_prompt"`
	Prompt     string `json:"prompt"`
	Cmd        string `json:"cmd"`
	// ReadSize is the transport read size (0 = default); Banner is printed together with the option
	// negotiation, before the user-name prompt (so it is part of what the transport has in hand when
	// the negotiation is over, and may well be larger than one read).
	// QuietMS: the line says nothing at all for this long after the connection is made (0.15-0.5 x
	// TimeoutOps); whatever is typed ahead meanwhile is read afterwards, and echoed or not according to
	// the state the login program is in when it reads it. An empty user name makes the login program
	// (after its usual moment) ask again.
	QuietMS  int      `json:"quiet_ms,omitempty"`
	ReadSize int      `json:"read_size,omitempty"`
	Banner   []string `json:"banner,omitempty"`
}

// GenLo draws one loopback telnet login.
func GenLo(r *rand.Rand, idx int) LoDesc {
	combos := [][2]string{{"crlf-one", "\n"}, {"each", "\n"}, {"lf-only", "\n"}, {"crlf-one", "\r"}, {"each", "\r"}, {"crlf-one", "\r\n"}, {"lf-only", "\r\n"}}
	c := combos[idx%len(combos)]
	h := hosts[r.Intn(len(hosts))]
	var banner []string
	for i, n := 0, r.Intn(8); i < n; i++ {
		banner = append(banner, []string{"*** authorized access only ***", "unit 7, uptime 12 days, load 0.10 0.08 0.01", "", "maintenance window tonight 22.00 - 23.00",
			"all activity on this system is logged and monitored", "contact the noc at ext 4711 before changing anything"}[r.Intn(6)])
	}
	quiet := 0
	if idx%4 == 3 {
		quiet = 600 + r.Intn(1400) // TimeoutOps is 4 s
	}
	return LoDesc{QuietMS: quiet, ReadSize: []int{0, 0, 16, 32, 64, 256, 8192}[r.Intn(7)], Banner: banner, Discipline: c[0], RC: c[1], User: []string{"admin", "netops", "u1"}[r.Intn(3)], Password: "pw" + randStr(r, secretAlpha, 6+r.Intn(8)),
		Rejects: (idx / len(combos)) % 2, DelayMS: 15 + r.Intn(30), Negotiate: r.Intn(2) == 0 && quiet == 0,
		UserPrompt: []string{"Username: ", "login: ", h + " login: "}[r.Intn(3)], PassPrompt: []string{"Password: ", "password:"}[r.Intn(2)],
		Prompt: h + []string{"#", "# ", ">"}[r.Intn(3)], Cmd: "show lo!"}
}

type loServer struct {
	d     LoDesc
	ln    net.Listener
	mu    sync.Mutex
	log   []Rec
	state string
	done  chan struct{}
}

func (s *loServer) rec(line string) {
	s.mu.Lock()
	s.log = append(s.log, Rec{State: s.state, Line: line})
	s.mu.Unlock()
}

func (s *loServer) snapshot() []Rec {
	s.mu.Lock()
	defer s.mu.Unlock()
	return append([]Rec(nil), s.log...)
}

func (s *loServer) serve() {
	defer close(s.done)
	conn, err := s.ln.Accept()
	if err != nil {
		return
	}
	defer conn.Close()
	d := s.d
	if d.QuietMS > 0 {
		time.Sleep(time.Duration(d.QuietMS) * time.Millisecond)
	}
	if d.Negotiate {
		conn.Write([]byte{255, 251, 1, 255, 251, 3, 255, 253, 24}) // WILL ECHO, WILL SGA, DO TERMINAL-TYPE
	}
	conn.Write([]byte("\r\n" + strings.Join(append(append([]string(nil), d.Banner...), "User Access Verification", "", ""), "\r\n") + d.UserPrompt))
	s.mu.Lock()
	s.state = StWantUser
	s.mu.Unlock()
	var line []byte
	attempt := 0
	user := ""
	lastCR := false
	iac := 0
	enter := func() {
		l := string(line)
		line = line[:0]
		s.rec(l)
		s.mu.Lock()
		st := s.state
		s.mu.Unlock()
		next := st
		switch st {
		case StWantUser:
			if l == "" {
				// no name given: ask again
				time.Sleep(time.Duration(d.DelayMS) * time.Millisecond)
				conn.Write([]byte("\r\n" + d.UserPrompt))
				break
			}
			user = l
			conn.Write([]byte("\r\n" + d.PassPrompt))
			next = StWantPass
		case StWantPass:
			attempt++
			time.Sleep(time.Duration(d.DelayMS) * time.Millisecond)
			if attempt > d.Rejects && user == d.User && l == d.Password {
				conn.Write([]byte("\r\nWelcome\r\n" + d.Prompt))
				next = StShell
			} else {
				conn.Write([]byte("\r\n% Login invalid\r\n\r\n" + d.UserPrompt))
				next = StWantUser
			}
		case StShell:
			conn.Write([]byte("\r\n"))
			if l == d.Cmd {
				conn.Write([]byte("lo ok\r\n"))
			}
			conn.Write([]byte(d.Prompt))
		}
		s.mu.Lock()
		s.state = next
		s.mu.Unlock()
	}
	buf := make([]byte, 256)
	for {
		n, err := conn.Read(buf)
		if err != nil {
			return
		}
		for _, b := range buf[:n] {
			switch {
			case iac == 1:
				if b >= 251 && b <= 254 {
					iac = 2
				} else {
					iac = 0
				}
				continue
			case iac == 2:
				iac = 0
				continue
			case b == 255:
				iac = 1
				continue
			}
			isEnter := false
			switch d.Discipline {
			case "each":
				isEnter = b == '\r' || b == '\n'
			case "lf-only":
				if b == '\r' {
					continue
				}
				isEnter = b == '\n'
			default:
				if b == '\n' && lastCR {
					lastCR = false
					continue
				}
				lastCR = b == '\r'
				isEnter = b == '\r' || b == '\n'
			}
			if isEnter {
				enter()
				continue
			}
			if b == 0 {
				continue
			}
			line = append(line, b)
			s.mu.Lock()
			st := s.state
			s.mu.Unlock()
			if st != StWantPass {
				conn.Write([]byte{b}) // the user-name prompt and the shell echo, the password prompt does not
			}
		}
	}
}

// RunTelnetLo runs and judges one loopback telnet login: the device admits us (after Rejects
// refusals), so Open must succeed; the user name arrives only at the user-name prompt, the password
// only at the password prompt, each at most twice; the first operations see the device.
func RunTelnetLo(d LoDesc, h *Hooks) (mon.Result, *Info) {
	info := &Info{}
	ln, err := net.Listen("tcp", "127.0.0.1:0")
	if err != nil {
		return mon.Result{Verdict: mon.Inconclusive, Detail: "listen: " + err.Error()}, info
	}
	srv := &loServer{d: d, ln: ln, state: StStart, done: make(chan struct{})}
	go srv.serve()
	defer func() {
		ln.Close()
		select {
		case <-srv.done:
		case <-time.After(2 * time.Second):
		}
	}()
	opts := []util.Option{options.WithTransportType("telnet"), options.WithPort(ln.Addr().(*net.TCPAddr).Port), options.WithAuthUsername(d.User),
		options.WithAuthPassword(d.Password), options.WithReturnChar(d.RC), options.WithTimeoutOps(4 * time.Second), options.WithTimeoutSocket(200 * time.Millisecond)}
	if d.ReadSize > 0 {
		opts = append(opts, options.WithTransportReadSize(d.ReadSize))
	}
	if h != nil {
		opts = append(opts, h.ExtraOpts...)
	}
	gd, err := generic.NewDriver("127.0.0.1", opts...)
	if err != nil {
		return mon.Result{Verdict: mon.Violated, Key: "c10/constructor-failed", Detail: err.Error()}, info
	}
	what := fmt.Sprintf("real telnet transport, device line discipline %s, return char %q, %d refusal(s)", d.Discipline, d.RC, d.Rejects)
	bad := func(key, f string, x ...interface{}) (mon.Result, *Info) {
		if h != nil && h.Drain {
			time.Sleep(time.Duration(3*d.DelayMS+20) * time.Millisecond)
		}
		info.DeviceLog = srv.snapshot()
		return mon.Result{Verdict: mon.Violated, Key: key + ":telnet-transport", Detail: what + "\n" + fmt.Sprintf(f, x...) + fmt.Sprintf("\ndevice log: %v", srv.snapshot()), NonTrivial: true}, info
	}
	t0 := time.Now()
	err = gd.Open()
	info.Class, info.Err = classOf(err), err
	if err == nil {
		defer func() {
			done := make(chan struct{})
			go func() { defer func() { recover(); close(done) }(); gd.Close() }()
			select {
			case <-done:
			case <-time.After(5 * time.Second):
			}
		}()
	}
	log := srv.snapshot()
	info.DeviceLog = log
	count := map[string]int{}
	for _, rec := range log {
		if rec.State == StShell {
			if rec.Line != "" {
				return bad("c10/unexpected-input:shell", "the shell received %q during Open", rec.Line)
			}
			continue
		}
		which, want := "", ""
		switch rec.Line {
		case d.User:
			which, want = "user", StWantUser
		case d.Password:
			which, want = "password", StWantPass
		default:
			return bad("c10/unexpected-input:"+rec.State, "device received the line %q in state %s", rec.Line, rec.State)
		}
		if rec.State != want {
			return bad("c10/credential-in-wrong-state:"+which+"@"+rec.State, "the %s was sent while the device was in state %s", which, rec.State)
		}
		count[which]++
		if count[which] > 2 {
			return bad("c10/credential-sent-more-than-twice:"+which, "the %s was sent %d times", which, count[which])
		}
	}
	if err != nil {
		if info.Class == OutTimeout && mon.LoadedSince(t0) {
			return mon.Result{Verdict: mon.Inconclusive, Detail: "loopback telnet login timed out under load"}, info
		}
		return bad("c10/outcome:ok-got-"+info.Class, "Open returned %v although the device admits us", err)
	}
	p, err := gd.GetPrompt()
	if err != nil || strings.TrimSpace(p) != strings.TrimSpace(d.Prompt) {
		if err != nil && mon.LoadedSince(t0) {
			return mon.Result{Verdict: mon.Inconclusive, Detail: "first GetPrompt failed under load"}, info
		}
		return bad("c10/first-getprompt", "GetPrompt returned %q, %v; device prompt is %q", p, err, d.Prompt)
	}
	r, err := gd.SendCommand(d.Cmd)
	info.CmdSent = true
	if err != nil || r.Result != "lo ok" {
		if err != nil && mon.LoadedSince(t0) {
			return mon.Result{Verdict: mon.Inconclusive, Detail: "first SendCommand failed under load"}, info
		}
		res := ""
		if r != nil {
			res = r.Result
		}
		return bad("c10/first-sendcommand", "SendCommand returned %q, %v", res, err)
	}
	info.DeviceLog = srv.snapshot()
	obs := map[string]int64{"real_telnet_transport_logins": 1, "credential_lines": int64(len(log))}
	early := len(d.UserPrompt) + 30
	for _, l := range d.Banner {
		early += len(l) + 2
	}
	if d.QuietMS > 0 {
		obs["telnet_logins_on_initially_silent_line"] = 1
	}
	if d.ReadSize > 0 && early > d.ReadSize {
		obs["telnet_early_bytes_larger_than_read_size"] = 1
	}
	return mon.Result{Verdict: mon.Held, NonTrivial: true,
		Obs:    obs,
		Tags:   []string{fmt.Sprintf("telnet-transport:readsize=%d", d.ReadSize), "telnet-transport:discipline=" + d.Discipline, fmt.Sprintf("telnet-transport:returnchar=%q", d.RC), fmt.Sprintf("telnet-transport:refusals=%d", d.Rejects)},
		Sample: map[string]interface{}{"session": what, "device_log": log, "elapsed_ms": time.Since(t0).Milliseconds()}}, info
}
