// Package c10: in-channel login succeeds iff the device admits us; attempts are bounded.
//
// A login device (state machine over a generated dialogue plan) is put behind a devsim.AuthConn so
// that Channel.Open runs the library's real in-channel dialogue code. The expected outcome is a
// function of the plan alone (Expected); the device logs (state, line) for every line it receives.
package c10

import (
	"regexp"
	"strings"
)

// Line is one banner line. Prot: the line (with its newline) is emitted as a span no read boundary
// may fall inside (the quantifier excludes segmentations that cut a banner line so that its prefix
// looks like a prompt). Esc, if set, is an escape sequence emitted (protected) before the text.
type Line struct {
	S    string `json:"s"`
	Prot bool   `json:"prot,omitempty"`
	Esc  string `json:"esc,omitempty"`
}

// Step kinds.
const (
	KBanner     = "banner"     // Lines, each followed by the device's newline
	KUser       = "user"       // Text = user-name prompt; device waits in state want-user
	KPassword   = "password"   // Text = password prompt; state want-password
	KPassphrase = "passphrase" // Text = key passphrase prompt; state want-passphrase
	KSSHErr     = "ssherr"     // Text = ssh client failure line (ssh-type only); the client is dead afterwards
	KShell      = "shell"      // the device shows its shell prompt (CLI drivers)
	KHello      = "hello"      // the NETCONF server sends its hello (NETCONF driver)
	KSilence    = "silence"    // the device says nothing more
)

// Step is one step of the dialogue plan.
type Step struct {
	Kind  string `json:"kind"`
	Lines []Line `json:"lines,omitempty"`
	Text  string `json:"text,omitempty"`
	// Uncut (credential prompts): Text is several lines (a notice that itself ends like a prompt, then
	// the real prompt) which the transport delivers in ONE read; the notice does not consume a line.
	// One read holding two prompt-looking lines is one match on the buffer, hence one answer.
	Uncut bool `json:"uncut,omitempty"`
	// Then, ThenText (ssh failure lines): the failure line is followed, in the same read (one uncut
	// span), by a prompt: Then = password | passphrase | shell. The device is then really asking (or
	// at its shell), but a recognised failure line comes first: connection error.
	Then     string `json:"then_kind,omitempty"`
	ThenText string `json:"then_text,omitempty"`
}

// firstMatch is the smallest deliverable prefix of a credential step's text on which its pattern
// matches (an uncut text is only ever seen whole).
func firstMatch(s Step, d *Dialogue) int {
	if s.Uncut {
		return len(s.Text)
	}
	return earliest(d.spec(s.Kind), s.Text)
}

// Outcome classes.
const (
	OutOK      = "ok"
	OutAuth    = "auth"
	OutConn    = "connection"
	OutTimeout = "timeout"
)

// Expected computes the outcome class from the plan alone, as the property states it: a recognised
// ssh failure line first -> connection error; the third occurrence of one credential's prompt ->
// authentication error; a shell prompt (or, for NETCONF, the server hello) -> success; silence ->
// timeout. It also returns the index of the deciding step (len(steps) if the plan just runs out).
func Expected(auth string, steps []Step) (class string, decisive int) {
	seen := map[string]int{}
	for i, s := range steps {
		switch s.Kind {
		case KSSHErr:
			if auth == "ssh" {
				return OutConn, i
			}
		case KUser, KPassword, KPassphrase:
			seen[s.Kind]++
			if seen[s.Kind] > 2 {
				return OutAuth, i
			}
		case KShell, KHello:
			return OutOK, i
		case KSilence:
			return OutTimeout, i
		}
	}
	return OutTimeout, len(steps)
}

// The default patterns as the property statement spells them (used to decide where a prompt text is
// first recognisable, and to validate the generator's spelling families). Hazard exclusion uses
// the patterns of a real session instead (sessionPatterns).
var (
	specUser       = regexp.MustCompile(`(?im)^(.*username:)|(.*login:)\s?$`)
	specPassword   = regexp.MustCompile(`(?im)(.*@.*)?password:\s?$`)
	specPassphrase = regexp.MustCompile(`(?i)enter passphrase for key`)
	specPrompt     = regexp.MustCompile(`(?im)^[a-z\d.\-@()/:]{1,48}[#>$]\s*$`)
)

// sshFailurePhrases are the ssh client failure messages the in-channel ssh dialogue recognises
// (lower-cased substrings).
var sshFailurePhrases = []string{
	"host key verification failed",
	"operation timed out",
	"connection timed out",
	"no route to host",
	"no matching host key",
	"no matching key exchange",
	"no matching cipher",
	"bad configuration",
	"warning: unprotected private key file",
	"could not resolve hostname",
	"permission denied",
}

// sshFailureAt returns the smallest prefix length of s that contains a recognised failure phrase,
// or -1. "no matching" alone is treated as a phrase to avoid (its recognition depends on details
// the statement does not fix), so banners never contain it.
func sshFailureAt(s string) int {
	l := strings.ToLower(s)
	best := -1
	for _, p := range sshFailurePhrases {
		if i := strings.Index(l, p); i >= 0 {
			if e := i + len(p); best < 0 || e < best {
				best = e
			}
		}
	}
	return best
}

func containsSSHWords(s string) bool {
	return sshFailureAt(s) >= 0 || strings.Contains(strings.ToLower(s), "no matching")
}

// earliest returns the smallest n such that re matches s[:n], or -1.
func earliest(re *regexp.Regexp, s string) int {
	for n := 1; n <= len(s); n++ {
		if re.MatchString(s[:n]) {
			return n
		}
	}
	return -1
}

func specFor(kind string) *regexp.Regexp {
	switch kind {
	case KUser:
		return specUser
	case KPassword:
		return specPassword
	case KPassphrase:
		return specPassphrase
	}
	return specPrompt
}

// Patterns are the compiled patterns of one session type, taken from a really constructed driver.
type Patterns struct {
	// Spec: the pattern a credential prompt of this session is spelled for (the statement's default
	// pattern, or the custom pattern the session is configured with)
	Spec       map[string]*regexp.Regexp
	Auth       string
	Prompt     *regexp.Regexp
	User       *regexp.Regexp // telnet only
	Password   *regexp.Regexp
	Passphrase *regexp.Regexp // ssh only
}

func (p *Patterns) spec(kind string) *regexp.Regexp {
	if r, ok := p.Spec[kind]; ok && r != nil {
		return r
	}
	return specFor(kind)
}

// matches reports which of the session's patterns accept the single line s ("" = none). Lines can
// be judged in isolation: every pattern is line-anchored or a plain substring search, and lines are
// shorter than the search depth.
func (p *Patterns) matches(s string) []string {
	var out []string
	t := strings.TrimRight(s, " \t\r\n")
	if t == "" {
		return nil
	}
	last := t[len(t)-1]
	low := strings.ToLower(s)
	// cheap pre-filters, sound for the default patterns only (a pattern that differs from the
	// statement's spelling is always evaluated): the CLI prompt pattern ends in [#>$]\s*$, the NETCONF
	// one is a literal, the password and login patterns end in ":\s?$", the others are substrings.
	switch p.Prompt.String() {
	case "]]>]]>":
		if strings.Contains(s, "]]>") && p.Prompt.MatchString(s) {
			out = append(out, "prompt")
		}
	case specPrompt.String():
		if (last == '#' || last == '>' || last == '$') && p.Prompt.MatchString(s) {
			out = append(out, "prompt")
		}
	default:
		if p.Prompt.MatchString(s) {
			out = append(out, "prompt")
		}
	}
	if p.Password.String() != specPassword.String() || last == ':' {
		if p.Password.MatchString(s) {
			out = append(out, KPassword)
		}
	}
	if p.Auth == "telnet" {
		if p.User.String() != specUser.String() || last == ':' || strings.Contains(low, "username:") {
			if p.User.MatchString(s) {
				out = append(out, KUser)
			}
		}
	} else {
		if p.Passphrase.String() != specPassphrase.String() || strings.Contains(low, "passphrase") {
			if p.Passphrase.MatchString(s) {
				out = append(out, KPassphrase)
			}
		}
	}
	return out
}

// lineHazard brute-forces every cut position of one banner line: full = the complete line is
// accepted by some pattern (the line is unusable); prefix = some proper prefix is (the line may
// only be delivered uncut).
func (p *Patterns) lineHazard(s string) (full, prefix bool) {
	if len(p.matches(s)) > 0 {
		return true, true
	}
	if p.Auth == "ssh" && containsSSHWords(s) {
		return true, true
	}
	for n := 1; n < len(s); n++ {
		if len(p.matches(s[:n])) > 0 {
			return false, true
		}
	}
	return false, false
}

// promptTextOK: at every cut position the prompt text is accepted by no pattern other than its
// own, and the statement's pattern accepts it at some position.
func (p *Patterns) promptTextOK(kind, text string) bool {
	want := kind
	if kind == KShell {
		want = "prompt"
	}
	if earliest(p.spec(kind), text) < 0 {
		return false
	}
	if p.spec(kind) != specFor(kind) {
		// a custom spelling must be one that ONLY the custom pattern accepts
		for n := 1; n <= len(text); n++ {
			if specFor(kind).MatchString(text[:n]) {
				return false
			}
		}
	}
	for n := 1; n <= len(text); n++ {
		for _, m := range p.matches(text[:n]) {
			if m != want {
				return false
			}
		}
	}
	if p.Auth == "ssh" && containsSSHWords(text) {
		return false
	}
	return true
}

// tailOK: what may be left of an answered prompt (any suffix after its first match point), followed
// by the echo of the answer, forms a line of its own; it must not look like anything at any cut.
func (p *Patterns) tailOK(kind, text, echo string) bool {
	e := earliest(p.spec(kind), text)
	if e < 0 {
		return false
	}
	for from := e; from <= len(text); from++ {
		l := text[from:] + echo
		for n := 1; n <= len(l); n++ {
			if len(p.matches(l[:n])) > 0 {
				return false
			}
		}
		if p.Auth == "ssh" && containsSSHWords(l) {
			return false
		}
	}
	return true
}
