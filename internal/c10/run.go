package c10

import (
	"errors"
	"fmt"
	"github.com/scrapli/scrapligo/driver/options"
	"github.com/scrapli/scrapligo/logging"
	"math/rand"
	"strings"
	"sync"
	"time"

	"github.com/scrapli/scrapligo/driver/opoptions"
	"github.com/scrapli/scrapligo/transport"
	"github.com/scrapli/scrapligo/util"

	"verif/internal/devsim"
	"verif/internal/mon"
)

// Hooks lets another property (C11) reuse the runner.
type Hooks struct {
	ExtraOpts []util.Option
	// AfterOpen, if set, is called right after Open returned (before anything is judged or used).
	AfterOpen func()
	// Drain: before reporting a violation let the session read everything the device has generated
	// (C11 wants the logs of a misbehaving session to be complete).
	Drain bool
}

// Info is what a run observed (for C11's monitors).
type Info struct {
	Class     string // observed outcome class
	Err       error
	DeviceLog []Rec
	CmdSent   bool
	Analysis  *Analysis
}

func classOf(err error) string {
	switch {
	case err == nil:
		return OutOK
	case errors.Is(err, util.ErrAuthError):
		return OutAuth
	case errors.Is(err, util.ErrTimeoutError):
		return OutTimeout
	case errors.Is(err, util.ErrConnectionError):
		return OutConn
	}
	return "other"
}

func clip(s string) string {
	if len(s) > 300 {
		return s[:150] + "…" + s[len(s)-150:]
	}
	return s
}

func tail(l []devsim.Event, n int) []devsim.Event {
	if len(l) > n {
		l = l[len(l)-n:]
	}
	for i := range l {
		if len(l[i].Data) > 120 {
			l[i].Data = l[i].Data[:120] + "…"
		}
	}
	return l
}

// normalise: what the channel holds of device bytes (escape sequences and CR removed).
func normalise(stream []byte, esc [][2]int) string {
	var b strings.Builder
	for i := 0; i < len(stream); i++ {
		skip := stream[i] == '\r'
		for _, p := range esc {
			if i >= p[0] && i < p[1] {
				skip = true
				break
			}
		}
		if !skip {
			b.WriteByte(stream[i])
		}
	}
	return b.String()
}

// closeErrConn is a transport whose Close does close the connection but reports an error (far end
// already gone, pty torn down under it).
type closeErrConn struct {
	*devsim.AuthConn
}

// ErrCloseComplains is what closeErrConn.Close returns.
var ErrCloseComplains = errors.New("c10: close: transport endpoint is not connected (injected)")

// Close implements transport.Implementation.
func (c *closeErrConn) Close() error {
	c.AuthConn.Close()
	return ErrCloseComplains
}

// RunDialogue drives the real library through the dialogue and judges it.
func RunDialogue(d Dialogue, h *Hooks) (mon.Result, *Info) {
	a := Analyse(&d)
	info := &Info{Analysis: a}
	dev := d.NewDevice()
	cfg := devsim.Config{Seg: d.Seg, KeepData: true, AuthType: d.Auth}
	if d.StallAt >= 0 {
		cfg.Fault, cfg.FaultAt = devsim.FaultStall, d.StallAt
	}
	conn := devsim.NewConn(dev, cfg)
	defer conn.Abandon()
	var ac transport.Implementation = &devsim.AuthConn{Conn: conn, SSH: d.SSHArgs()}
	if d.CloseErr {
		ac = &closeErrConn{AuthConn: &devsim.AuthConn{Conn: conn, SSH: d.SSHArgs()}}
	}
	var extra []util.Option
	if d.LogLevel != "" {
		var sink sync.Mutex
		n := 0
		li, lerr := logging.NewInstance(logging.WithLevel(d.LogLevel), logging.WithLogger(func(a ...interface{}) { sink.Lock(); n += len(a); sink.Unlock() }))
		if lerr == nil {
			extra = append(extra, options.WithLogger(li))
		}
	}
	if h != nil {
		extra = append(extra, h.ExtraOpts...)
	}
	s, err := NewSession(&d, ac, extra)
	if err != nil {
		return mon.Result{Verdict: mon.Violated, Key: "c10/constructor-failed", Detail: err.Error()}, info
	}
	bad := func(key, f string, x ...interface{}) (mon.Result, *Info) {
		if h != nil && h.Drain {
			conn.Release()
			conn.WaitDelivered(len(conn.Stream()), time.Second)
			time.Sleep(3 * time.Millisecond)
		}
		return mon.Result{Verdict: mon.Violated, Key: key, Detail: fmt.Sprintf("expected outcome %q (plan: %s)\n", a.Class, planString(&d)) + fmt.Sprintf(f, x...),
			Events: tail(conn.Log(), 80), NonTrivial: true}, info
	}
	inconclusive := func(f string, x ...interface{}) (mon.Result, *Info) {
		return mon.Result{Verdict: mon.Inconclusive, Detail: fmt.Sprintf(f, x...)}, info
	}

	t0 := time.Now()
	err = s.Open()
	elapsed := time.Since(t0)
	closedAtReturn := conn.CloseCalls()
	if err == nil {
		defer s.Close()
	}
	if h != nil && h.AfterOpen != nil {
		h.AfterOpen()
	}
	got := classOf(err)
	info.Class, info.Err = got, err
	var devLog []Rec
	var pending, devState, shellPending string
	var shellLines []devsim.LineRec
	conn.Do(func() {
		devLog = append([]Rec(nil), dev.Log...)
		pending, devState = dev.Pending(), dev.StateNow()
		if dev.CLI != nil {
			shellLines = append(shellLines, dev.CLI.Lines...)
			shellPending = dev.CLI.InputLine()
		}
	})
	info.DeviceLog = devLog
	loaded := mon.LoadedSince(t0)
	timeout := time.Duration(d.TimeoutMS) * time.Millisecond

	// ---- what the device received: credentials only in their own state, at most twice each
	if key, msg := checkInputs(&d, devLog, shellLines, shellPending, pending, devState); key != "" {
		return bad(key, "%s", msg)
	}

	// ---- outcome class
	if got != a.Class {
		if got == OutTimeout {
			// timed out although the plan decides otherwise: a violation only if the transport had
			// delivered what the decision needs
			// timed out although the plan decides otherwise: a violation only if the transport had
			// delivered everything the device generated (up to the stall point) - the client then had every
			// byte it needed to make the next move and did not
			limit := len(conn.Stream())
			if d.StallAt >= 0 && d.StallAt < limit {
				limit = d.StallAt
			}
			if conn.Delivered() < limit {
				return inconclusive("timeout before the transport delivered what the device generated (%d < %d)", conn.Delivered(), limit)
			}
			if loaded {
				return inconclusive("timeout under load (expected %s)", a.Class)
			}
		}
		return bad("c10/outcome:"+a.Class+"-got-"+got+":"+d.Auth, "Open returned %v after %s; delivered %d of %d generated bytes, deciding offset %d\ndevice log: %v",
			err, elapsed, conn.Delivered(), len(conn.Stream()), a.Need, devLog)
	}
	if got == "other" {
		return bad("c10/outcome:other", "Open returned %v", err)
	}

	// ---- device log against the ideal client's
	logOK := len(devLog) <= len(a.Log)
	for i := 0; logOK && i < len(devLog); i++ {
		if devLog[i].State != a.Log[i].State || devLog[i].Line != a.Log[i].Line {
			logOK = false
		}
	}
	if logOK && got != OutTimeout && len(devLog) != len(a.Log) {
		logOK = false
	}
	if !logOK {
		return bad("c10/device-log-mismatch:"+got, "device received %v, the dialogue requires %v", devLog, a.Log)
	}

	// ---- failure: the transport was closed by the time Open returned
	if got != OutOK && closedAtReturn < 1 {
		return bad("c10/transport-not-closed:"+got, "Open returned %v but Close was never called on the transport", err)
	}
	if got == OutTimeout {
		if elapsed > timeout+2*time.Second {
			if loaded {
				return inconclusive("timeout reported late under load")
			}
			return bad("c10/timeout-late", "timeout of %s reported after %s with a healthy canary", timeout, elapsed)
		}
		if elapsed < timeout-20*time.Millisecond {
			return bad("c10/timeout-early", "timeout of %s reported after only %s", timeout, elapsed)
		}
	}

	obs := map[string]int64{"dialogues": 1, "outcome_" + got: 1, "credential_lines": int64(len(devLog))}
	reads := 0
	for _, e := range conn.Log() {
		if e.Kind == "read" {
			reads++
		}
	}
	obs["reads_during_open"] = int64(reads)
	prompts := 0
	for _, st := range d.Steps[:min(a.Decisive+1, len(d.Steps))] {
		if st.Kind == KUser || st.Kind == KPassword || st.Kind == KPassphrase {
			prompts++
		}
	}
	obs["credential_prompts"] = int64(prompts)
	if d.StallAt >= 0 {
		obs["stalled"] = 1
	}
	for _, l := range a.Prot {
		_ = l
		obs["uncut_spans"]++
	}
	tags := []string{"auth=" + d.Auth, "drv=" + d.Driver, "outcome=" + got, "seg=" + d.Seg.Mode, fmt.Sprintf("readsize=%d", d.ReadSize),
		fmt.Sprintf("returnchar=%q", d.ReturnChar), fmt.Sprintf("prompts=%d", prompts), fmt.Sprintf("stall=%v", d.StallAt >= 0),
		"shape=" + shapeString(&d, a)}
	if d.HasCustomPatterns() {
		tags = append(tags, fmt.Sprintf("family=custom-patterns(user=%v,password=%v,passphrase=%v)", d.UserPat != "", d.PassPat != "", d.PhrasePat != ""))
		obs["custom_pattern_dialogues"] = 1
	}
	tags = append(tags, "credentials="+d.CredConfig(), "logger="+d.LogLevel)
	if d.LogLevel != "" {
		obs["dialogues_with_real_logger"] = 1
	}
	if d.CloseErr {
		obs["close_returns_error_dialogues"] = 1
		tags = append(tags, "close-error:outcome="+got)
	}
	for _, st := range d.Steps[:min(a.Decisive+1, len(d.Steps))] {
		if st.Kind == KUser && d.UserPat == "" && !st.Uncut {
			if t := strings.TrimRight(st.Text, " \t"); !strings.HasSuffix(strings.ToLower(t), "login:") && !strings.HasSuffix(strings.ToLower(t), "username:") || len(st.Text)-len(t) > 1 {
				obs["user_prompts_with_text_after_colon"]++
			}
		}
	}
	if d.Password == "" || d.Auth == "ssh" && d.Passphrase == "" || d.Auth == "telnet" && d.User == "" {
		obs["dialogues_with_unconfigured_credential"] = 1
	}
	if d.KeyPath != "" && d.Password == "" && d.Passphrase == "" {
		obs["key_only_dialogues"] = 1
	}
	if HasCredentialWordLines(&d) {
		obs["credential_word_line_dialogues"] = 1
		tags = append(tags, "family=credential-word-lines")
	}
	for _, st := range d.Steps {
		if st.Kind == KSSHErr && st.Then != "" {
			obs["failure_line_with_prompt_in_one_read"] = 1
			tags = append(tags, "family=failure-line+"+st.Then+"-in-one-read")
			break
		}
	}
	if HasNotice(&d) {
		tags = append(tags, "family=notice+prompt-in-one-read")
		obs["notice_dialogues"] = 1
	}
	if n := LongestBanner(&d); n > d.PSD {
		tags = append(tags, fmt.Sprintf("family=banner>searchdepth(%d)", d.PSD))
		obs["banner_longer_than_search_depth"] = 1
	}
	nontrivial := (prompts > 0 || a.PlanClass == OutConn || d.StallAt >= 0) && reads >= 2
	res := mon.Result{Verdict: mon.Held, NonTrivial: nontrivial, Obs: obs, Tags: tags,
		Sample: map[string]interface{}{"plan": planString(&d), "outcome": got, "device_log": devLog, "transport": devsim.Summary(conn.Log()), "elapsed_ms": elapsed.Milliseconds()}}
	if got != OutOK {
		return res, info
	}

	// ---- success: the first operations see the device as it is
	if d.StallAt >= 0 {
		conn.Release()
	}
	if d.Driver == "netconf" {
		caps := s.NC.ServerCapabilities()
		if strings.Join(caps, " ") != strings.Join(d.Caps, " ") {
			return bad("c10/netconf-capabilities", "capabilities %v, server sent %v", caps, d.Caps)
		}
		if fmt.Sprint(s.NC.SessionID()) != d.SessionID {
			return bad("c10/netconf-session-id", "session id %d, server sent %s", s.NC.SessionID(), d.SessionID)
		}
		r, err := s.NC.Get("<c10/>", opoptions.WithTimeoutOps(10*time.Second))
		if err != nil {
			if errors.Is(err, util.ErrTimeoutError) && mon.LoadedSince(t0) {
				return inconclusive("first rpc timed out under load")
			}
			return bad("c10/first-rpc", "first Get after login returned %v", err)
		}
		if !strings.Contains(r.Result, "<c10>"+d.SessionID+"</c10>") {
			return bad("c10/first-rpc", "first Get returned %q", clip(r.Result))
		}
		obs["first_op_checked"] = 1
		return res, info
	}
	if err := firstOps(&d, s, conn, dev, a, info); err != nil {
		if err.inconclusive {
			return inconclusive("%s", err.msg)
		}
		return bad(err.key, "%s", err.msg)
	}
	obs["first_op_checked"] = 1
	tags = append(tags, "firstop="+d.FirstOp)
	res.Tags = tags
	return res, info
}

// LineOf is a credential as a line-oriented device sees it: the bytes up to the first return
// character (a credential that ends in a return character makes the device see the credential and
// then an empty line).
func LineOf(cred string) string {
	if i := strings.IndexAny(cred, "\r\n"); i >= 0 {
		return cred[:i]
	}
	return cred
}

// TrailingReturnSafe reports whether a credential of this kind may end in a return character
// without changing what the plan means: no prompt of that kind is directly followed by another
// credential prompt (which the extra empty line would answer).
func TrailingReturnSafe(d *Dialogue, kind string) bool {
	for i, s := range d.Steps {
		if s.Kind != kind {
			continue
		}
		for j := i + 1; j < len(d.Steps); j++ {
			switch d.Steps[j].Kind {
			case KBanner:
				continue
			case KUser, KPassword, KPassphrase:
				return false
			}
			break
		}
	}
	return true
}

// checkInputs judges what the device received during Open: credentials only in their own state, at
// most twice each, nothing else but returns, nothing typed at the shell.
func checkInputs(d *Dialogue, devLog []Rec, shellLines []devsim.LineRec, shellPending, pending, devState string) (key, msg string) {
	count := map[string]int{}
	user, password, passphrase := LineOf(d.User), LineOf(d.Password), LineOf(d.Passphrase)
	for _, rec := range devLog {
		if rec.State == StShell || rec.State == StNetconf {
			continue
		}
		var which, wantState string
		switch rec.Line {
		case "":
			continue // a bare return
		case user:
			which, wantState = "user", StWantUser
		case password:
			which, wantState = "password", StWantPass
		case passphrase:
			which, wantState = "passphrase", StWantPhrase
		default:
			return "c10/unexpected-input:" + rec.State, fmt.Sprintf("device received the line %q in state %s: neither a credential nor a return", rec.Line, rec.State)
		}
		if rec.State != wantState {
			return "c10/credential-in-wrong-state:" + which + "@" + rec.State, fmt.Sprintf("the %s was sent while the device was in state %s (device log: %v)", which, rec.State, devLog)
		}
		count[which]++
		if count[which] > 2 {
			return "c10/credential-sent-more-than-twice:" + which, fmt.Sprintf("the %s was sent %d times (device log: %v)", which, count[which], devLog)
		}
	}
	// nothing may have been typed at the shell while Open was running
	for _, l := range shellLines {
		switch l.Line {
		case "":
		case user:
			return "c10/credential-in-wrong-state:user@shell", fmt.Sprintf("the user name was typed at the shell prompt during Open (login log: %v)", devLog)
		case password:
			return "c10/credential-in-wrong-state:password@shell", fmt.Sprintf("the password was typed at the shell prompt during Open (login log: %v)", devLog)
		case passphrase:
			return "c10/credential-in-wrong-state:passphrase@shell", fmt.Sprintf("the passphrase was typed at the shell prompt during Open (login log: %v)", devLog)
		default:
			return "c10/unexpected-input:shell", fmt.Sprintf("the shell received %q during Open", l.Line)
		}
	}
	if shellPending != "" {
		return "c10/unexpected-input:shell", fmt.Sprintf("the shell holds the unterminated input %q after Open", shellPending)
	}
	if pending != "" && devState != StShell && devState != StNetconf {
		return "c10/unexpected-input:partial", fmt.Sprintf("device holds an unterminated input line %q in state %s", pending, devState)
	}
	return "", ""
}

type opErr struct {
	key, msg     string
	inconclusive bool
}

func firstOps(d *Dialogue, s *Session, conn *devsim.Conn, dev *Dev, a *Analysis, info *Info) *opErr {
	opStart := time.Now()
	wantPrompt := strings.TrimSpace(d.Prompt)
	wantOut := devsim.RenderRef(d.Out, d.NL, d.Prompt, true)
	getPrompt := func(tag string) *opErr {
		var p string
		var err error
		if s.ND != nil {
			p, err = s.ND.GetPrompt()
		} else {
			p, err = s.GD.GetPrompt()
		}
		if err != nil {
			if errors.Is(err, util.ErrTimeoutError) && (mon.LoadedSince(opStart) || conn.Delivered() < len(conn.Stream())) {
				return &opErr{inconclusive: true, msg: "first GetPrompt timed out under load"}
			}
			return &opErr{key: "c10/first-getprompt:error", msg: fmt.Sprintf("GetPrompt (%s) after login returned %v", tag, err)}
		}
		if strings.TrimSpace(p) != wantPrompt {
			return &opErr{key: "c10/first-getprompt", msg: fmt.Sprintf("GetPrompt (%s) after login returned %q, device prompt is %q", tag, p, d.Prompt)}
		}
		return nil
	}
	sendCommand := func(tag string) *opErr {
		var opo []util.Option
		if d.Exact {
			opo = append(opo, opoptions.WithExactMatchInput())
		}
		var res string
		var err error
		info.CmdSent = true
		if s.ND != nil {
			r, e := s.ND.SendCommand(d.Cmd, opo...)
			err = e
			if e == nil {
				res = r.Result
			}
		} else {
			r, e := s.GD.SendCommand(d.Cmd, opo...)
			err = e
			if e == nil {
				res = r.Result
			}
		}
		if err != nil {
			if errors.Is(err, util.ErrTimeoutError) && (mon.LoadedSince(opStart) || conn.Delivered() < len(conn.Stream())) {
				return &opErr{inconclusive: true, msg: "first SendCommand timed out under load"}
			}
			return &opErr{key: "c10/first-sendcommand:error", msg: fmt.Sprintf("SendCommand (%s) after login returned %v", tag, err)}
		}
		if res != wantOut {
			return &opErr{key: "c10/first-sendcommand", msg: fmt.Sprintf("SendCommand (%s) after login returned %q, device answered %q", tag, clip(res), clip(wantOut))}
		}
		return nil
	}
	switch d.FirstOp {
	case "sendcommand":
		if e := sendCommand("first"); e != nil {
			return e
		}
		return getPrompt("second")
	case "readall":
		// everything read since the last credential was answered is still there, once, in order
		full := normalise(a.Stream, a.Esc)
		normOff := func(o int) int { return len(normalise(a.Stream[:o], a.Esc)) }
		hi := 0 // the bytes from this normalised offset on must be there
		if a.LastCred[0] >= 0 {
			hi = normOff(a.LastCred[1])
		}
		t0 := time.Now()
		var got []byte
		for {
			b, err := s.Channel().ReadAll()
			if err != nil {
				return &opErr{key: "c10/first-readall:error", msg: fmt.Sprintf("ReadAll after login returned %v", err)}
			}
			got = append(got, b...)
			g := string(got)
			if strings.HasSuffix(full, g) && len(full)-len(g) <= hi {
				break // everything since (at the latest) the end of the last answered prompt, once, in order
			}
			if time.Since(t0) > 3*time.Second {
				if mon.LoadedSince(t0) || conn.Delivered() < len(a.Stream) {
					return &opErr{inconclusive: true, msg: "login bytes not all readable within 3 s under load"}
				}
				if strings.HasSuffix(full, g) || strings.Contains(full[min(hi, len(full)):], g) {
					return &opErr{key: "c10/login-bytes-lost", msg: fmt.Sprintf("after login the channel holds only %q; the device sent %q after the last credential prompt", clip(g), clip(full[hi:]))}
				}
				return &opErr{key: "c10/login-bytes-garbled", msg: fmt.Sprintf("after login the channel holds %q, which is not the tail of what the device sent: %q", clip(g), clip(full))}
			}
			time.Sleep(500 * time.Microsecond)
		}
		if e := getPrompt("after readall"); e != nil {
			return e
		}
		return sendCommand("after readall")
	default:
		if e := getPrompt("first"); e != nil {
			return e
		}
		return sendCommand("second")
	}
}

// RunPair opens the dialogue and then, in the same process on a fresh driver object, d.Then; both
// are judged. The two share a prompt pattern that no other case of the process uses, so which of
// them is the first login under that prompt pattern is fixed by the case, not by scheduling.
func RunPair(d Dialogue) mon.Result {
	second := *d.Then
	d.Then = nil
	var r2 mon.Result
	var r1 mon.Result
	if d.Interleave {
		// open A, open and use B, then use A
		r1, _ = RunDialogue(d, &Hooks{AfterOpen: func() { r2, _ = RunDialogue(second, nil) }})
	} else {
		r1, _ = RunDialogue(d, nil)
	}
	if r1.Verdict != mon.Held {
		if r1.Verdict == mon.Violated {
			r1.Key += ":first-of-pair"
		}
		return r1
	}
	if !d.Interleave {
		r2, _ = RunDialogue(second, nil)
	}
	if r2.Verdict != mon.Held {
		if r2.Verdict == mon.Violated {
			r2.Key += ":second-of-pair"
			r2.Detail = "second login of the process under prompt pattern " + second.PromptPat + "; the first was: " + planString(&d) + "\n" + r2.Detail
		}
		return r2
	}
	obs := map[string]int64{"pairs_same_prompt_pattern": 1}
	if d.Interleave {
		obs["pairs_second_login_before_first_operation"] = 1
	}
	for k, v := range r1.Obs {
		obs[k] += v
	}
	for k, v := range r2.Obs {
		obs[k] += v
	}
	order := "default-then-custom"
	switch {
	case d.HasCustomPatterns() && second.HasCustomPatterns():
		order = "custom-then-custom"
	case d.HasCustomPatterns():
		order = "custom-then-default"
	case !second.HasCustomPatterns():
		order = "default-then-default"
	}
	tags := append(append([]string{"pair=" + order + ":" + d.Auth + "/" + d.Driver}, r1.Tags...), r2.Tags...)
	return mon.Result{Verdict: mon.Held, NonTrivial: r1.NonTrivial || r2.NonTrivial, Obs: obs, Tags: tags,
		Sample: map[string]interface{}{"pair": order, "first": r1.Sample, "second": r2.Sample}}
}

// GenPair draws two dialogues of the same auth type and driver that share a prompt pattern unique
// to the pair (the default pattern with an empty group appended), one or both with custom
// credential patterns.
func GenPair(r *rand.Rand, idx int, seed int64) Dialogue {
	auth := []string{"telnet", "telnet", "ssh"}[idx%3]
	drivers := []string{"generic", "network"}
	if auth == "ssh" {
		drivers = []string{"generic", "network", "netconf"}
	}
	drv := drivers[(idx/3)%len(drivers)]
	order := (idx / 9) % 3 // 0: default then custom, 1: custom then default, 2: custom then custom
	pp := fmt.Sprintf("%s(?:c10pair%ds%d){0}", defaultPromptPattern, idx, seed)
	draw := func(custom int) Dialogue {
		for try := 0; ; try++ {
			d, _ := GenDialogue(r, GenOpts{NoStall: true, Auth: auth, Driver: drv, PromptPat: pp, Custom: custom})
			if a := Analyse(&d); len(a.Log) > 0 || try > 20 {
				return d
			}
		}
	}
	var a, b Dialogue
	switch order {
	case 0:
		a, b = draw(1), draw(2)
	case 1:
		a, b = draw(2), draw(1)
	default:
		a, b = draw(2), draw(2)
	}
	if idx%2 == 1 && drv != "netconf" {
		// the second login happens between the first one's Open and its first operation; the first
		// must log in and its first operation must look at what the login left behind
		for try := 0; try < 40; try++ {
			if an := Analyse(&a); an.PlanClass == OutOK && len(an.Log) > 0 {
				break
			}
			a = draw(map[int]int{0: 1, 1: 2, 2: 2}[order])
		}
		a.Interleave = true
		a.FirstOp = "readall"
	}
	a.Then = &b
	return a
}

// HasNotice reports whether the dialogue has a notice+prompt step delivered uncut.
func HasNotice(d *Dialogue) bool {
	for _, s := range d.Steps {
		if s.Uncut {
			return true
		}
	}
	return false
}

// LongestBanner returns the size of the largest banner step.
func LongestBanner(d *Dialogue) int {
	best := 0
	for _, s := range d.Steps {
		n := 0
		for _, l := range s.Lines {
			n += len(l.S) + len(d.NL)
		}
		if n > best {
			best = n
		}
	}
	return best
}

func min(a, b int) int {
	if a < b {
		return a
	}
	return b
}

func planString(d *Dialogue) string {
	var b strings.Builder
	fmt.Fprintf(&b, "%s/%s:", d.Auth, d.Driver)
	for _, s := range d.Steps {
		switch s.Kind {
		case KBanner:
			fmt.Fprintf(&b, " banner(%d)", len(s.Lines))
		case KUser, KPassword, KPassphrase, KSSHErr:
			fmt.Fprintf(&b, " %s%q", s.Kind, s.Text)
			if s.Then != "" {
				fmt.Fprintf(&b, "+%s%q", s.Then, s.ThenText)
			}
		default:
			b.WriteString(" " + s.Kind)
		}
	}
	if d.StallAt >= 0 {
		fmt.Fprintf(&b, " [stall@%d]", d.StallAt)
	}
	return b.String()
}

// shapeString abbreviates the sequence of prompts up to the deciding step (U P K E + final).
func shapeString(d *Dialogue, a *Analysis) string {
	var b strings.Builder
	for i, s := range d.Steps {
		if i > a.Decisive {
			break
		}
		switch s.Kind {
		case KUser:
			b.WriteByte('U')
		case KPassword:
			b.WriteByte('P')
		case KPassphrase:
			b.WriteByte('K')
		case KSSHErr:
			b.WriteByte('E')
		case KShell:
			b.WriteByte('$')
		case KHello:
			b.WriteByte('H')
		case KSilence:
			b.WriteByte('-')
		}
	}
	return b.String()
}

func init() {
	mon.Register(&mon.Property{
		ID:    "C10",
		Level: "exploration",
		Rule: "PRNG-generated login dialogues (banner lines incl. lines with hazardous prefixes delivered uncut, user/password/passphrase prompts in " +
			"any accepted spelling and order, 0-3 rejections, ssh failure lines, then shell prompt / NETCONF hello / silence) against telnet- and " +
			"ssh-type transports under generic, network and NETCONF drivers, any segmentation, random stall points (thorough: every stall point of 40 dialogues). " +
			"Custom patterns: one dialogue in ten is configured with WithUsernamePattern / WithPasswordPattern / WithPassphrasePattern and a device whose spellings " +
			"(User ID:, Kennwort:, PIN:, Unlock private key ...) only those accept, mixed in the worker processes with default-pattern dialogues; plus pairs (36 quick / 360 thorough): two logins " +
			"opened one after the other in one case under a prompt pattern unique to the pair, default-then-custom, custom-then-default and custom-then-custom, telnet and ssh, all drivers. " +
			"Real transport: 28 (thorough 280) logins through the library's own telnet transport against a loopback TCP device whose line input takes CR LF as one enter, CR and LF each as an enter, or LF only (crossed with the return chars that are exactly one enter for it), with option negotiation and 0-1 refusals. " +
			"Non-trivial = the dialogue has a credential prompt, an ssh failure line or a stall, and was delivered in >= 2 reads. Distinct = descriptor hash.",
		Assumptions: []string{
			"the device is causal (a step's bytes exist only after the previous credential line arrived), never echoes secrets, echoes the user name optionally",
			"no cut position of a banner line, of the remainder of an answered prompt (+ echo) or of command output leaves a last line that one of the session's patterns (taken from a constructed driver) or the ssh failure scan accepts: checked by brute force per line; lines accepted as a whole are resampled, lines with a hazardous proper prefix are resampled or delivered uncut (protected span); stall points never fall inside such a span",
			"each prompt text is accepted by exactly one of the session's patterns at every cut position",
			"decoy lines (a line the OTHER credential's pattern accepts, in the same read as the real prompt) are generated only where a client that looks for the prompts in the library's documented order is not misled: telnet 'password:'-line + user-name prompt, ssh 'enter passphrase for key'-line + password prompt, same-kind notices; the reverse placements and a decoy ending a read of its own mislead any pattern-matching client (the unchanged library too) and are excluded like every ambiguous prefix",
			"banner lines are shorter than the prompt search depth (<= 110 bytes, depth >= 300)",
			"user name, password and passphrase are distinct strings without return characters; each may be unconfigured (empty; ssh type optionally with a private key path): a prompt for it is then answered with an empty line, which the oracle treats like any return; outcome, bound, closing and pairing are judged exactly as with configured credentials",
			"lines that merely contain a credential word and end in another colon (\"Password policy: ... contact:\") are ordinary text for the default patterns and are generated under any segmentation",
			"outcome 'timeout' uses TimeoutOps 300 ms; all other plans 4 s, so load cannot turn them into timeouts; a timeout against expectation counts only if the transport had delivered the deciding byte and the load canary is healthy",
			"the first command ends in '!' which occurs nowhere else in the stream",
			"prompt spellings cover the language the default patterns accept: 'username:' anywhere in a line with any text or blanks after it, a line ending in 'login:'/'password:' plus at most one white-space character (blank or tab) with any text before, 'enter passphrase for key' anywhere in a line",
			"in one dialogue of six the transport's Close closes the connection but returns an error; the error class of a failed login is judged the same",
			"connection loss: Open must fail unless the deciding bytes of a successful login had been delivered before the loss (then the first operation may fail or must succeed completely); 'promptly' = within 1.5 s at TimeoutOps 4 s, read delay <= 250 us, judged only with a healthy load canary",
		},
		Gen: func(tier string, seed int64) []mon.Case {
			n := 500
			if tier == "thorough" {
				n = 20000
			}
			r := rand.New(rand.NewSource(seed*104729 + 10))
			cs := make([]mon.Case, 0, n)
			var short []Dialogue
			lossSample := map[string]Dialogue{}
			var lossOrder []string
			for i := 0; i < n; i++ {
				d, _ := GenDialogue(r, GenOpts{})
				cs = append(cs, mon.MkCase(fmt.Sprintf("c10/%05d", i), d))
				if d.StallAt < 0 && len(lossOrder) < 10 {
					// connection-loss sample: per (auth type, driver) one dialogue that logs in and one that does not
					if a := Analyse(&d); len(a.Stream) > 20 && len(a.Stream) <= 220 && len(a.Log) > 0 {
						k := fmt.Sprintf("%s/%s/%v", d.Auth, d.Driver, a.PlanClass == OutOK)
						if _, ok := lossSample[k]; !ok {
							lossSample[k] = d
							lossOrder = append(lossOrder, k)
						}
					}
				}
				if tier == "thorough" && len(short) < 40 && d.StallAt < 0 && i%7 == 0 {
					if a := Analyse(&d); len(a.Stream) > 20 && len(a.Stream) <= 260 && (a.PlanClass != OutTimeout) {
						short = append(short, d)
					}
				}
			}
			for i, d := range Sweep(r) {
				cs = append(cs, mon.MkCase(fmt.Sprintf("c10/sweep/%03d", i), d))
			}
			pairs := 36
			if tier == "thorough" {
				pairs = 360
			}
			for i := 0; i < pairs; i++ {
				cs = append(cs, mon.MkCase(fmt.Sprintf("c10/pair/%03d", i), GenPair(r, i, seed)))
			}
			nlo := 28
			if tier == "thorough" {
				nlo = 280
			}
			for i := 0; i < nlo; i++ {
				lo := GenLo(r, i)
				cs = append(cs, mon.MkCase(fmt.Sprintf("c10/telnet-transport/%03d", i), Dialogue{Lo: &lo}))
			}
			lossStep := 3
			var lossDs []Dialogue
			for _, k := range lossOrder {
				lossDs = append(lossDs, lossSample[k])
			}
			if tier == "thorough" {
				lossStep = 1
				lossDs = append(lossDs, short...)
			}
			for k, d := range lossDs {
				for _, e := range LossCases(d, lossStep, k) {
					cs = append(cs, mon.MkCase(fmt.Sprintf("c10/loss/%02d/%s/%04d", k, e.Loss, e.LossAt), e))
				}
			}
			for k, d := range short {
				a := Analyse(&d)
				for _, off := range a.AllowedCuts() {
					e := d
					e.StallAt = off
					e.FirstOp = "getprompt"
					Finish(&e)
					cs = append(cs, mon.MkCase(fmt.Sprintf("c10/stall/%02d/%04d", k, off), e))
				}
			}
			return cs
		},
		Run: func(c mon.Case) mon.Result {
			var d Dialogue
			c.Decode(&d)
			// a verdict that load made inconclusive is retried (the verdict itself is never relaxed)
			var r mon.Result
			for attempt := 0; attempt < 3; attempt++ {
				switch {
				case d.Loss != "":
					r = RunLoss(d)
				case d.Lo != nil:
					r, _ = RunTelnetLo(*d.Lo, nil)
				case d.Then != nil:
					r = RunPair(d)
				default:
					r, _ = RunDialogue(d, nil)
				}
				if r.Verdict != mon.Inconclusive {
					break
				}
			}
			return r
		},
		Workers:     func(string) int { return 8 },
		Parallel:    func(string) int { return 6 },
		CaseTimeout: 120 * time.Second,
		Procs: func(tier string, shard int) int {
			return []int{2, 4}[shard%2]
		},
	})
}
