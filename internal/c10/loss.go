package c10

import (
	"errors"
	"fmt"
	"net"
	"os"
	"strings"
	"syscall"
	"time"

	"github.com/scrapli/scrapligo/driver/opoptions"

	"verif/internal/devsim"
	"verif/internal/mon"
)

// LossCases enumerates the connection-loss cases of one dialogue: after every step-th byte of the
// exchange (as the ideal client produces it) for each read-fault kind, and at every write the
// fault-free run makes during Open.
func LossCases(d Dialogue, step, phase int) []Dialogue {
	d.StallAt = -1
	d.FirstOp = "getprompt"
	if d.ReadDelay > 250 {
		d.ReadDelay = 250
	}
	Finish(&d)
	d.TimeoutMS = 4000
	a := Analyse(&d)
	writes := 2 * len(a.Log)
	if a.PlanClass == OutOK && d.Driver == "netconf" {
		writes += 2 // the client hello and its return
	}
	var out []Dialogue
	for k := phase % step; k <= len(a.Stream); k += step {
		inside := false
		for _, p := range a.Prot {
			if k > p[0] && k < p[1] {
				inside = true
			}
		}
		if inside {
			continue
		}
		for _, kind := range []string{"eof", "err", "err-timedout"} {
			e := d
			e.Loss, e.LossAt = kind, k
			out = append(out, e)
		}
	}
	for w := 1; w <= writes; w++ {
		e := d
		e.Loss, e.LossAt = "write", w
		out = append(out, e)
	}
	return out
}

// RunLoss drives a dialogue whose connection is lost and judges: Open fails (promptly) unless the
// login had already been decided as admitted; the transport is closed whenever Open failed; no
// credential went to the wrong state before the loss; an explicit Close after the failed Open neither
// panics nor hangs.
func RunLoss(d Dialogue) mon.Result {
	a := Analyse(&d)
	dev := d.NewDevice()
	cfg := devsim.Config{Seg: d.Seg, KeepData: true, AuthType: d.Auth}
	switch d.Loss {
	case "eof":
		cfg.Fault, cfg.FaultAt = devsim.FaultEOF, d.LossAt
	case "err":
		cfg.Fault, cfg.FaultAt = devsim.FaultErr, d.LossAt
	case "err-timedout":
		cfg.Fault, cfg.FaultAt = devsim.FaultErr, d.LossAt
		cfg.ErrValue = &net.OpError{Op: "read", Net: "tcp", Err: os.NewSyscallError("read", syscall.ETIMEDOUT)}
	case "write":
		cfg.WriteErrN = d.LossAt
	}
	conn := devsim.NewConn(dev, cfg)
	defer conn.Abandon()
	ac := &devsim.AuthConn{Conn: conn, SSH: d.SSHArgs()}
	s, err := NewSession(&d, ac, nil)
	if err != nil {
		return mon.Result{Verdict: mon.Violated, Key: "c10/constructor-failed", Detail: err.Error()}
	}
	what := fmt.Sprintf("%s at %d", d.Loss, d.LossAt)
	bad := func(key, f string, x ...interface{}) mon.Result {
		return mon.Result{Verdict: mon.Violated, Key: key, Detail: fmt.Sprintf("connection loss (%s), plan: %s (deciding offset %d)\n", what, planString(&d), a.Need) + fmt.Sprintf(f, x...),
			Events: tail(conn.Log(), 80), NonTrivial: true}
	}
	t0 := time.Now()
	err = s.Open()
	elapsed := time.Since(t0)
	closedAtReturn := conn.CloseCalls()
	var devLog []Rec
	var pending, devState, shellPending string
	var shellLines []devsim.LineRec
	conn.Do(func() {
		devLog = append([]Rec(nil), dev.Log...)
		pending, devState = dev.Pending(), dev.StateNow()
		if dev.CLI != nil {
			shellLines = append(shellLines, dev.CLI.Lines...)
			shellPending = dev.CLI.InputLine()
		}
	})
	if d.Loss == "write" && pending != "" && pending == d.credential(devState) {
		pending = "" // the credential arrived, the write of its return failed
	}
	if key, msg := checkInputs(&d, devLog, shellLines, shellPending, pending, devState); key != "" {
		return bad(key, "%s", msg)
	}
	okLog := len(devLog) <= len(a.Log)
	for i := 0; okLog && i < len(devLog); i++ {
		okLog = devLog[i].State == a.Log[i].State && devLog[i].Line == a.Log[i].Line
	}
	if !okLog {
		return bad("c10/device-log-mismatch:loss", "device received %v, the dialogue allows a prefix of %v", devLog, a.Log)
	}
	got := classOf(err)
	obs := map[string]int64{"loss_cases": 1, "loss_open_" + got: 1}
	tags := []string{"loss=" + d.Loss, "loss-outcome=" + got, "auth=" + d.Auth, "drv=" + d.Driver}
	held := func() mon.Result {
		return mon.Result{Verdict: mon.Held, NonTrivial: true, Obs: obs, Tags: tags,
			Sample: map[string]interface{}{"plan": planString(&d), "loss": what, "open": fmt.Sprint(err), "elapsed_ms": elapsed.Milliseconds(), "close_calls": closedAtReturn}}
	}
	if err == nil {
		decided := a.PlanClass == OutOK && d.Loss != "write" && d.LossAt >= a.Need
		if !decided {
			return bad("c10/outcome:loss-got-ok:"+d.Auth, "Open returned nil although the connection was lost before the login could be decided (delivered %d bytes)", conn.Delivered())
		}
		// the dialogue had completed: the first operation fails, or succeeds completely
		defer s.Close()
		if d.Driver == "netconf" {
			r, e := s.NC.Get("<c10/>", opoptions.WithTimeoutOps(2*time.Second))
			if e == nil && !strings.Contains(r.Result, "<c10>"+d.SessionID+"</c10>") {
				return bad("c10/first-rpc-after-loss", "first Get returned %q without error", clip(r.Result))
			}
			obs["loss_after_login_first_op_checked"] = 1
			return held()
		}
		p, e := s.GD.GetPrompt()
		if e == nil && strings.TrimSpace(p) != strings.TrimSpace(d.Prompt) {
			return bad("c10/first-getprompt-after-loss", "GetPrompt returned %q without error, device prompt is %q", p, d.Prompt)
		}
		obs["loss_after_login_first_op_checked"] = 1
		return held()
	}
	if elapsed > 1500*time.Millisecond {
		if mon.LoadedSince(t0) {
			return mon.Result{Verdict: mon.Inconclusive, Detail: "failure after connection loss reported late under load"}
		}
		return bad("c10/loss-not-prompt:"+d.Loss, "Open returned %v only after %s", err, elapsed)
	}
	if closedAtReturn < 1 {
		return bad("c10/transport-not-closed:"+d.Loss+"-during-login", "Open returned %v but Close was never called on the transport", err)
	}
	// An explicit Close after the failed Open is outside the property (it speaks of the transport being
	// closed, which was just checked), so what it does is recorded as an observation only. The NETCONF
	// driver is skipped: its Close signals a read loop that a failed Open never started and blocks for good
	// (DESIGN.md 7.2, observations).
	if s.NC == nil {
		done := make(chan interface{}, 1)
		go func() {
			defer func() { done <- recover() }()
			if s.ND != nil {
				s.ND.Close()
			} else {
				s.GD.Close()
			}
		}()
		select {
		case x := <-done:
			if x != nil {
				tags = append(tags, "close-after-failed-open=panic(observation)")
			} else {
				tags = append(tags, "close-after-failed-open=returned")
			}
		case <-time.After(2 * time.Second):
			tags = append(tags, "close-after-failed-open=slow(observation)")
		}
	}
	if errors.Is(err, os.ErrDeadlineExceeded) {
		tags = append(tags, "loss-error=deadline")
	}
	return held()
}
