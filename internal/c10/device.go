package c10

import (
	"verif/internal/devsim"
	"verif/internal/ncsim"
)

// Rec is one line the login device received, with the state it was in.
type Rec struct {
	State string `json:"state"`
	Line  string `json:"line"`
	Seq   int64  `json:"seq"`
}

// Device states.
const (
	StStart      = "start"
	StWantUser   = "want-user"
	StWantPass   = "want-password"
	StWantPhrase = "want-passphrase"
	StShell      = "shell"
	StNetconf    = "netconf"
	StSilent     = "silent"
	StDead       = "dead" // the ssh client printed a failure and is gone
)

func stateFor(kind string) string {
	switch kind {
	case KUser:
		return StWantUser
	case KPassword:
		return StWantPass
	case KPassphrase:
		return StWantPhrase
	}
	return StSilent
}

// Dev is the login device: a state machine over the plan. It is causal: a step's bytes are generated
// only once the previous credential line (terminated by a return) has arrived. It never echoes
// secrets; it echoes the user name if EchoUser.
type Dev struct {
	Steps    []Step
	NL       string
	EchoUser bool
	CLI      *devsim.CLI   // shell after login (CLI drivers)
	NC       *ncsim.Server // NETCONF server after login

	Log     []Rec
	StepOff []int    // stream offset at which each step's output starts (-1 = not reached)
	StepEnd []int    // stream offset at which each step's output ended
	Prot    [][2]int // protected spans emitted so far (escape sequences and uncut lines)
	Esc     [][2]int // the escape sequences among them

	step   int
	state  string
	line   []byte
	lastCR bool
}

// NewDev builds a device.
func NewDev(steps []Step, nl string, echoUser bool, cli *devsim.CLI, nc *ncsim.Server) *Dev {
	d := &Dev{Steps: steps, NL: nl, EchoUser: echoUser, CLI: cli, NC: nc, state: StStart}
	d.StepOff = make([]int, len(steps))
	d.StepEnd = make([]int, len(steps))
	for i := range d.StepOff {
		d.StepOff[i], d.StepEnd[i] = -1, -1
	}
	return d
}

// State implements devsim.Device.
func (d *Dev) State() string { return d.state }

// StateNow is State for harness use (call inside conn.Do or when the conn is quiet).
func (d *Dev) StateNow() string { return d.state }

// Pending returns the bytes typed on the current, unfinished line.
func (d *Dev) Pending() string { return string(d.line) }

// Start implements devsim.Device.
func (d *Dev) Start(c *devsim.Conn) { d.advance(c) }

func (d *Dev) advance(c *devsim.Conn) {
	for d.step < len(d.Steps) {
		s := d.Steps[d.step]
		d.StepOff[d.step] = c.Generated()
		stop := false
		switch s.Kind {
		case KBanner:
			for _, l := range s.Lines {
				if l.Esc != "" {
					st := c.Generated()
					c.EmitProtected([]byte(l.Esc))
					d.Prot = append(d.Prot, [2]int{st, c.Generated()})
					d.Esc = append(d.Esc, [2]int{st, c.Generated()})
				}
				if l.Prot {
					st := c.Generated()
					c.EmitProtected([]byte(l.S + d.NL))
					d.Prot = append(d.Prot, [2]int{st, c.Generated()})
				} else {
					c.Emit([]byte(l.S + d.NL))
				}
			}
		case KSSHErr:
			if s.Then != "" {
				st := c.Generated()
				c.EmitProtected([]byte(s.Text + d.NL + s.ThenText))
				d.Prot = append(d.Prot, [2]int{st, c.Generated()})
				if s.Then == KShell && d.CLI != nil {
					d.state = StShell
					d.CLI.NoInitialPrompt = true
					d.CLI.Start(c)
				} else {
					d.state = stateFor(s.Then)
				}
			} else {
				c.Emit([]byte(s.Text + d.NL))
				d.state = StDead
			}
			stop = true
		case KUser, KPassword, KPassphrase:
			if s.Uncut {
				st := c.Generated()
				c.EmitProtected([]byte(s.Text))
				d.Prot = append(d.Prot, [2]int{st, c.Generated()})
			} else {
				c.Emit([]byte(s.Text))
			}
			d.state = stateFor(s.Kind)
			stop = true
		case KShell:
			d.state = StShell
			d.CLI.Start(c)
			stop = true
		case KHello:
			d.state = StNetconf
			d.NC.Start(c)
			stop = true
		case KSilence:
			d.state = StSilent
			stop = true
		}
		d.StepEnd[d.step] = c.Generated()
		if stop {
			return
		}
		d.step++
	}
	d.state = StSilent
}

// Input implements devsim.Device.
func (d *Dev) Input(c *devsim.Conn, b []byte) {
	for i := 0; i < len(b); i++ {
		ch := b[i]
		if ch == '\n' && d.lastCR {
			d.lastCR = false
			continue // second half of a CRLF return
		}
		d.lastCR = false
		switch d.state {
		case StShell:
			d.CLI.Input(c, b[i:])
			return
		case StNetconf:
			d.NC.Input(c, b[i:])
			return
		}
		if ch == '\n' || ch == '\r' {
			d.lastCR = ch == '\r'
			line := string(d.line)
			d.line = d.line[:0]
			d.Log = append(d.Log, Rec{State: d.state, Line: line, Seq: c.SeqLocked()})
			switch d.state {
			case StWantUser, StWantPass, StWantPhrase:
				c.Emit([]byte(d.NL))
				d.StepEnd[d.step] = c.Generated()
				d.step++
				d.advance(c)
			}
			continue
		}
		d.line = append(d.line, ch)
		if d.state == StWantUser && d.EchoUser {
			c.Emit([]byte{ch})
		}
	}
}
