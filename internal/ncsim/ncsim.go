// Package ncsim is the NETCONF server model: a devsim.Device that sends a hello, strictly decodes
// everything the client writes (hello in end-of-message framing, then the negotiated framing) and
// answers under the control of the harness.
package ncsim

import (
	"bytes"
	"fmt"
	"regexp"
	"strconv"

	"verif/internal/devsim"
	"verif/internal/ncwire"
)

// Msg is one message received from the client.
type Msg struct {
	Index     int    `json:"index"` // 0 = client hello
	Hello     bool   `json:"hello,omitempty"`
	Raw       []byte `json:"-"`       // the exact wire bytes that carried it (framing included)
	Payload   []byte `json:"payload"` // strictly decoded
	WireStart int    `json:"wire_start"`
	WireEnd   int    `json:"wire_end"`
	ID        int    `json:"id"`                // message-id attribute (0 if none)
	DelivAt   int    `json:"deliv_at"`          // bytes delivered to the client when the message completed
	SeqAt     int64  `json:"seq_at"`            // conn sequence number when the message completed
	Framing   string `json:"framing"`           // "eom" | "chunked"
	PreGap    []byte `json:"pre_gap,omitempty"` // bytes between the previous message and this one (returns)
}

// Server is the model.
type Server struct {
	// HelloBytes is sent at open, verbatim (framing included), followed by a message mark.
	HelloBytes []byte
	// Version is the framing used after the hellos: "1.0" or "1.1". If empty it is derived from the
	// client hello (1.1 iff the client advertises base:1.1).
	Version string
	// Echo makes the server echo every byte the client writes (like a pty with echo on).
	Echo bool
	// NoEchoMark: do not put a message mark after an echoed request, so that one transport read may
	// carry the tail of the echo together with (the beginning of, or the whole of) the reply. The
	// echo is the client's own request, not a server message.
	NoEchoMark bool
	// OnMsg is called (conn mutex held) for every complete client message.
	OnMsg func(s *Server, c *devsim.Conn, m *Msg)

	Msgs     []*Msg
	ProtoErr string // first strict decoding error of the client's stream
	Wire     []byte // everything the client wrote

	buf    []byte
	bufOff int // wire offset of buf[0]
	gap    []byte
}

var idRe = regexp.MustCompile(`message-id="(\d+)"`)

// State implements devsim.Device.
func (s *Server) State() string { return fmt.Sprintf("msgs=%d v=%s", len(s.Msgs), s.Version) }

// Start implements devsim.Device.
func (s *Server) Start(c *devsim.Conn) {
	if len(s.HelloBytes) > 0 {
		c.Emit(s.HelloBytes)
		c.Mark()
	}
}

// Input implements devsim.Device.
func (s *Server) Input(c *devsim.Conn, b []byte) {
	s.Wire = append(s.Wire, b...)
	if s.Echo {
		c.Emit(b)
	}
	s.buf = append(s.buf, b...)
	for s.ProtoErr == "" {
		if !s.step(c) {
			break
		}
	}
}

func (s *Server) step(c *devsim.Conn) bool {
	helloDone := len(s.Msgs) > 0
	if !helloDone || s.Version == "1.0" {
		// between 1.0 messages the client writes returns
		i := 0
		for i < len(s.buf) && (s.buf[i] == '\n' || s.buf[i] == '\r') {
			i++
		}
		if i > 0 {
			s.gap = append(s.gap, s.buf[:i]...)
			s.buf = s.buf[i:]
			s.bufOff += i
		}
		p, n, err := ncwire.DecodeEOMStrict(s.buf)
		if err == ncwire.ErrIncomplete {
			return false
		}
		s.deliver(c, p, n, "eom", !helloDone)
		return true
	}
	// 1.1: the LF that starts a message is the return written after the previous one; one more
	// stray LF (the second return written after a 1.1 message) may precede it.
	if len(s.buf) >= 2 && s.buf[0] == '\n' && s.buf[1] == '\n' {
		s.gap = append(s.gap, '\n')
		s.buf = s.buf[1:]
		s.bufOff++
	}
	if len(s.buf) < 2 {
		return false
	}
	p, n, err := ncwire.DecodeChunkedStrict(s.buf)
	if err == ncwire.ErrIncomplete {
		return false
	}
	if err != nil {
		s.ProtoErr = fmt.Sprintf("after %d messages, wire offset %d: %v", len(s.Msgs), s.bufOff, err)
		return false
	}
	s.deliver(c, p, n, "chunked", false)
	return true
}

func (s *Server) deliver(c *devsim.Conn, p []byte, n int, framing string, hello bool) {
	m := &Msg{Index: len(s.Msgs), Hello: hello, Raw: append([]byte(nil), s.buf[:n]...), Payload: p,
		WireStart: s.bufOff, WireEnd: s.bufOff + n, DelivAt: c.DeliveredLocked(), SeqAt: c.SeqLocked(), Framing: framing, PreGap: s.gap}
	s.gap = nil
	if mm := idRe.FindSubmatch(p); mm != nil {
		m.ID, _ = strconv.Atoi(string(mm[1]))
	}
	s.buf = s.buf[n:]
	s.bufOff += n
	s.Msgs = append(s.Msgs, m)
	if hello && s.Version == "" {
		if bytes.Contains(p, []byte("urn:ietf:params:netconf:base:1.1")) {
			s.Version = "1.1"
		} else {
			s.Version = "1.0"
		}
	}
	if s.Echo && !s.NoEchoMark {
		c.Mark() // by default an echoed request is delivered apart from what follows
	}
	if s.OnMsg != nil {
		s.OnMsg(s, c, m)
	}
}

// Leftover returns client bytes not (yet) decoded into a message.
func (s *Server) Leftover() []byte { return append([]byte(nil), s.buf...) }

// Send emits one server message (payload framed per s.Version; chunk sizes optional) followed by
// a message mark. Call with the conn mutex held (from OnMsg, or inside conn.Do).
func (s *Server) Send(c *devsim.Conn, payload []byte, sizes []int) {
	if s.Version == "1.1" {
		c.Emit(ncwire.EncodeChunked(payload, sizes))
	} else {
		c.Emit(ncwire.EncodeEOM(payload))
		c.Emit([]byte("\n"))
	}
	c.Mark()
}

// SendRaw emits raw bytes as one server message.
func (s *Server) SendRaw(c *devsim.Conn, raw []byte) {
	c.Emit(raw)
	c.Mark()
}

// Reply builds a standard rpc-reply payload.
func Reply(id int, body string) []byte {
	return []byte(fmt.Sprintf(`<rpc-reply xmlns="urn:ietf:params:xml:ns:netconf:base:1.0" message-id="%d">%s</rpc-reply>`, id, body))
}

// Hello builds a server hello (1.0 framing included) with the given capabilities.
func Hello(caps []string, sessionID string) []byte {
	var b bytes.Buffer
	b.WriteString(`<?xml version="1.0" encoding="UTF-8"?>` + "\n" + `<hello xmlns="urn:ietf:params:xml:ns:netconf:base:1.0">` + "\n<capabilities>\n")
	for _, c := range caps {
		b.WriteString("<capability>" + c + "</capability>\n")
	}
	b.WriteString("</capabilities>\n")
	if sessionID != "" {
		b.WriteString("<session-id>" + sessionID + "</session-id>\n")
	}
	b.WriteString("</hello>" + ncwire.EOM)
	return b.Bytes()
}

const (
	Cap10 = "urn:ietf:params:netconf:base:1.0"
	Cap11 = "urn:ietf:params:netconf:base:1.1"
)
