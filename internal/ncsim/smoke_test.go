package ncsim_test

import (
	"strings"
	"testing"
	"time"

	"github.com/scrapli/scrapligo/driver/netconf"
	"github.com/scrapli/scrapligo/driver/opoptions"
	"github.com/scrapli/scrapligo/driver/options"

	"verif/internal/devsim"
	"verif/internal/ncsim"
)

// Example of driving the real NETCONF driver against the server model.
func TestSmoke(t *testing.T) {
	for _, ver := range []string{"1.0", "1.1"} {
		for _, echo := range []bool{false, true} {
			caps := []string{ncsim.Cap10}
			if ver == "1.1" {
				caps = append(caps, ncsim.Cap11)
			}
			srv := &ncsim.Server{HelloBytes: ncsim.Hello(caps, "42"), Echo: echo}
			srv.OnMsg = func(s *ncsim.Server, c *devsim.Conn, m *ncsim.Msg) {
				if m.Hello {
					return
				}
				p := ncsim.Reply(m.ID, "<data><x>héllo # 12\n##x</x></data>")
				s.Send(c, p, []int{5, len(p) - 5})
			}
			conn := devsim.NewConn(srv, devsim.Config{Seg: devsim.Seg{Mode: "fixed", Size: 7, Seed: 1}, KeepData: true})
			d, err := netconf.NewDriver("h", options.WithCustomTransport(conn), options.WithTimeoutOps(3*time.Second))
			if err != nil {
				t.Fatal(err)
			}
			if err := d.Open(); err != nil {
				t.Fatal(ver, echo, err)
			}
			for i := 0; i < 3; i++ {
				r, err := d.Get("<a/>", opoptions.WithTimeoutOps(2*time.Second))
				if err != nil {
					t.Fatalf("v=%s echo=%v get %d: %v (proto=%q)", ver, echo, i, err, srv.ProtoErr)
				}
				if r.Failed != nil || !strings.Contains(r.Result, "héllo # 12\n##x") {
					t.Fatalf("v=%s echo=%v: result %q failed=%v", ver, echo, r.Result, r.Failed)
				}
			}
			if srv.ProtoErr != "" || len(srv.Msgs) != 4 || d.SelectedVersion != ver || d.SessionID() != 42 {
				t.Fatalf("v=%s: proto=%q msgs=%d sel=%s sid=%d", ver, srv.ProtoErr, len(srv.Msgs), d.SelectedVersion, d.SessionID())
			}
			d.Close()
			conn.Abandon()
		}
	}
}
