package c19

import (
	"bytes"
	"errors"
	"fmt"
	"io"
	"log"
	"math/rand"
	"os"
	"path/filepath"
	"reflect"
	"regexp"
	"strings"
	"sync"
	"time"

	"github.com/scrapli/scrapligo/driver/generic"
	"github.com/scrapli/scrapligo/driver/network"
	"github.com/scrapli/scrapligo/driver/options"
	"github.com/scrapli/scrapligo/logging"
	"github.com/scrapli/scrapligo/transport"
	"github.com/scrapli/scrapligo/util"
)

// ---------------------------------------------------------------------------------------------
// descriptors

// Opt is one option call, fully spelled out (pool members are referred to by index).
type Opt struct {
	N  string   `json:"o"`
	I  int      `json:"i,omitempty"`
	S  string   `json:"s,omitempty"`
	S2 string   `json:"s2,omitempty"`
	L  []string `json:"l,omitempty"`
	D  int64    `json:"d,omitempty"` // duration, ns
}

// ---------------------------------------------------------------------------------------------
// pools of identity-carrying values (fresh per list)

type nullImpl struct{ id int }

func (*nullImpl) Open(*transport.Args) error { return errors.New("c19: never opened") }
func (*nullImpl) Close() error               { return nil }
func (*nullImpl) IsAlive() bool              { return false }
func (*nullImpl) Read(int) ([]byte, error)   { return nil, io.EOF }
func (*nullImpl) Write([]byte) error         { return nil }

// collector is the user's logger function target; loggers are called from fresh goroutines.
type collector struct {
	mu   sync.Mutex
	msgs []string
}

func (c *collector) log(a ...interface{}) {
	c.mu.Lock()
	c.msgs = append(c.msgs, fmt.Sprint(a...))
	c.mu.Unlock()
}

func (c *collector) has(sub string) bool {
	c.mu.Lock()
	defer c.mu.Unlock()
	for _, m := range c.msgs {
		if strings.Contains(m, sub) {
			return true
		}
	}
	return false
}

func (c *collector) all() []string {
	c.mu.Lock()
	defer c.mu.Unlock()
	return append([]string(nil), c.msgs...)
}

type pools struct {
	loggers [3]*logging.Instance
	coll    [3]*collector
	writers [3]*bytes.Buffer
	impls   [4]transport.Implementation           // 0,1 null; 2 a user-made *transport.File; 3 nil
	privs   [4]map[string]*network.PrivilegeLevel // 3: an empty map (no levels)
	home    string                                // the HOME this list runs under
}

// distinct top-level functions: identity is the code pointer
func onOpen0(*generic.Driver) error     { return errors.New("onOpen0") }
func onOpen1(*generic.Driver) error     { return errors.New("onOpen1") }
func onOpen2(*generic.Driver) error     { return errors.New("onOpen2") }
func onClose0(*generic.Driver) error    { return errors.New("onClose0") }
func onClose1(*generic.Driver) error    { return errors.New("onClose1") }
func onClose2(*generic.Driver) error    { return errors.New("onClose2") }
func netOnOpen0(*network.Driver) error  { return errors.New("netOnOpen0") }
func netOnOpen1(*network.Driver) error  { return errors.New("netOnOpen1") }
func netOnOpen2(*network.Driver) error  { return errors.New("netOnOpen2") }
func netOnClose0(*network.Driver) error { return errors.New("netOnClose0") }
func netOnClose1(*network.Driver) error { return errors.New("netOnClose1") }
func netOnClose2(*network.Driver) error { return errors.New("netOnClose2") }
func fmtA(l, m string) string           { return "A|" + l + "|" + m }
func fmtB(l, m string) string           { return "B|" + l + "|" + m }
func pickG(i int) func(*generic.Driver) error {
	return []func(*generic.Driver) error{onOpen0, onOpen1, onOpen2, nil}[i&3]
}
func pickGC(i int) func(*generic.Driver) error {
	return []func(*generic.Driver) error{onClose0, onClose1, onClose2, nil}[i&3]
}
func pickN(i int) func(*network.Driver) error {
	return []func(*network.Driver) error{netOnOpen0, netOnOpen1, netOnOpen2, nil}[i&3]
}
func pickNC(i int) func(*network.Driver) error {
	return []func(*network.Driver) error{netOnClose0, netOnClose1, netOnClose2, nil}[i&3]
}

// privilege level maps (patterns contain no '|': the network constructor joins them with '|' in
// map order, the comparison sorts the alternatives)
func privPool(k int) map[string]*network.PrivilegeLevel {
	exec := &network.PrivilegeLevel{Name: "exec", Pattern: `(?im)^[a-z\d.\-@()/:]{1,48}>\s*$`}
	priv := &network.PrivilegeLevel{Name: "privilege-exec", Pattern: `(?im)^[a-z\d.\-@/:]{1,48}#\s*$`, PreviousPriv: "exec",
		Escalate: "enable", Deescalate: "disable", EscalateAuth: true, EscalatePrompt: `(?im)^password:\s*$`}
	conf := &network.PrivilegeLevel{Name: "configuration", Pattern: `(?im)^[a-z\d.\-@/:]{1,48}\(config[a-z\d.\-@/:]{0,32}\)#\s*$`,
		NotContains: []string{"tcl)"}, PreviousPriv: "privilege-exec", Escalate: "configure terminal", Deescalate: "end"}
	if k == 3 {
		return map[string]*network.PrivilegeLevel{}
	}
	switch k % 3 {
	case 0:
		return map[string]*network.PrivilegeLevel{"exec": exec}
	case 1:
		return map[string]*network.PrivilegeLevel{"exec": exec, "privilege-exec": priv}
	}
	return map[string]*network.PrivilegeLevel{"exec": exec, "privilege-exec": priv, "configuration": conf}
}

func newPools(home string) *pools {
	p := &pools{home: home}
	for k := range p.loggers {
		c := &collector{}
		p.coll[k] = c
		l, _ := logging.NewInstance(logging.WithLevel("debug"), logging.WithLogger(c.log))
		p.loggers[k] = l
		p.writers[k] = &bytes.Buffer{}
		p.privs[k] = privPool(k)
	}
	p.privs[3] = privPool(3)
	p.impls[0] = &nullImpl{0}
	p.impls[1] = &nullImpl{1}
	p.impls[2] = &transport.File{}
	p.impls[3] = nil
	return p
}

// ---------------------------------------------------------------------------------------------
// scratch HOME variants (ssh config / known-hosts resolution is part of the options' behaviour)
//
//	A: ~/.ssh/config and ~/.ssh/known_hosts exist, plus ~/cfgA, ~/khA
//	B: empty home (system-wide files in /etc/ssh decide), plus nothing else
//	C: only ~/.ssh/known_hosts, plus ~/cfgA, ~/khA
var homeRoot string

func setupHomes() error {
	homeRoot = filepath.Join(os.Getenv("VERIF_DIR"), ".work", fmt.Sprintf("c19-home-%d", os.Getpid()))
	if os.Getenv("VERIF_DIR") == "" {
		homeRoot = filepath.Join("/verif", ".work", fmt.Sprintf("c19-home-%d", os.Getpid()))
	}
	for _, f := range []string{"A/.ssh/config", "A/.ssh/known_hosts", "A/cfgA", "A/khA", "C/.ssh/known_hosts", "C/cfgA", "C/khA", "B/.keep"} {
		p := filepath.Join(homeRoot, f)
		if err := os.MkdirAll(filepath.Dir(p), 0o755); err != nil {
			return err
		}
		if err := os.WriteFile(p, []byte("# c19 scratch\n"), 0o644); err != nil {
			return err
		}
	}
	return nil
}

func teardownHomes() {
	if homeRoot != "" {
		os.RemoveAll(homeRoot)
	}
}

func exists(p string) bool { _, err := os.Stat(p); return err == nil }

// resolveRef is the reference of the documented file resolution: the path as given if it exists,
// else (a leading "~/" removed) relative to the home directory; else not found.
func resolveRef(home, s string) (string, bool) {
	if exists(s) {
		return s, true
	}
	h := home + "/" + strings.TrimPrefix(s, "~/")
	if exists(h) {
		return h, true
	}
	return "", false
}

func expandH(home, s string) string { return strings.ReplaceAll(s, "$H", home) }

// ---------------------------------------------------------------------------------------------
// the option effect table

// objects an option can target
const (
	oGeneric  = "generic"  // generic.Driver
	oNetwork  = "network"  // network.Driver
	oNetconf  = "netconf"  // netconf.Driver
	oArgs     = "args"     // transport.Args
	oSSH      = "ssh"      // transport.SSHArgs (system and standard transports only)
	oChannel  = "channel"  // channel.Channel
	oSystem   = "system"   // transport.System
	oStandard = "standard" // transport.Standard
	oFile     = "file"     // transport.File
)

const (
	errBad  = "bad-option"
	errFile = "file-not-found"
)

// effect: option -> (target object, public field, value transform, additive?)
type effect struct {
	Obj      string
	Field    string
	Additive bool
	// Val returns the Go value the field must hold afterwards (for additive effects: what is
	// appended).
	Val func(o Opt, p *pools) interface{}
}

type optSpec struct {
	Name    string
	Doc     string // what the option's documentation says it sets
	Effects []effect
	Make    func(o Opt, p *pools) util.Option
	Gen     func(r *rand.Rand) Opt  // random valid value
	GenBad  func(r *rand.Rand) *Opt // a value outside the option's domain (nil: every value is valid)
	// Invalid returns "" if the value is valid in this environment, else the error class the
	// property demands ("invalid values are rejected with a bad-option error").
	Invalid func(o Opt, p *pools) string
	// Everywhere: the value is validated before the target is looked at (the option rejects an
	// invalid value on every object, also where it does not apply).
	Everywhere bool
}

var strPool = []string{"", "admin", "p@ss w0rd", "üser", "scrapli", "a'b\"c", "x"}
var rePool = []string{`(?im)^[a-z\d.\-@()/:]{1,48}[#>$]\s*$`, `^user(name)?:\s*$`, `(?i)^pass(word)?:\s*$`, `(?m)^router[0-9]+#$`,
	`enter passphrase for key`, `^.{0,64}\$\s?$`, `(?im)^login:\s*$`}
var durPool = []time.Duration{0, 1, 250 * time.Microsecond, 5 * time.Millisecond, time.Second, 30 * time.Second, 90 * time.Second, time.Hour}
var intPool = []int{0, 1, 22, 23, 80, 255, 830, 2022, 8192, 65535}
var listPool = [][]string{nil, {}, {"-o", "ProxyCommand=none"}, {"-v"}, {"% Invalid input", "% Ambiguous command", "error:"}, {"aes128-cbc", "3des-cbc"},
	{"diffie-hellman-group1-sha1"}, {"a", "b", "c", "d"}}
var ttPool = []string{transport.SystemTransport, transport.StandardTransport, transport.TelnetTransport, transport.FileTransport}
var pathPool = []string{"/bin/ssh", "/usr/bin/ssh", "/bin/true", "~/k", "", "/tmp/x y"}

func ps(r *rand.Rand, l []string) string { return l[r.Intn(len(l))] }

func specS(name, doc, obj, field string, pool []string, mk func(string) util.Option) *optSpec {
	return &optSpec{Name: name, Doc: doc,
		Effects: []effect{{Obj: obj, Field: field, Val: func(o Opt, _ *pools) interface{} { return o.S }}},
		Make:    func(o Opt, _ *pools) util.Option { return mk(o.S) },
		Gen:     func(r *rand.Rand) Opt { return Opt{N: name, S: ps(r, pool)} }}
}

func specI(name, doc, obj, field string, mk func(int) util.Option) *optSpec {
	return &optSpec{Name: name, Doc: doc,
		Effects: []effect{{Obj: obj, Field: field, Val: func(o Opt, _ *pools) interface{} { return o.I }}},
		Make:    func(o Opt, _ *pools) util.Option { return mk(o.I) },
		Gen:     func(r *rand.Rand) Opt { return Opt{N: name, I: intPool[r.Intn(len(intPool))]} }}
}

func specD(name, doc, obj, field string, mk func(time.Duration) util.Option) *optSpec {
	return &optSpec{Name: name, Doc: doc,
		Effects: []effect{{Obj: obj, Field: field, Val: func(o Opt, _ *pools) interface{} { return time.Duration(o.D) }}},
		Make:    func(o Opt, _ *pools) util.Option { return mk(time.Duration(o.D)) },
		Gen:     func(r *rand.Rand) Opt { return Opt{N: name, D: int64(durPool[r.Intn(len(durPool))])} }}
}

func specRe(name, doc, field string, mk func(*regexp.Regexp) util.Option) *optSpec {
	return &optSpec{Name: name, Doc: doc,
		Effects: []effect{{Obj: oChannel, Field: field, Val: func(o Opt, _ *pools) interface{} { return regexp.MustCompile(o.S) }}},
		Make:    func(o Opt, _ *pools) util.Option { return mk(regexp.MustCompile(o.S)) },
		Gen:     func(r *rand.Rand) Opt { return Opt{N: name, S: ps(r, rePool)} }}
}

func specL(name, doc, obj, field string, additive bool, mk func([]string) util.Option) *optSpec {
	return &optSpec{Name: name, Doc: doc,
		Effects: []effect{{Obj: obj, Field: field, Additive: additive, Val: func(o Opt, _ *pools) interface{} { return o.L }}},
		Make:    func(o Opt, _ *pools) util.Option { return mk(o.L) },
		Gen:     func(r *rand.Rand) Opt { return Opt{N: name, L: listPool[r.Intn(len(listPool))]} }}
}

func specFlag(name, doc, obj, field string, val bool, mk func() util.Option) *optSpec {
	return &optSpec{Name: name, Doc: doc,
		Effects: []effect{{Obj: obj, Field: field, Val: func(Opt, *pools) interface{} { return val }}},
		Make:    func(Opt, *pools) util.Option { return mk() },
		Gen:     func(*rand.Rand) Opt { return Opt{N: name} }}
}

// specFile: WithSSHConfigFile / WithSSHKnownHostsFile - "sets the ssh configuration / known hosts
// file to use"; the value stored is the resolved path; an unresolvable file is an invalid value.
func specFile(name, doc, field, good string, mk func(string) util.Option) *optSpec {
	return &optSpec{Name: name, Doc: doc,
		Effects: []effect{{Obj: oSSH, Field: field, Val: func(o Opt, p *pools) interface{} {
			s, _ := resolveRef(p.home, expandH(p.home, o.S))
			return s
		}}},
		Make: func(o Opt, p *pools) util.Option { return mk(expandH(p.home, o.S)) },
		Gen: func(r *rand.Rand) Opt {
			return Opt{N: name, S: []string{"~/" + good, good, "$H/" + good, "/etc/hostname"}[r.Intn(4)]}
		},
		GenBad: func(r *rand.Rand) *Opt {
			return &Opt{N: name, S: []string{"/nonexistent/c19/" + good, "~/nope-" + good, "nope", ""}[r.Intn(4)]}
		},
		Invalid: func(o Opt, p *pools) string {
			if _, ok := resolveRef(p.home, expandH(p.home, o.S)); !ok {
				// the library's documented error for this condition is util.ErrFileNotFoundError
				return errFile
			}
			return ""
		}}
}

// specFileSystem: WithSSHConfigFileSystem / WithSSHKnownHostsFileSystem - "~/.ssh/X first, then
// /etc/ssh/Y; if neither path is resolvable an error is returned".
func specFileSystem(name, doc, field, user, system string, mk func() util.Option) *optSpec {
	res := func(p *pools) (string, bool) {
		if s, ok := resolveRef(p.home, user); ok {
			return s, true
		}
		return resolveRef(p.home, system)
	}
	return &optSpec{Name: name, Doc: doc,
		Effects: []effect{{Obj: oSSH, Field: field, Val: func(_ Opt, p *pools) interface{} { s, _ := res(p); return s }}},
		Make:    func(Opt, *pools) util.Option { return mk() },
		Gen:     func(*rand.Rand) Opt { return Opt{N: name} },
		Invalid: func(_ Opt, p *pools) string {
			if _, ok := res(p); !ok {
				return errBad
			}
			return ""
		}}
}

var specs []*optSpec
var specByName = map[string]*optSpec{}

func init() {
	add := func(s ...*optSpec) {
		for _, x := range s {
			specs = append(specs, x)
			specByName[x.Name] = x
		}
	}
	// auth.go
	add(specS("WithAuthUsername", "the username to use for authentication", oArgs, "User", strPool, options.WithAuthUsername),
		specS("WithAuthPassword", "the password to use for authentication", oArgs, "Password", strPool, options.WithAuthPassword),
		specS("WithAuthSecondary", "the secondary (enable) password; network driver", oNetwork, "AuthSecondary", strPool, options.WithAuthSecondary),
		specS("WithAuthPassphrase", "the ssh key passphrase", oSSH, "PrivateKeyPassPhrase", strPool, options.WithAuthPassphrase),
		specFlag("WithAuthBypass", "skip in-channel authentication", oChannel, "AuthBypass", true, options.WithAuthBypass))
	// channel.go
	add(specI("WithPromptSearchDepth", "depth of the channel prompt search", oChannel, "PromptSearchDepth", options.WithPromptSearchDepth),
		specRe("WithPromptPattern", "the channel PromptPattern", "PromptPattern", options.WithPromptPattern),
		specRe("WithUsernamePattern", "in-channel auth username pattern", "UsernamePattern", options.WithUsernamePattern),
		specRe("WithPasswordPattern", "in-channel auth password pattern", "PasswordPattern", options.WithPasswordPattern),
		specRe("WithPassphrasePattern", "in-channel auth passphrase pattern", "PassphrasePattern", options.WithPassphrasePattern),
		&optSpec{Name: "WithReturnChar", Doc: "the channel ReturnChar",
			Effects: []effect{{Obj: oChannel, Field: "ReturnChar", Val: func(o Opt, _ *pools) interface{} { return []byte(o.S) }}},
			Make:    func(o Opt, _ *pools) util.Option { return options.WithReturnChar(o.S) },
			Gen: func(r *rand.Rand) Opt {
				return Opt{N: "WithReturnChar", S: ps(r, []string{"\n", "\r", "\r\n", "", "\n\n"})}
			}},
		specD("WithTimeoutOps", "the channel TimeoutOps", oChannel, "TimeoutOps", options.WithTimeoutOps),
		specD("WithReadDelay", "the channel ReadDelay", oChannel, "ReadDelay", options.WithReadDelay),
		&optSpec{Name: "WithChannelLog", Doc: "io.Writer all channel read data is written to",
			Effects: []effect{{Obj: oChannel, Field: "ChannelLog", Val: func(o Opt, p *pools) interface{} {
				if o.I&3 == 3 {
					return nil
				}
				return p.writers[o.I&3]
			}}},
			Make: func(o Opt, p *pools) util.Option {
				if o.I&3 == 3 {
					return options.WithChannelLog(nil)
				}
				return options.WithChannelLog(p.writers[o.I&3])
			},
			Gen: func(r *rand.Rand) Opt { return Opt{N: "WithChannelLog", I: r.Intn(4)} }})
	// generic.go
	add(&optSpec{Name: "WithTransportType", Doc: "the underlying transport type: system, standard, telnet (file for testing)",
		Effects: []effect{{Obj: oGeneric, Field: "TransportType", Val: func(o Opt, _ *pools) interface{} { return o.S }}},
		Make:    func(o Opt, _ *pools) util.Option { return options.WithTransportType(o.S) },
		Gen:     func(r *rand.Rand) Opt { return Opt{N: "WithTransportType", S: ps(r, ttPool)} },
		GenBad: func(r *rand.Rand) *Opt {
			return &Opt{N: "WithTransportType", S: ps(r, []string{"ssh2", "", "System", "netconf", "standard "})}
		},
		Invalid: func(o Opt, _ *pools) string {
			for _, t := range ttPool {
				if o.S == t {
					return ""
				}
			}
			return errBad
		}},
		specL("WithFailedWhenContains", "strings that indicate a failed input", oGeneric, "FailedWhenContains", false, options.WithFailedWhenContains),
		&optSpec{Name: "WithOnOpen", Doc: "function called after opening (generic driver)",
			Effects: []effect{{Obj: oGeneric, Field: "OnOpen", Val: func(o Opt, _ *pools) interface{} { return pickG(o.I) }}},
			Make:    func(o Opt, _ *pools) util.Option { return options.WithOnOpen(pickG(o.I)) },
			Gen:     func(r *rand.Rand) Opt { return Opt{N: "WithOnOpen", I: r.Intn(4)} }},
		&optSpec{Name: "WithOnClose", Doc: "function called before closing (generic driver)",
			Effects: []effect{{Obj: oGeneric, Field: "OnClose", Val: func(o Opt, _ *pools) interface{} { return pickGC(o.I) }}},
			Make:    func(o Opt, _ *pools) util.Option { return options.WithOnClose(pickGC(o.I)) },
			Gen:     func(r *rand.Rand) Opt { return Opt{N: "WithOnClose", I: r.Intn(4)} }})
	// logging.go
	add(&optSpec{Name: "WithLogger", Doc: "applies the logging instance to the driver",
		Effects: []effect{{Obj: oGeneric, Field: "Logger", Val: func(o Opt, p *pools) interface{} {
			if o.I&3 == 3 {
				return (*logging.Instance)(nil)
			}
			return p.loggers[o.I&3]
		}}},
		Make: func(o Opt, p *pools) util.Option {
			if o.I&3 == 3 {
				return options.WithLogger(nil)
			}
			return options.WithLogger(p.loggers[o.I&3])
		},
		Gen: func(r *rand.Rand) Opt { return Opt{N: "WithLogger", I: r.Intn(4)} }},
		&optSpec{Name: "WithDefaultLogger", Doc: "the default logging setup: log.Print at level info",
			Effects: []effect{{Obj: oGeneric, Field: "Logger", Val: func(Opt, *pools) interface{} {
				return &logging.Instance{Level: logging.Info, Formatter: logging.DefaultFormatter, Loggers: []func(...interface{}){log.Print}}
			}}},
			Make: func(Opt, *pools) util.Option { return options.WithDefaultLogger() },
			Gen:  func(*rand.Rand) Opt { return Opt{N: "WithDefaultLogger"} }})
	// netconf.go
	add(&optSpec{Name: "WithNetconfPreferredVersion", Doc: "preferred NETCONF version", Everywhere: true,
		Effects: []effect{{Obj: oNetconf, Field: "PreferredVersion", Val: func(o Opt, _ *pools) interface{} { return o.S }}},
		Make:    func(o Opt, _ *pools) util.Option { return options.WithNetconfPreferredVersion(o.S) },
		Gen:     func(r *rand.Rand) Opt { return Opt{N: "WithNetconfPreferredVersion", S: ps(r, []string{"1.0", "1.1"})} },
		GenBad: func(r *rand.Rand) *Opt {
			return &Opt{N: "WithNetconfPreferredVersion", S: ps(r, []string{"2.0", "", "1", "1.10", "v1.1"})}
		},
		Invalid: func(o Opt, _ *pools) string {
			if o.S == "1.0" || o.S == "1.1" {
				return ""
			}
			return errBad
		}},
		specFlag("WithNetconfForceSelfClosingTags", "force self-closing tags", oNetconf, "ForceSelfClosingTags", true, options.WithNetconfForceSelfClosingTags),
		specFlag("WithNetconfExcludeHeader", "exclude the XML header", oNetconf, "ExcludeHeader", true, options.WithNetconfExcludeHeader))
	// network.go
	add(&optSpec{Name: "WithNetworkOnOpen", Doc: "function called after opening (network driver)",
		Effects: []effect{{Obj: oNetwork, Field: "OnOpen", Val: func(o Opt, _ *pools) interface{} { return pickN(o.I) }}},
		Make:    func(o Opt, _ *pools) util.Option { return options.WithNetworkOnOpen(pickN(o.I)) },
		Gen:     func(r *rand.Rand) Opt { return Opt{N: "WithNetworkOnOpen", I: r.Intn(4)} }},
		&optSpec{Name: "WithNetworkOnClose", Doc: "function called before closing (network driver)",
			Effects: []effect{{Obj: oNetwork, Field: "OnClose", Val: func(o Opt, _ *pools) interface{} { return pickNC(o.I) }}},
			Make:    func(o Opt, _ *pools) util.Option { return options.WithNetworkOnClose(pickNC(o.I)) },
			Gen:     func(r *rand.Rand) Opt { return Opt{N: "WithNetworkOnClose", I: r.Intn(4)} }})
	// privilege.go
	add(&optSpec{Name: "WithPrivilegeLevels", Doc: "the map of privilege levels of a network driver",
		Effects: []effect{{Obj: oNetwork, Field: "PrivilegeLevels", Val: func(o Opt, p *pools) interface{} { return p.privs[o.I&3] }}},
		Make:    func(o Opt, p *pools) util.Option { return options.WithPrivilegeLevels(p.privs[o.I&3]) },
		Gen:     func(r *rand.Rand) Opt { return Opt{N: "WithPrivilegeLevels", I: r.Intn(3)} }},
		specS("WithDefaultDesiredPriv", "the default desired privilege level", oNetwork, "DefaultDesiredPriv",
			[]string{"exec", "privilege-exec", "configuration"}, options.WithDefaultDesiredPriv))
	// transport.go
	add(&optSpec{Name: "WithCustomTransport", Doc: "a user provided transport instead of a core transport",
		Effects: []effect{{Obj: oArgs, Field: "UserImplementation", Val: func(o Opt, p *pools) interface{} { return p.impls[o.I&3] }}},
		Make:    func(o Opt, p *pools) util.Option { return options.WithCustomTransport(p.impls[o.I&3]) },
		Gen:     func(r *rand.Rand) Opt { return Opt{N: "WithCustomTransport", I: r.Intn(4)} }},
		specI("WithTransportReadSize", "bytes per transport read", oArgs, "ReadSize", options.WithTransportReadSize),
		specI("WithPort", "the TCP port", oArgs, "Port", options.WithPort),
		specI("WithTermHeight", "pty height", oArgs, "TermHeight", options.WithTermHeight),
		specI("WithTermWidth", "pty width", oArgs, "TermWidth", options.WithTermWidth),
		specD("WithTimeoutSocket", "the TimeoutSocket of the transport", oArgs, "TimeoutSocket", options.WithTimeoutSocket))
	// transportfile.go
	add(specS("WithFileTransportFile", "the file the File transport opens", oFile, "F", pathPool, options.WithFileTransportFile))
	// transportssh.go
	add(&optSpec{Name: "WithAuthPrivateKey", Doc: "the SSH key path and passphrase",
		Effects: []effect{
			{Obj: oSSH, Field: "PrivateKeyPath", Val: func(o Opt, _ *pools) interface{} { return o.S }},
			{Obj: oSSH, Field: "PrivateKeyPassPhrase", Val: func(o Opt, _ *pools) interface{} { return o.S2 }}},
		Make: func(o Opt, _ *pools) util.Option { return options.WithAuthPrivateKey(o.S, o.S2) },
		Gen:  func(r *rand.Rand) Opt { return Opt{N: "WithAuthPrivateKey", S: ps(r, pathPool), S2: ps(r, strPool)} }},
		specFlag("WithAuthNoStrictKey", "disable strict SSH key checking", oSSH, "StrictKey", false, options.WithAuthNoStrictKey),
		specFile("WithSSHConfigFile", "the ssh configuration file", "ConfigFile", "cfgA", options.WithSSHConfigFile),
		specFileSystem("WithSSHConfigFileSystem", "~/.ssh/config, else /etc/ssh/ssh_config, else error", "ConfigFile",
			"~/.ssh/config", "/etc/ssh/ssh_config", options.WithSSHConfigFileSystem),
		specFile("WithSSHKnownHostsFile", "the ssh known hosts file", "KnownHostsFile", "khA", options.WithSSHKnownHostsFile),
		specFileSystem("WithSSHKnownHostsFileSystem", "~/.ssh/known_hosts, else /etc/ssh/ssh_known_hosts, else error", "KnownHostsFile",
			"~/.ssh/known_hosts", "/etc/ssh/ssh_known_hosts", options.WithSSHKnownHostsFileSystem))
	// transportstandard.go
	add(specL("WithStandardTransportExtraCiphers", "extra ciphers of the standard transport", oStandard, "ExtraCiphers", false, options.WithStandardTransportExtraCiphers),
		specL("WithStandardTransportExtraKexs", "extra key exchange algorithms of the standard transport", oStandard, "ExtraKexs", false, options.WithStandardTransportExtraKexs))
	// transportsystem.go
	add(specS("WithSystemTransportOpenBin", "the binary of the system transport", oSystem, "OpenBin", pathPool, options.WithSystemTransportOpenBin),
		specL("WithSystemTransportOpenArgs", "arguments APPENDED to the system transport open command (ExtraArgs)", oSystem, "ExtraArgs", true, options.WithSystemTransportOpenArgs),
		specL("WithSystemTransportOpenArgsOverride", "the arguments of the system transport open command", oSystem, "OpenArgs", false, options.WithSystemTransportOpenArgsOverride))
}

// fieldType finds the static type of obj.Field (for encoding typed nil values).
var objTypes = map[string]reflect.Type{}

func fieldType(obj, field string) reflect.Type {
	t := objTypes[obj]
	f, ok := t.FieldByName(field)
	if !ok {
		panic("c19: effect table names unknown field " + obj + "." + field)
	}
	return f.Type
}
