// Package c19 holds the runtime monitor for property C19 (see DESIGN.md §3 C19).
package c19
