package c19

import (
	"fmt"
	"math/rand"
	"strings"
	"unsafe"

	"github.com/scrapli/scrapligo/util"

	"verif/internal/mon"
)

// "One option slice, several constructors": a single []util.Option value, built once (with and
// without spare capacity), is spread (`opts...`) into 2-5 constructor calls across all constructor
// kinds. Every resulting driver is judged by the field oracle against the fold of that one list,
// and after every call the caller's slice is probed: element i must still be the very closure the
// caller put there (identity of the func value), the spare slots of the backing array must still
// hold the caller's sentinels. Optionally the caller owns one sibling slice `append(base, own)`
// sharing the backing array (built before any constructor call), used for some of the calls.

// SliceFleet is the descriptor.
type SliceFleet struct {
	Cap   int      `json:"cap"`
	Opts  []Opt    `json:"opts"`
	Calls []Call   `json:"calls"`
	Own   *Opt     `json:"own,omitempty"` // the sibling's extra option (needs Cap >= 1 to share the array)
	Plat  *PlatDef `json:"plat,omitempty"`
}

// Call is one constructor call: which constructor, and whether it gets the sibling slice.
type Call struct {
	K       string `json:"k"`
	Sibling bool   `json:"sibling,omitempty"`
}

func closureID(f util.Option) unsafe.Pointer {
	if f == nil {
		return nil
	}
	return *(*unsafe.Pointer)(unsafe.Pointer(&f))
}

func sentinelOption(i int) util.Option {
	return func(interface{}) error { _ = i; return util.ErrIgnoredOption }
}

func runSliceFleet(f SliceFleet) listResult {
	res := listResult{obs: map[string]int64{"fleets_from_one_slice": 1}}
	home := homeRoot + "/A"
	setHome(home)
	p := newPools(home)
	base := make([]util.Option, len(f.Opts), len(f.Opts)+f.Cap)
	for i, o := range f.Opts {
		base[i] = specByName[o.N].Make(o, p)
	}
	names := func(l []Opt) string {
		var n []string
		for _, o := range l {
			n = append(n, o.N)
		}
		return strings.Join(n, ",")
	}
	// the caller's sibling slice, then sentinels in what is left of the backing array
	var sib []util.Option
	sibModel := f.Opts
	if f.Own != nil {
		sib = append(base, specByName[f.Own.N].Make(*f.Own, p))
		sibModel = append(append([]Opt{}, f.Opts...), *f.Own)
	}
	used := len(base)
	if sib != nil && f.Cap >= 1 {
		used = len(sib)
	}
	ext := base[:cap(base)]
	for j := used; j < len(ext); j++ {
		ext[j] = sentinelOption(j)
	}
	orig := make([]unsafe.Pointer, len(ext))
	for j := range ext {
		orig[j] = closureID(ext[j])
	}
	var sibOrig []unsafe.Pointer
	for _, o := range sib {
		sibOrig = append(sibOrig, closureID(o))
	}
	var y map[string][]byte
	if f.Plat != nil {
		y = map[string][]byte{kPlatGen: platYAML(kPlatGen, f.Plat), kPlatNet: platYAML(kPlatNet, f.Plat)}
	}
	probeKey, probeDetail := "", ""
	for ci, c := range f.Calls {
		model, opts := f.Opts, base
		if c.Sibling && sib != nil {
			model, opts = sibModel, sib
		}
		ex, err := expect(List{K: c.K, Home: "A", Opts: model, Plat: f.Plat}, p)
		if err != nil {
			return listResult{key: "c19/harness", detail: err.Error()}
		}
		if ex.mustReject || ex.mayReject {
			res.obs["fleets_skipped_invalid_value"] = 1
			return res
		}
		who := fmt.Sprintf("call %d of %d (%s constructor, %s slice of %d options, %d spare slots) [%s]", ci+1, len(f.Calls), c.K,
			map[bool]string{false: "base", true: "sibling"}[c.Sibling && sib != nil], len(opts), f.Cap, names(model))
		b := constructY(c.K, y[c.K], opts)
		if b.panicked != nil {
			return listResult{key: "c19/constructor-panic:" + c.K, obs: res.obs, nontrivial: true, detail: fmt.Sprintf("%s: constructor panicked: %v", who, b.panicked)}
		}
		if b.err != nil {
			return listResult{key: "c19/unexpected-error:" + c.K + ":" + errClassOf(b.err), obs: res.obs, nontrivial: true,
				detail: fmt.Sprintf("%s: constructor failed with %q on valid values", who, b.err)}
		}
		res.obs["one_slice_drivers"]++
		if paths, lines := diff(ex.exp, normalise(c.K, snap(p, b.drv))); len(paths) > 0 {
			key := "c19/field-mismatch:" + c.K + ":" + paths[0]
			if ci > 0 {
				key = "c19/aliasing:" + ownerOf(paths[0]) + ":option-slice-reused"
			}
			det := fmt.Sprintf("%s: the driver differs from the fold of the caller's option list (the same slice value had been spread into %d earlier constructor call(s)):\n%s",
				who, ci, strings.Join(lines, "\n"))
			if probeKey != "" { // the consequence of the damage the probe saw earlier
				return listResult{key: probeKey, obs: res.obs, nontrivial: true, detail: probeDetail + "\nconsequence: " + det}
			}
			return listResult{key: key, obs: res.obs, nontrivial: true, detail: det}
		}
		if probeKey != "" {
			continue
		}
		// probe the caller's memory
		res.obs["caller_slice_probes"]++
		for j := range sib {
			if closureID(sib[j]) != sibOrig[j] {
				probeKey, probeDetail = "c19/caller-slice:sibling-overwritten:"+c.K, fmt.Sprintf("%s: after the call, element %d of the caller's sibling slice (append(base, %s), sharing the backing array) is no longer the caller's option",
					who, j, f.Own.N)
				break
			}
		}
		if probeKey != "" {
			continue
		}
		for j := range ext {
			if closureID(ext[j]) != orig[j] {
				what := "options-overwritten"
				if j >= len(base) {
					what = "spare-slot-overwritten"
				}
				probeKey, probeDetail = "c19/caller-slice:"+what+":"+c.K, fmt.Sprintf("%s: after the call, element %d of the caller's backing array (slice length %d, capacity %d) is no longer the option the caller stored there",
					who, j, len(base), cap(base))
				break
			}
		}
	}
	if probeKey != "" {
		return listResult{key: probeKey, obs: res.obs, nontrivial: true, detail: probeDetail}
	}
	res.tags = []string{fmt.Sprintf("one_slice_calls=%d", len(f.Calls)), fmt.Sprintf("one_slice_spare_capacity=%v", f.Cap > 0), fmt.Sprintf("one_slice_sibling=%v", sib != nil)}
	for _, c := range f.Calls {
		res.tags = append(res.tags, "one_slice_constructor="+c.K)
	}
	res.nontrivial = len(f.Calls) >= 2 && len(f.Opts) >= 2
	return res
}

var driverLevel = []string{"WithTransportType", "WithLogger", "WithDefaultLogger", "WithFailedWhenContains", "WithOnOpen", "WithOnClose"}

func genSliceFleet(r *rand.Rand) SliceFleet {
	f := SliceFleet{Cap: []int{0, 0, 1, 3, 8}[r.Intn(5)], Plat: genPlatDef(r)}
	for i := range f.Plat.Options { // valid values only
		if f.Plat.Options[i].Name == "transport-type" {
			f.Plat.Options[i].S = ps(r, ttPool)
		}
	}
	for n := 2 + r.Intn(9); n > 0; n-- {
		f.Opts = append(f.Opts, fleetOpt(r, specs[r.Intn(len(specs))]))
	}
	if r.Intn(10) < 7 { // a driver-level option early in the slice, something of another level behind it
		f.Opts = insertAt(f.Opts, r.Intn(1+len(f.Opts)/2), fleetOpt(r, specByName[driverLevel[r.Intn(len(driverLevel))]]))
	}
	f.Opts = withRequired(r, kNetwork, f.Opts)
	if f.Cap >= 1 && r.Intn(2) == 0 {
		o := fleetOpt(r, specs[r.Intn(len(specs))])
		f.Own = &o
	}
	for n := 2 + r.Intn(4); n > 0; n-- {
		f.Calls = append(f.Calls, Call{K: allK[r.Intn(len(allK))], Sibling: f.Own != nil && r.Intn(2) == 0})
	}
	return f
}

func genDedicatedSliceFleets() []SliceFleet {
	var out []SliceFleet
	vals := map[string]Opt{
		"WithTransportType":      {N: "WithTransportType", S: "standard"},
		"WithLogger":             {N: "WithLogger", I: 1},
		"WithDefaultLogger":      {N: "WithDefaultLogger"},
		"WithFailedWhenContains": {N: "WithFailedWhenContains", L: []string{"% Invalid input"}},
		"WithOnOpen":             {N: "WithOnOpen", I: 1},
		"WithOnClose":            {N: "WithOnClose", I: 2},
	}
	seqs := [][]string{
		{kGeneric, kGeneric, kGeneric},
		{kGeneric, kNetwork, kNetconf, kPlatGen, kPlatNet},
		{kNetconf, kGeneric, kNetwork},
		{kPlatNet, kPlatGen, kNetwork, kGeneric},
		{kNetwork, kNetwork},
	}
	for _, name := range driverLevel {
		for _, seq := range seqs {
			for _, cp := range []int{0, 4} {
				f := SliceFleet{Cap: cp, Plat: &PlatDef{Privs: 1, DDP: "exec"},
					Opts: []Opt{vals[name], {N: "WithPort", I: 2022}, {N: "WithPrivilegeLevels", I: 1}, {N: "WithDefaultDesiredPriv", S: "exec"}, {N: "WithTimeoutOps", D: int64(5e9)}, {N: "WithAuthUsername", S: "admin"}}}
				for _, k := range seq {
					f.Calls = append(f.Calls, Call{K: k})
				}
				out = append(out, f)
				if cp > 0 { // the caller also holds append(base, WithTermWidth(132)) and uses it for every second call
					g := f
					g.Own = &Opt{N: "WithTermWidth", I: 132}
					g.Calls = nil
					for i, k := range seq {
						g.Calls = append(g.Calls, Call{K: k, Sibling: i%2 == 1})
					}
					out = append(out, g)
				}
			}
		}
	}
	return out
}

func runSliceFleets(d Desc) mon.Result {
	res := mon.Result{Verdict: mon.Held, Obs: map[string]int64{}}
	tags := map[string]bool{}
	var viol []string
	nviol := 0
	for i, f := range d.SliceFleets {
		lr := runSliceFleet(f)
		for k, v := range lr.obs {
			res.Obs[k] += v
		}
		for _, t := range lr.tags {
			tags[t] = true
		}
		if lr.nontrivial {
			res.NonTrivial = true
		}
		if lr.key != "" {
			nviol++
			if res.Key == "" {
				res.Verdict, res.Key = mon.Violated, lr.key
				res.Events = map[string]interface{}{"fleet_index": i, "fleet": f}
			}
			if len(viol) < 4 {
				viol = append(viol, fmt.Sprintf("fleet %d: [%s] %s", i, lr.key, lr.detail))
			}
		}
	}
	for t := range tags {
		res.Tags = append(res.Tags, t)
	}
	if res.Key != "" {
		res.Detail = fmt.Sprintf("%d of %d one-slice fleets of this case violate\n%s", nviol, len(d.SliceFleets), strings.Join(viol, "\n"))
		return res
	}
	res.Sample = map[string]interface{}{"what": d.What, "fleets_from_one_slice": len(d.SliceFleets), "drivers": res.Obs["one_slice_drivers"], "caller_slice_probes": res.Obs["caller_slice_probes"]}
	return res
}
