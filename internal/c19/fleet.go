package c19

import (
	"fmt"
	"math/rand"
	"strings"

	"github.com/scrapli/scrapligo/util"

	"verif/internal/mon"
)

// Aliasing monitors. One option VALUE (the util.Option closure and the slices/maps behind it, the
// slices with spare capacity) is commonly reused for several hosts. "Takes effect on exactly the
// setting it names and on nothing else" then also means: nothing of ANOTHER driver, and for
// additive options: the accumulated slice is the driver's own, not the caller's backing array.
//
//	(a) fleet: 3-5 drivers of one constructor kind built from the same shared option values, each
//	    with host-specific options of its own (additive ones especially) inserted; every driver is
//	    compared with its own fold right after its construction and again after all were built;
//	(b) then the caller's slices and maps are mutated (element 0 overwritten, every spare slot of
//	    the backing array written, map keys deleted/added, a level's pattern changed, the YAML
//	    bytes overwritten) and every driver is compared again. Fields that a plain "sets the field
//	    to the given slice/map" option points at the caller's value (FailedWhenContains,
//	    ExtraCiphers, ExtraKexs, OpenArgs, PrivilegeLevels) are documented aliases and not judged
//	    in this step; everything else - the additive ExtraArgs in particular - must not move;
//	(c) platform kinds: all drivers of the fleet come from the same YAML byte slice.

// Item is one position of a host's option list: a shared value (1-based index) or an own option.
type Item struct {
	Shared int  `json:"shared,omitempty"`
	Own    *Opt `json:"own,omitempty"`
}

// Fleet is one fleet descriptor.
type Fleet struct {
	K      string   `json:"k"`
	Cap    int      `json:"cap"` // spare capacity given to every string slice behind an option
	Shared []Opt    `json:"shared"`
	Hosts  [][]Item `json:"hosts"`
	Plat   *PlatDef `json:"plat,omitempty"`
}

var fieldOwner = map[string]string{}

func ownerOf(path string) string {
	if len(fieldOwner) == 0 {
		for _, sp := range specs {
			for _, ef := range sp.Effects {
				if _, ok := fieldOwner[ef.Field]; !ok {
					fieldOwner[ef.Field] = sp.Name
				}
			}
		}
	}
	f := path
	if i := strings.IndexByte(f, '['); i >= 0 {
		f = f[:i]
	}
	if i := strings.LastIndexByte(f, '.'); i >= 0 {
		f = f[i+1:]
	}
	if o, ok := fieldOwner[f]; ok {
		return o
	}
	return path
}

func withCap(o Opt, extra int) Opt {
	if o.L != nil {
		l := make([]string, len(o.L), len(o.L)+extra)
		copy(l, o.L)
		o.L = l
	}
	return o
}

// fields that alias the caller's slice/map by documentation (plain setters)
func dropDocumentedAliases(s snapshot) snapshot {
	c := snapshot{}
	for k, v := range s {
		f := k
		if i := strings.IndexByte(f, '['); i >= 0 {
			f = f[:i]
		}
		if i := strings.LastIndexByte(f, '.'); i >= 0 {
			f = f[i+1:]
		}
		switch f {
		case "FailedWhenContains", "ExtraCiphers", "ExtraKexs", "OpenArgs", "PrivilegeLevels":
			continue
		}
		if strings.Contains(k, "PrivilegeLevels[") {
			continue
		}
		c[k] = v
	}
	return c
}

func runFleet(f Fleet) listResult {
	res := listResult{obs: map[string]int64{"fleets": 1, "fleet_drivers": int64(len(f.Hosts))}}
	home := homeRoot + "/A"
	setHome(home)
	p := newPools(home)
	shared := make([]Opt, len(f.Shared))
	sharedOpt := make([]util.Option, len(f.Shared))
	var callerSlices [][]string
	for i, o := range f.Shared {
		shared[i] = withCap(o, f.Cap)
		sharedOpt[i] = specByName[o.N].Make(shared[i], p)
		if shared[i].L != nil {
			callerSlices = append(callerSlices, shared[i].L)
		}
	}
	var y []byte
	if isPlatformK(f.K) {
		pd := f.Plat
		if pd == nil {
			pd = &PlatDef{DDP: "exec"}
		}
		y = platYAML(f.K, pd)
	}
	type host struct {
		exp  snapshot
		drv  interface{}
		name string
	}
	hosts := make([]host, len(f.Hosts))
	addsShared, addsOwn := false, false
	for h, items := range f.Hosts {
		var model []Opt
		var opts []util.Option
		var names []string
		for _, it := range items {
			if it.Shared > 0 {
				model = append(model, shared[it.Shared-1])
				opts = append(opts, sharedOpt[it.Shared-1])
				names = append(names, "shared:"+shared[it.Shared-1].N)
				if sp := specByName[shared[it.Shared-1].N]; sp.Effects[0].Additive {
					addsShared = true
				}
				continue
			}
			o := withCap(*it.Own, f.Cap)
			model = append(model, o)
			opts = append(opts, specByName[o.N].Make(o, p))
			names = append(names, o.N)
			if o.L != nil {
				callerSlices = append(callerSlices, o.L)
			}
			if specByName[o.N].Effects[0].Additive {
				addsOwn = true
			}
		}
		hosts[h].name = fmt.Sprintf("driver %d of %d (%s) [%s]", h+1, len(f.Hosts), f.K, strings.Join(names, ","))
		ex, err := expect(List{K: f.K, Home: "A", Opts: model, Plat: f.Plat}, p)
		if err != nil {
			return listResult{key: "c19/harness", detail: err.Error()}
		}
		if ex.mustReject || ex.mayReject {
			res.obs["fleets_skipped_invalid_value"] = 1
			return res
		}
		b := constructY(f.K, y, opts)
		if b.panicked != nil {
			return listResult{key: "c19/constructor-panic:" + f.K, obs: res.obs, nontrivial: true, detail: fmt.Sprintf("%s: constructor panicked: %v", hosts[h].name, b.panicked)}
		}
		if b.err != nil {
			return listResult{key: "c19/unexpected-error:" + f.K + ":" + errClassOf(b.err), obs: res.obs, nontrivial: true,
				detail: fmt.Sprintf("%s: constructor failed with %q on valid values", hosts[h].name, b.err)}
		}
		hosts[h].exp, hosts[h].drv = ex.exp, b.drv
		if paths, lines := diff(ex.exp, normalise(f.K, snap(p, b.drv))); len(paths) > 0 {
			return listResult{key: "c19/field-mismatch:" + f.K + ":" + paths[0], obs: res.obs, nontrivial: true,
				detail: fmt.Sprintf("%s: right after construction the snapshot differs from the folded effect table:\n%s", hosts[h].name, strings.Join(lines, "\n"))}
		}
		res.obs["fleet_snapshots"]++
	}
	// (a) again, after the later drivers were built
	for h := range hosts {
		if paths, lines := diff(hosts[h].exp, normalise(f.K, snap(p, hosts[h].drv))); len(paths) > 0 {
			return listResult{key: "c19/aliasing:" + ownerOf(paths[0]) + ":changed-by-later-construction", obs: res.obs, nontrivial: true,
				detail: fmt.Sprintf("%s: correct right after its construction, but after the other drivers of the fleet were built from the same option values "+
					"(slices with %d spare slots) it differs:\n%s", hosts[h].name, f.Cap, strings.Join(lines, "\n"))}
		}
		res.obs["fleet_snapshots"]++
	}
	// (b) the caller goes on using its own values
	for _, l := range callerSlices {
		if len(l) > 0 {
			l[0] = "CALLER-OVERWROTE-0"
		}
		ext := l[:cap(l)]
		for j := len(l); j < len(ext); j++ {
			ext[j] = "CALLER-APPENDED"
		}
		res.obs["caller_slices_mutated"]++
	}
	for _, m := range p.privs {
		for n, lv := range m {
			lv.Pattern = "caller-changed-" + n
			lv.NotContains = append(lv.NotContains, "caller")
		}
		delete(m, "exec")
		m["caller-added"] = nil
	}
	for i := range y {
		y[i] = '#'
	}
	for h := range hosts {
		exp, got := dropDocumentedAliases(hosts[h].exp), dropDocumentedAliases(normaliseSafe(f.K, snap(p, hosts[h].drv)))
		if paths, lines := diff(exp, got); len(paths) > 0 {
			return listResult{key: "c19/aliasing:" + ownerOf(paths[0]) + ":changed-by-caller-mutation", obs: res.obs, nontrivial: true,
				detail: fmt.Sprintf("%s: after the caller overwrote element 0 / the spare slots of its own slices (and edited its maps, YAML bytes) the driver changed "+
					"in fields that are not documented aliases of a caller value:\n%s", hosts[h].name, strings.Join(lines, "\n"))}
		}
		res.obs["fleet_snapshots"]++
	}
	res.tags = []string{"fleet=" + f.K, fmt.Sprintf("fleet_size=%d", len(f.Hosts))}
	if addsShared {
		res.tags = append(res.tags, "fleet_shared_additive")
	}
	if addsOwn {
		res.tags = append(res.tags, "fleet_own_additive")
	}
	if addsShared && addsOwn {
		res.obs["fleets_shared_and_own_additive"] = 1
	}
	res.nontrivial = len(f.Hosts) >= 2 && len(callerSlices) > 0
	return res
}

// normaliseSafe: as normalise; the privilege maps may hold a nil level after the caller's edit
// (the dumper handles nil pointers; nothing else to do).
func normaliseSafe(k string, s snapshot) snapshot { return normalise(k, s) }

// ---------------------------------------------------------------------------------------------
// generators

func fleetOpt(r *rand.Rand, sp *optSpec) Opt {
	o := sp.Gen(r)
	if o.N == "WithCustomTransport" && o.I&3 == 2 {
		o.I = 0 // one transport.File object shared by several drivers is the caller's own aliasing
	}
	return o
}

func genFleet(r *rand.Rand) Fleet {
	f := Fleet{K: allK[r.Intn(len(allK))], Cap: []int{0, 1, 4, 8, 16}[r.Intn(5)]}
	if r.Intn(4) != 0 && f.Cap < 4 {
		f.Cap = 8
	}
	plainTransport := r.Intn(5) < 3 // keep the default (system) transport: no transport-type / custom-transport option
	pick := func() Opt {
		for {
			sp := specs[r.Intn(len(specs))]
			if plainTransport && (sp.Name == "WithTransportType" || sp.Name == "WithCustomTransport") {
				continue
			}
			return fleetOpt(r, sp)
		}
	}
	for n := 1 + r.Intn(7); n > 0; n-- {
		f.Shared = append(f.Shared, pick())
	}
	args := func(tag string) Opt {
		return Opt{N: "WithSystemTransportOpenArgs", L: [][]string{{"-o", "Opt=" + tag}, {"-J", tag}, {tag}, {"-v", "-v", tag}}[r.Intn(4)]}
	}
	if r.Intn(5) != 0 {
		f.Shared = insertAt(f.Shared, r.Intn(len(f.Shared)+1), args("shared"))
	}
	if f.K == kNetwork {
		f.Shared = withRequired(r, f.K, f.Shared)
	}
	if isPlatformK(f.K) {
		f.Plat = genPlatDef(r)
		// valid transport types only
		for i := range f.Plat.Options {
			if plainTransport && f.Plat.Options[i].Name == "transport-type" {
				f.Plat.Options[i].S = "system"
			}
		}
	}
	for h, n := 0, 3+r.Intn(3); h < n; h++ {
		var items []Item
		for i := range f.Shared {
			items = append(items, Item{Shared: i + 1})
		}
		ins := func(o Opt) {
			i := r.Intn(len(items) + 1)
			items = append(items, Item{})
			copy(items[i+1:], items[i:])
			items[i] = Item{Own: &o}
		}
		for n := r.Intn(4); n > 0; n-- {
			ins(pick())
		}
		if r.Intn(5) != 0 {
			o := args(fmt.Sprintf("host%d", h+1))
			if r.Intn(3) != 0 { // mostly after everything shared: the tail lands in the shared slice's spare slots
				items = append(items, Item{Own: &o})
			} else {
				ins(o)
			}
		}
		f.Hosts = append(f.Hosts, items)
	}
	return f
}

// dedicated fleets: every list-valued option shared by three hosts, alone / followed by an own one
// / preceded by an own one, per constructor kind.
func genDedicatedFleets() []Fleet {
	var out []Fleet
	ctx := map[string][]Opt{
		"WithStandardTransportExtraCiphers": {{N: "WithTransportType", S: "standard"}},
		"WithStandardTransportExtraKexs":    {{N: "WithTransportType", S: "standard"}},
	}
	for _, k := range allK {
		for _, name := range []string{"WithSystemTransportOpenArgs", "WithSystemTransportOpenArgsOverride", "WithFailedWhenContains",
			"WithStandardTransportExtraCiphers", "WithStandardTransportExtraKexs"} {
			for shape := 0; shape < 3; shape++ {
				f := Fleet{K: k, Cap: 8, Shared: append(append([]Opt{}, ctx[name]...), Opt{N: name, L: []string{"-o", "Shared=yes"}})}
				if k == kNetwork {
					f.Shared = append(f.Shared, Opt{N: "WithPrivilegeLevels", I: 1}, Opt{N: "WithDefaultDesiredPriv", S: "exec"})
				}
				if isPlatformK(k) {
					f.Plat = &PlatDef{Privs: 1, DDP: "exec"}
					if shape == 2 {
						f.Plat.Options = []PlatOpt{{Name: "transport-system-open-args", Kind: "list", L: []string{"-F", "/dev/null"}}}
					}
				}
				for h := 1; h <= 3; h++ {
					var items []Item
					own := Opt{N: name, L: []string{"-J", fmt.Sprintf("host%d", h)}}
					if shape == 2 {
						items = append(items, Item{Own: &own})
					}
					for i := range f.Shared {
						items = append(items, Item{Shared: i + 1})
					}
					if shape == 1 {
						items = append(items, Item{Own: &own})
					}
					f.Hosts = append(f.Hosts, items)
				}
				out = append(out, f)
			}
		}
	}
	return out
}

func runFleets(d Desc) mon.Result {
	res := mon.Result{Verdict: mon.Held, Obs: map[string]int64{}}
	tags := map[string]bool{}
	var viol []string
	nviol := 0
	for i, f := range d.Fleets {
		lr := runFleet(f)
		for k, v := range lr.obs {
			res.Obs[k] += v
		}
		for _, t := range lr.tags {
			tags[t] = true
		}
		if lr.nontrivial {
			res.NonTrivial = true
		}
		if lr.key != "" {
			nviol++
			if res.Key == "" {
				res.Verdict, res.Key = mon.Violated, lr.key
				res.Events = map[string]interface{}{"fleet_index": i, "fleet": f}
			}
			if len(viol) < 4 {
				viol = append(viol, fmt.Sprintf("fleet %d: [%s] %s", i, lr.key, lr.detail))
			}
		}
	}
	for t := range tags {
		res.Tags = append(res.Tags, t)
	}
	if res.Key != "" {
		res.Detail = fmt.Sprintf("%d of %d fleets of this case violate\n%s", nviol, len(d.Fleets), strings.Join(viol, "\n"))
		return res
	}
	res.Sample = map[string]interface{}{"what": d.What, "fleets": len(d.Fleets), "drivers": res.Obs["fleet_drivers"], "snapshots": res.Obs["fleet_snapshots"]}
	return res
}
