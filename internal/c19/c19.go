// Package c19: driver options land on their target regardless of order; user options win.
//
// Oracle: an option effect table (table.go) written from the options' documentation, folded left
// to right over an option list, against a reflective dump of ALL public fields of what the
// constructor built (snapshot.go). Whole-snapshot equality checks "and on nothing else".
package c19

import (
	"errors"
	"fmt"
	"math/rand"
	"reflect"
	"sort"
	"strings"
	"time"

	"github.com/scrapli/scrapligo/driver/opoptions"
	"github.com/scrapli/scrapligo/driver/options"
	"github.com/scrapli/scrapligo/logging"
	"github.com/scrapli/scrapligo/transport"
	"github.com/scrapli/scrapligo/util"

	"verif/internal/devsim"
	"verif/internal/mon"
	"verif/internal/ncsim"
)

// LogOpt is one option of the logging package (logging.NewInstance).
type LogOpt struct {
	Kind string `json:"kind"` // level | logger | formatter
	S    string `json:"s,omitempty"`
	I    int    `json:"i,omitempty"`
}

// Desc is a case descriptor.
type Desc struct {
	Kind     string     `json:"kind"` // lists | baseline | logger | loginst | fleets
	What     string     `json:"what,omitempty"`
	K        string     `json:"k,omitempty"`
	Lists    []List     `json:"lists,omitempty"`
	LogLists [][]LogOpt `json:"log_lists,omitempty"`
	Fleets   []Fleet    `json:"fleets,omitempty"`
	// SliceFleets: one []util.Option value spread into several constructor calls (oneslice.go)
	SliceFleets []SliceFleet `json:"slice_fleets,omitempty"`
	// Open: sessions whose settings are re-read after Open / use / Close (open.go)
	Open []OpenScenario `json:"open,omitempty"`
}

// ---------------------------------------------------------------------------------------------
// generators

func pickHome(r *rand.Rand) string {
	switch r.Intn(5) {
	case 0:
		return "B"
	case 1:
		return "C"
	}
	return "A"
}

func insertAt(l []Opt, i int, o Opt) []Opt {
	l = append(l, Opt{})
	copy(l[i+1:], l[i:])
	l[i] = o
	return l
}

func hasOpt(l []Opt, n string) bool {
	for _, o := range l {
		if o.N == n {
			return true
		}
	}
	return false
}

// withRequired inserts what the network constructor cannot do without, at PRNG-chosen positions.
func withRequired(r *rand.Rand, k string, l []Opt) []Opt {
	if k != kNetwork {
		return l
	}
	if !hasOpt(l, "WithPrivilegeLevels") {
		l = insertAt(l, r.Intn(len(l)+1), specByName["WithPrivilegeLevels"].Gen(r))
	}
	if !hasOpt(l, "WithDefaultDesiredPriv") {
		l = insertAt(l, r.Intn(len(l)+1), specByName["WithDefaultDesiredPriv"].Gen(r))
	}
	return l
}

var floatPool = []float64{0.5, 1.0, 30.0, 0.00025, 2.5, 0.0, 120.0, 0.005}

func genPlatOpt(r *rand.Rand, name string) PlatOpt {
	sp := platSpecByName[name]
	o := PlatOpt{Name: name, Kind: sp.Kind}
	switch name {
	case "port", "read-size", "transport-pty-height", "transport-pty-width":
		o.I = intPool[r.Intn(len(intPool))]
	case "auth-bypass", "auth-strict-key":
		switch r.Intn(3) {
		case 0:
			o.Kind = "none" // flag form
		case 1:
			o.B = true
		}
	case "prompt-pattern", "username-pattern", "password-pattern", "passphrase-pattern":
		o.S = ps(r, rePool)
	case "return-char":
		o.S = ps(r, []string{"\n", "\r", "\r\n", "\n\n"})
	case "read-delay", "timeout-ops":
		o.F = floatPool[r.Intn(len(floatPool))]
	case "transport-type":
		o.S = ps(r, ttPool)
	case "transport-system-open-args":
		o.L = listPool[2+r.Intn(len(listPool)-2)]
	}
	return o
}

func genPlatDef(r *rand.Rand) *PlatDef {
	d := &PlatDef{Privs: r.Intn(3), DDP: ps(r, []string{"exec", "privilege-exec", "configuration"})}
	if r.Intn(3) == 0 {
		d.FailedWhen = listPool[2+r.Intn(len(listPool)-2)]
	}
	d.OnOpen, d.OnClose, d.NetOnOpen, d.NetOnClose = r.Intn(4) == 0, r.Intn(4) == 0, r.Intn(4) == 0, r.Intn(4) == 0
	if r.Intn(10) < 7 {
		n := 1 + r.Intn(6)
		if r.Intn(10) == 0 {
			n = len(platSpecs)
		}
		perm := r.Perm(len(platSpecs))
		for _, i := range perm[:n] {
			d.Options = append(d.Options, genPlatOpt(r, platSpecs[i].Name))
		}
		if r.Intn(4) == 0 { // the same entry twice: the later one wins
			d.Options = append(d.Options, genPlatOpt(r, d.Options[r.Intn(len(d.Options))].Name))
		}
	}
	if r.Intn(10) < 3 { // built through NewPlatformVariant; the variant never names options
		v := &PlatVariant{DriverType: r.Intn(3) == 0}
		switch r.Intn(4) {
		case 0: // states nothing
		case 1:
			v.FailedWhen = listPool[2+r.Intn(len(listPool)-2)]
		case 2:
			v.HasPrivs, v.Privs, v.DDP = true, r.Intn(3), ps(r, []string{"", "exec", "privilege-exec"})
		default:
			v.FailedWhen = listPool[2+r.Intn(len(listPool)-2)]
			v.OnOpen, v.OnClose, v.NetOnOpen, v.NetOnClose = r.Intn(2) == 0, r.Intn(2) == 0, r.Intn(2) == 0, r.Intn(2) == 0
			v.DDP = ps(r, []string{"", "configuration"})
		}
		d.Variant = v
	}
	return d
}

// genPlatformVariants: every platform option in the DEFAULT's options block, the platform built
// through NewPlatformVariant with a variant that names no options (states nothing / other blocks
// only): the default's options must all still take effect, user options still win.
func genPlatformVariants(r *rand.Rand) []List {
	var out []List
	shapes := []PlatVariant{
		{},
		{FailedWhen: []string{"% variant"}},
		{HasPrivs: true, Privs: 2, DDP: "configuration"},
		{OnOpen: true, NetOnClose: true, DriverType: true},
	}
	for _, ps := range platSpecs {
		user := userFor[ps.Name]
		if user == "" {
			user = ps.To(PlatOpt{}).N
		}
		for _, k := range []string{kPlatGen, kPlatNet} {
			for si := range shapes {
				v := shapes[si]
				po := genPlatOpt(r, ps.Name)
				def := func(o ...PlatOpt) *PlatDef {
					vv := v
					return &PlatDef{Privs: 1, DDP: "exec", FailedWhen: []string{"% default"}, Options: o, Variant: &vv}
				}
				out = append(out,
					List{K: k, Home: "A", Hint: ps.Name, Plat: def(po)},
					List{K: k, Home: "A", Hint: ps.Name, Plat: def(genPlatOpt(r, "port"), po, genPlatOpt(r, "timeout-ops"))},
					List{K: k, Home: "A", Hint: ps.Name, Plat: def(po), Opts: []Opt{specByName[user].Gen(r)}})
			}
		}
	}
	// a full block under every shape
	for _, k := range []string{kPlatGen, kPlatNet} {
		for si := range shapes {
			v := shapes[si]
			var all []PlatOpt
			for _, ps := range platSpecs {
				all = append(all, genPlatOpt(r, ps.Name))
			}
			out = append(out, List{K: k, Home: "A", Hint: "all", Plat: &PlatDef{Privs: 1, DDP: "exec", Options: all, Variant: &v}})
		}
	}
	return out
}

func genRandomList(r *rand.Rand) List {
	l := List{K: allK[r.Intn(len(allK))], Home: pickHome(r)}
	n := 1 + r.Intn(12)
	all := r.Intn(12) == 0
	if all {
		n = len(specs)
		l.Home = "A"
	}
	perm := r.Perm(len(specs))
	for _, i := range perm[:n] {
		l.Opts = append(l.Opts, specs[i].Gen(r))
	}
	if r.Intn(5) < 2 { // the same setting again with another value, somewhere else in the list
		for j := 1 + r.Intn(3); j > 0; j-- {
			o := l.Opts[r.Intn(len(l.Opts))]
			l.Opts = insertAt(l.Opts, r.Intn(len(l.Opts)+1), specByName[o.N].Gen(r))
		}
	}
	if !all && r.Intn(8) == 0 { // one invalid value
		var bad []*optSpec
		for _, s := range specs {
			if s.GenBad != nil {
				bad = append(bad, s)
			}
		}
		l.Opts = insertAt(l.Opts, r.Intn(len(l.Opts)+1), *bad[r.Intn(len(bad))].GenBad(r))
	}
	l.Opts = withRequired(r, l.K, l.Opts)
	if isPlatformK(l.K) {
		l.Plat = genPlatDef(r)
	}
	return l
}

// contexts a single option is tried in: which transport the constructor builds
func contexts() [][]Opt {
	return [][]Opt{
		nil,
		{{N: "WithTransportType", S: transport.StandardTransport}},
		{{N: "WithTransportType", S: transport.TelnetTransport}},
		{{N: "WithTransportType", S: transport.FileTransport}},
		{{N: "WithCustomTransport", I: 0}},
		{{N: "WithCustomTransport", I: 2}},
		{{N: "WithTransportType", S: transport.StandardTransport}, {N: "WithTransportType", S: transport.SystemTransport}},
	}
}

// every single option x every constructor x every context, before and after the context options;
// the same option twice; an invalid value.
func genSingles(r *rand.Rand, sp *optSpec) []List {
	var out []List
	req := func(k string, l []Opt) []Opt {
		if k == kNetwork {
			l = append([]Opt{{N: "WithPrivilegeLevels", I: 1}, {N: "WithDefaultDesiredPriv", S: "privilege-exec"}}, l...)
		}
		return l
	}
	for _, k := range allK {
		var plat *PlatDef
		if isPlatformK(k) {
			plat = &PlatDef{Privs: 1, DDP: "privilege-exec"}
		}
		for _, home := range []string{"A", "B"} {
			if home == "B" && sp.Invalid == nil {
				continue
			}
			for _, ctx := range contexts() {
				v := sp.Gen(r)
				out = append(out,
					List{K: k, Home: home, Plat: plat, Opts: req(k, append(append([]Opt{}, ctx...), v))},
					List{K: k, Home: home, Plat: plat, Opts: req(k, append([]Opt{v}, ctx...))})
				if sp.GenBad != nil {
					out = append(out, List{K: k, Home: home, Plat: plat, Strict: true, Opts: req(k, append(append([]Opt{}, ctx...), *sp.GenBad(r)))})
				}
			}
			v1, v2 := sp.Gen(r), sp.Gen(r)
			out = append(out, List{K: k, Home: home, Plat: plat, Opts: req(k, []Opt{v1, v2})},
				List{K: k, Home: home, Plat: plat, Opts: req(k, []Opt{v2, {N: "WithPort", I: 830}, v1})})
		}
	}
	return out
}

// user option for the same setting as a platform option
var userFor = map[string]string{"auth-bypass": "WithAuthBypass", "auth-strict-key": "WithAuthNoStrictKey"}

// genPlatformBoolTwice: a bool-typed entry twice in one options block: the later value wins.
func genPlatformBoolTwice(r *rand.Rand, ps platSpec) []List {
	var out []List
	for _, k := range []string{kPlatGen, kPlatNet} {
		bo := func(kind string, b bool) PlatOpt { return PlatOpt{Name: ps.Name, Kind: kind, B: b} }
		for _, pair := range [][2]PlatOpt{{bo("bool", true), bo("bool", false)}, {bo("bool", false), bo("bool", true)},
			{bo("none", false), bo("bool", false)}, {bo("none", false), bo("bool", true)}, {bo("bool", true), bo("none", false)}, {bo("bool", false), bo("none", false)}} {
			out = append(out, List{K: k, Home: "A", Hint: ps.Name, Plat: &PlatDef{Privs: 1, DDP: "exec", Options: []PlatOpt{pair[0], genPlatOpt(r, "port"), pair[1]}}})
		}
	}
	return out
}

func genPlatformOption(r *rand.Rand, ps platSpec) []List {
	var out []List
	user := userFor[ps.Name]
	if user == "" {
		user = ps.To(PlatOpt{}).N
	}
	for _, k := range []string{kPlatGen, kPlatNet} {
		var vals []PlatOpt
		if ps.Kind == "bool" {
			vals = []PlatOpt{{Name: ps.Name, Kind: "bool", B: true}, {Name: ps.Name, Kind: "bool", B: false}, {Name: ps.Name, Kind: "none"}}
		} else {
			for i := 0; i < 3; i++ {
				vals = append(vals, genPlatOpt(r, ps.Name))
			}
			if ps.Kind == "list" {
				vals = append(vals, PlatOpt{Name: ps.Name, Kind: "list", L: []string{}}, PlatOpt{Name: ps.Name, Kind: "list", L: []string{"-o", "a b", "é"}})
			}
		}
		for _, v := range vals {
			dis := v.Kind == "bool" && ((ps.Name == "auth-bypass" && !v.B) || (ps.Name == "auth-strict-key" && v.B))
			def := func(o ...PlatOpt) *PlatDef { return &PlatDef{Privs: 1, DDP: "exec", Options: o} }
			u := specByName[user].Gen(r)
			out = append(out,
				// alone
				List{K: k, Home: "A", Hint: ps.Name, Disagree: dis, Plat: def(v)},
				// with the user option for the same setting: the user's value wins (additive: accumulates after)
				List{K: k, Home: "A", Hint: ps.Name, Disagree: dis && ps.Name == "auth-bypass", Plat: def(v), Opts: []Opt{u}},
				// among other entries, and with an unrelated user option
				List{K: k, Home: "A", Hint: ps.Name, Disagree: dis, Plat: def(genPlatOpt(r, "port"), v, genPlatOpt(r, "return-char")), Opts: []Opt{{N: "WithAuthUsername", S: "u"}}})
			if ps.Kind != "bool" {
				// the same entry twice
				out = append(out, List{K: k, Home: "A", Hint: ps.Name, Plat: def(v, genPlatOpt(r, ps.Name))})
			}
		}
	}
	return out
}

// genNetworkRequired: the network constructor (directly and through a platform definition of
// driver-type network) demands privilege levels AND a default desired privilege level; without
// either it answers with a bad-option error. A default desired level that names none of the levels
// is accepted by the library at construction; the property says nothing about it, so only the
// snapshot is judged there.
func genNetworkRequired() []List {
	var out []List
	lv := func(i int) Opt { return Opt{N: "WithPrivilegeLevels", I: i} }
	ddp := func(s string) Opt { return Opt{N: "WithDefaultDesiredPriv", S: s} }
	other := []Opt{{N: "WithPort", I: 2022}, {N: "WithAuthSecondary", S: "enable-secret"}}
	for _, combo := range [][]Opt{
		{lv(1)},                       // levels only
		{ddp("exec")},                 // default desired priv only
		{},                            // neither
		{lv(1), ddp("")},              // an empty default desired priv
		{lv(3), ddp("exec")},          // an empty map of levels
		{lv(3)},                       // empty map, no default
		{lv(1), ddp("exec"), ddp("")}, // valid, then emptied again: the later one wins
		{lv(1), ddp("exec"), lv(3)},
	} {
		for _, wrap := range [][2][]Opt{{nil, nil}, {other, nil}, {nil, other}} {
			l := append(append(append([]Opt{}, wrap[0]...), combo...), wrap[1]...)
			out = append(out, List{K: kNetwork, Home: "A", Strict: true, Opts: l})
		}
	}
	// held behaviour: complete, in either order, emptied then given again, a default that names no level
	for _, combo := range [][]Opt{{lv(1), ddp("exec")}, {ddp("exec"), lv(1)}, {lv(3), ddp(""), lv(2), ddp("configuration")}, {lv(1), ddp("no-such-level")}} {
		out = append(out, List{K: kNetwork, Home: "A", Opts: combo})
	}
	// the same options on constructors that build no network driver: ignored without error
	for _, k := range []string{kGeneric, kNetconf, kPlatGen} {
		out = append(out, List{K: k, Home: "A", Opts: []Opt{lv(1)}}, List{K: k, Home: "A", Opts: []Opt{ddp("exec")}}, List{K: k, Home: "A", Opts: []Opt{lv(3), ddp("")}})
	}
	// platform door, driver-type network
	def := func(privs int, d string) *PlatDef { return &PlatDef{Privs: privs, DDP: d} }
	for _, pd := range []*PlatDef{def(1, ""), def(3, "exec"), def(3, "")} {
		out = append(out,
			List{K: kPlatNet, Home: "A", Strict: true, Plat: pd},
			List{K: kPlatNet, Home: "A", Strict: true, Plat: pd, Opts: other},
			List{K: kPlatNet, Home: "A", Strict: true, Plat: &PlatDef{Privs: pd.Privs, DDP: pd.DDP, Options: []PlatOpt{{Name: "port", Kind: "int", I: 830}}}})
	}
	out = append(out,
		// the user supplies what the definition lacks: valid
		List{K: kPlatNet, Home: "A", Plat: def(1, ""), Opts: []Opt{ddp("privilege-exec")}},
		List{K: kPlatNet, Home: "A", Plat: def(3, "exec"), Opts: []Opt{lv(2)}},
		List{K: kPlatNet, Home: "A", Plat: def(3, ""), Opts: []Opt{ddp("exec"), lv(0)}},
		// the user empties what the definition gave: the user's (later) value wins -> rejected
		List{K: kPlatNet, Home: "A", Strict: true, Plat: def(1, "exec"), Opts: []Opt{ddp("")}},
		List{K: kPlatNet, Home: "A", Strict: true, Plat: def(1, "exec"), Opts: []Opt{lv(3)}},
		// a default that names no level: accepted by the library, not judged beyond the snapshot
		List{K: kPlatNet, Home: "A", Plat: def(1, "no-such-level")})
	return out
}

func genLogLists(r *rand.Rand, n int) [][]LogOpt {
	var out [][]LogOpt
	for i := 0; i < n; i++ {
		var l []LogOpt
		for j := r.Intn(7); j > 0; j-- {
			switch r.Intn(4) {
			case 0:
				l = append(l, LogOpt{Kind: "level", S: ps(r, []string{"info", "debug", "critical", "DEBUG", "Info", "CRITICAL"})})
			case 1:
				l = append(l, LogOpt{Kind: "formatter", I: r.Intn(2)})
			default:
				l = append(l, LogOpt{Kind: "logger", I: r.Intn(4)})
			}
		}
		if r.Intn(10) == 0 {
			l = append(l, LogOpt{Kind: "level", S: ps(r, []string{"warn", "", "trace", "infoo"})})
			j := r.Intn(len(l))
			l[j], l[len(l)-1] = l[len(l)-1], l[j]
		}
		out = append(out, l)
	}
	return out
}

func gen(tier string, seed int64) []mon.Case {
	r := rand.New(rand.NewSource(seed*104729 + 19))
	var cs []mon.Case
	for _, k := range allK {
		cs = append(cs, mon.MkCase("c19/baseline/"+k, Desc{Kind: "baseline", K: k}))
	}
	for _, k := range allK {
		cs = append(cs, mon.MkCase("c19/logger/"+k, Desc{Kind: "logger", K: k}))
	}
	nLog := 200
	if tier == "thorough" {
		nLog = 5000
	}
	cs = append(cs, mon.MkCase("c19/logging-instance", Desc{Kind: "loginst", LogLists: genLogLists(r, nLog)}))
	for _, sp := range specs {
		cs = append(cs, mon.MkCase("c19/single/"+sp.Name, Desc{Kind: "lists", What: "single:" + sp.Name, Lists: genSingles(r, sp)}))
	}
	cs = append(cs, mon.MkCase("c19/platform-variant", Desc{Kind: "lists", What: "platform-variant", Lists: genPlatformVariants(r)}))
	cs = append(cs, mon.MkCase("c19/invalid/network-required-options", Desc{Kind: "lists", What: "invalid:network-required-options", Lists: genNetworkRequired()}))
	for _, ps := range platSpecs {
		cs = append(cs, mon.MkCase("c19/platform-option/"+ps.Name, Desc{Kind: "lists", What: "platform-option:" + ps.Name, Lists: genPlatformOption(r, ps)}))
		if ps.Kind == "bool" {
			cs = append(cs, mon.MkCase("c19/platform-option-twice/"+ps.Name, Desc{Kind: "lists", What: "platform-option-twice:" + ps.Name, Lists: genPlatformBoolTwice(r, ps)}))
		}
	}
	cs = append(cs, mon.MkCase("c19/fleet/dedicated", Desc{Kind: "fleets", What: "fleet:dedicated", Fleets: genDedicatedFleets()}))
	fb, fper := 10, 30
	if tier == "thorough" {
		fb, fper = 100, 100
	}
	for b := 0; b < fb; b++ {
		d := Desc{Kind: "fleets", What: "fleet:random"}
		for i := 0; i < fper; i++ {
			d.Fleets = append(d.Fleets, genFleet(r))
		}
		cs = append(cs, mon.MkCase(fmt.Sprintf("c19/fleet/%04d", b), d))
	}
	cs = append(cs, mon.MkCase("c19/one-slice/dedicated", Desc{Kind: "oneslice", What: "one-slice:dedicated", SliceFleets: genDedicatedSliceFleets()}))
	for b := 0; b < fb; b++ {
		d := Desc{Kind: "oneslice", What: "one-slice:random"}
		for i := 0; i < fper; i++ {
			d.SliceFleets = append(d.SliceFleets, genSliceFleet(r))
		}
		cs = append(cs, mon.MkCase(fmt.Sprintf("c19/one-slice/%04d", b), d))
	}
	cs = append(cs, mon.MkCase("c19/open/dedicated", Desc{Kind: "open", What: "open:dedicated", Open: genDedicatedOpen()}))
	ob, oper := 2, 40
	if tier == "thorough" {
		ob, oper = 20, 60
	}
	for b := 0; b < ob; b++ {
		d := Desc{Kind: "open", What: "open:random"}
		for i := 0; i < oper; i++ {
			d.Open = append(d.Open, genOpenScenario(r))
		}
		cs = append(cs, mon.MkCase(fmt.Sprintf("c19/open/%04d", b), d))
	}
	batches, per := 100, 40
	if tier == "thorough" {
		batches, per = 1000, 200
	}
	for b := 0; b < batches; b++ {
		d := Desc{Kind: "lists", What: "random"}
		for i := 0; i < per; i++ {
			d.Lists = append(d.Lists, genRandomList(r))
		}
		cs = append(cs, mon.MkCase(fmt.Sprintf("c19/random/%04d", b), d))
	}
	return cs
}

// ---------------------------------------------------------------------------------------------
// running

func runLists(d Desc) mon.Result {
	res := mon.Result{Verdict: mon.Held, Obs: map[string]int64{}}
	tags := map[string]bool{}
	var viol []string
	nviol := 0
	keys := map[string]int{}
	for i, l := range d.Lists {
		lr := runList(l)
		for k, v := range lr.obs {
			res.Obs[k] += v
		}
		for _, t := range lr.tags {
			tags[t] = true
		}
		if lr.nontrivial {
			res.NonTrivial = true
			res.Obs["nontrivial_lists"]++
		}
		if lr.key != "" {
			keys[lr.key]++
			nviol++
			if res.Key == "" {
				res.Verdict = mon.Violated
				res.Key = lr.key
				res.Events = map[string]interface{}{"list_index": i, "list": l}
			}
			if len(viol) < 6 {
				viol = append(viol, fmt.Sprintf("list %d: [%s] %s", i, lr.key, lr.detail))
			}
		}
	}
	for t := range tags {
		res.Tags = append(res.Tags, t)
	}
	sort.Strings(res.Tags)
	if res.Key != "" {
		var ks []string
		for k, n := range keys {
			ks = append(ks, fmt.Sprintf("%s x%d", k, n))
		}
		sort.Strings(ks)
		res.Detail = fmt.Sprintf("%d of %d lists of this case violate; classes: %s\n%s", nviol, len(d.Lists), strings.Join(ks, ", "), strings.Join(viol, "\n"))
		return res
	}
	if len(d.Lists) > 0 {
		l := d.Lists[0]
		var n []string
		for _, o := range l.Opts {
			n = append(n, o.N)
		}
		res.Sample = map[string]interface{}{"what": d.What, "lists": len(d.Lists), "first_list_constructor": l.K, "first_list_options": strings.Join(n, ","),
			"fields_compared_total": res.Obs["fields_compared"]}
	}
	return res
}

type opener interface {
	Open() error
	Close() error
}

func closeQuietly(d opener) {
	done := make(chan struct{})
	go func() { defer func() { recover(); close(done) }(); d.Close() }()
	select {
	case <-done:
	case <-time.After(5 * time.Second):
	}
}

// runLogger: with options.WithLogger(instance) a message emitted by each layer reaches the user's
// logger, wherever the option stands in the list, and also after an earlier WithDefaultLogger.
func runLogger(d Desc) mon.Result {
	res := mon.Result{Verdict: mon.Held, Obs: map[string]int64{}, NonTrivial: true}
	k := d.K
	bad := func(layer, f string, a ...interface{}) mon.Result {
		return mon.Result{Verdict: mon.Violated, Key: "c19/logger-not-effective:" + k + ":" + layer, Detail: fmt.Sprintf(f, a...), NonTrivial: true}
	}
	req := func(o []util.Option) []util.Option {
		if k == kNetwork {
			o = append(o, options.WithPrivilegeLevels(privPool(0)), options.WithDefaultDesiredPriv("exec"))
		}
		return o
	}
	place := func(pos int, lg util.Option, others []util.Option) []util.Option {
		switch pos {
		case 0:
			return append([]util.Option{lg}, others...)
		case 1:
			return append(append([]util.Option{}, others...), lg)
		}
		o := append([]util.Option{options.WithDefaultLogger()}, others...)
		mid := len(o) / 2
		o = append(o[:mid:mid], append([]util.Option{lg}, o[mid:]...)...)
		return o
	}
	for pos := 0; pos < 3; pos++ {
		// (a) system transport, unreadable private key: Open fails before anything is spawned; the driver
		// (debug), the transport (critical) and the channel (critical) each say something on the way.
		c := &collector{}
		inst, _ := logging.NewInstance(logging.WithLevel("debug"), logging.WithLogger(c.log))
		b := construct(k, &PlatDef{DDP: "exec"}, place(pos, options.WithLogger(inst),
			req([]util.Option{options.WithAuthPrivateKey("/nonexistent/c19/id_key", ""), options.WithPort(2222)})))
		if b.panicked != nil || b.err != nil {
			return mon.Result{Verdict: mon.Violated, Key: "c19/unexpected-error:" + k + ":logger-check", Detail: fmt.Sprintf("constructor failed: %v %v", b.err, b.panicked)}
		}
		err := b.drv.(opener).Open()
		if err == nil {
			closeQuietly(b.drv.(opener))
			return mon.Result{Verdict: mon.Inconclusive, Detail: "Open with an unreadable private key unexpectedly succeeded"}
		}
		for _, w := range [][2]string{{"driver", "opening connection to host"}, {"transport", "error reading ssh key"}, {"channel", "error opening channel"}} {
			res.Obs["layer_messages_checked"]++
			if !c.has(w[1]) {
				return bad(w[0], "position %d: the %s-level message %q never reached the logger given with options.WithLogger to the %s constructor; it received %q",
					pos, w[0], w[1], k, c.all())
			}
		}
		// (b) a working session over the device model
		c = &collector{}
		inst, _ = logging.NewInstance(logging.WithLevel("debug"), logging.WithLogger(c.log))
		var conn *devsim.Conn
		if k == kNetconf {
			srv := &ncsim.Server{HelloBytes: ncsim.Hello([]string{ncsim.Cap10, ncsim.Cap11}, "7")}
			srv.OnMsg = func(s *ncsim.Server, cn *devsim.Conn, m *ncsim.Msg) {
				if m.Hello {
					return
				}
				p := ncsim.Reply(m.ID, "<data><x>1</x></data>")
				s.Send(cn, p, []int{len(p)})
			}
			conn = devsim.NewConn(srv, devsim.Config{Seg: devsim.Seg{Mode: "whole", Seed: 1}})
		} else {
			dev := &devsim.CLI{Prompts: map[string]string{"exec": "r1>"}, Mode: "exec", NL: "\r\n"}
			dev.Handler = func(*devsim.CLI, string, string) devsim.Reply { return devsim.Reply{} }
			conn = devsim.NewConn(dev, devsim.Config{Seg: devsim.Seg{Mode: "whole", Seed: 1}})
		}
		b = construct(k, &PlatDef{DDP: "exec"}, place(pos, options.WithLogger(inst),
			req([]util.Option{options.WithCustomTransport(conn), options.WithTimeoutOps(20 * time.Second)})))
		if b.panicked != nil || b.err != nil {
			conn.Abandon()
			return mon.Result{Verdict: mon.Violated, Key: "c19/unexpected-error:" + k + ":logger-check", Detail: fmt.Sprintf("constructor failed: %v %v", b.err, b.panicked)}
		}
		drv := b.drv.(opener)
		t0 := time.Now()
		if err := drv.Open(); err != nil {
			conn.Abandon()
			if mon.LoadedSince(t0) {
				return mon.Result{Verdict: mon.Inconclusive, Detail: "Open over the device model failed under load: " + err.Error()}
			}
			return mon.Result{Verdict: mon.Inconclusive, Detail: "Open over the device model failed: " + err.Error()}
		}
		want := [][2]string{{"channel", "starting channel read loop"}}
		if k == kNetconf {
			m := reflect.ValueOf(b.drv).MethodByName("Get")
			out := m.Call([]reflect.Value{reflect.ValueOf("<a/>"), reflect.ValueOf(opoptions.WithTimeoutOps(10 * time.Second))})
			if e, _ := out[1].Interface().(error); e != nil {
				closeQuietly(drv)
				conn.Abandon()
				return mon.Result{Verdict: mon.Inconclusive, Detail: "Get over the NETCONF server model failed: " + e.Error()}
			}
			want = append(want, [2]string{"driver", "Get RPC requested"})
		} else {
			want = append(want, [2]string{"driver", "connection opened successfully"})
		}
		closeQuietly(drv)
		conn.Abandon()
		for _, w := range want {
			res.Obs["layer_messages_checked"]++
			if !c.has(w[1]) {
				return bad(w[0], "position %d: the %s-level message %q never reached the logger given with options.WithLogger to the %s constructor; it received %d message(s): %q",
					pos, w[0], w[1], k, len(c.all()), clipAll(c.all()))
			}
		}
		res.Obs["logger_sessions"] += 2
	}
	res.Tags = []string{"logger-check=" + k}
	res.Sample = map[string]interface{}{"constructor": k, "positions": 3, "layers": "driver, channel, transport"}
	return res
}

func clipAll(l []string) []string {
	if len(l) > 12 {
		l = l[:12]
	}
	for i := range l {
		if len(l[i]) > 100 {
			l[i] = l[i][:100] + "…"
		}
	}
	return l
}

// runLogInst: the logging package's own options: loggers accumulate in order, level/formatter:
// later wins, unknown level is a bad option.
func runLogInst(d Desc) mon.Result {
	res := mon.Result{Verdict: mon.Held, Obs: map[string]int64{}}
	fmts := []func(string, string) string{fmtA, fmtB}
	for i, l := range d.LogLists {
		var colls [4]*collector
		for j := range colls {
			colls[j] = &collector{}
		}
		var opts []util.Option
		level, fm, invalid := "info", "func:github.com/scrapli/scrapligo/logging.DefaultFormatter", false
		var order []int
		for _, o := range l {
			switch o.Kind {
			case "level":
				opts = append(opts, logging.WithLevel(o.S))
				switch s := strings.ToLower(o.S); s {
				case "info", "debug", "critical":
					level = s
				default:
					invalid = true
				}
			case "formatter":
				opts = append(opts, logging.WithFormatter(fmts[o.I&1]))
				fm = funcName(reflect.ValueOf(fmts[o.I&1]))
			case "logger":
				opts = append(opts, logging.WithLogger(colls[o.I&3].log))
				order = append(order, o.I&3)
			}
		}
		bad := func(key, f string, a ...interface{}) mon.Result {
			return mon.Result{Verdict: mon.Violated, Key: "c19/logging-instance:" + key, NonTrivial: true,
				Detail: fmt.Sprintf("logging option list %d %+v: ", i, l) + fmt.Sprintf(f, a...)}
		}
		inst, err := logging.NewInstance(opts...)
		res.Obs["logging_option_lists"]++
		if invalid {
			if err == nil {
				return bad("invalid-level-accepted", "an unknown level was accepted")
			}
			if !errors.Is(err, util.ErrBadOption) {
				return bad("wrong-error-class", "an unknown level was rejected with %q, not a bad-option error", err)
			}
			continue
		}
		if err != nil {
			return bad("unexpected-error", "NewInstance failed: %v", err)
		}
		if inst.Level != level || funcName(reflect.ValueOf(inst.Formatter)) != fm {
			return bad("later-wins", "level %q formatter %s, expected %q %s", inst.Level, funcName(reflect.ValueOf(inst.Formatter)), level, fm)
		}
		if len(inst.Loggers) != len(order) {
			return bad("loggers-accumulate", "%d loggers registered, expected %d", len(inst.Loggers), len(order))
		}
		// identity and order: call each registered logger directly and see which collector hears it
		for j, f := range inst.Loggers {
			probe := fmt.Sprintf("probe-%d-%d", i, j)
			f(probe)
			if !colls[order[j]].has(probe) {
				return bad("loggers-accumulate", "logger at position %d is not the %d-th one given (expected collector %d)", j, j, order[j])
			}
		}
		// behaviour: one critical message reaches every registered logger once per registration
		inst.Critical("c19-critical-marker")
		count := map[int]int{}
		for _, k := range order {
			count[k]++
		}
		for k, c := range colls {
			n := 0
			for _, m := range c.all() {
				if strings.Contains(m, "c19-critical-marker") {
					n++
				}
			}
			if n != count[k] {
				return bad("emit", "collector %d received the message %d time(s), registered %d time(s)", k, n, count[k])
			}
		}
		if len(order) >= 2 {
			res.NonTrivial = true
			res.Obs["logging_lists_with_2plus_loggers"]++
		}
	}
	res.Tags = []string{"logging-instance-options"}
	return res
}

func run(c mon.Case) mon.Result {
	var d Desc
	c.Decode(&d)
	switch d.Kind {
	case "baseline":
		if key, detail := checkBaselines(d.K); key != "" {
			return mon.Result{Verdict: mon.Violated, Key: key, Detail: detail, NonTrivial: true}
		}
		b, _ := baseline(d.K, transport.SystemTransport)
		return mon.Result{Verdict: mon.Held, NonTrivial: true, Obs: map[string]int64{"baseline_fields": int64(len(b)), "baselines": 4},
			Tags: []string{"baseline=" + d.K}, Sample: map[string]interface{}{"constructor": d.K, "public_fields_in_snapshot": len(b)}}
	case "logger":
		return runLogger(d)
	case "loginst":
		return runLogInst(d)
	case "fleets":
		return runFleets(d)
	case "oneslice":
		return runSliceFleets(d)
	case "open":
		return runOpenScenarios(d)
	}
	return runLists(d)
}

func init() {
	mon.Register(&mon.Property{
		ID:    "C19",
		Level: "exploration",
		Rule: "A case is a batch of option lists. Each list: constructor in {generic, network, NETCONF, platform(generic), platform(network)}, PRNG subset (1-12, " +
			"sometimes all 45) of the option functions of driver/options in PRNG order with PRNG valid values, sometimes a repeated setting, sometimes one invalid value; " +
			"platform lists add a generated YAML definition (options block over the 15 recognised names, failed-when-contains, on-X, privilege levels). Dedicated cases: every " +
			"option x constructor x transport context (before/after the context options, twice, invalid value), every platform option x driver type alone / with the user " +
			"option for the same setting / twice, logger delivery per layer, logging-instance options. A list is non-trivial when it holds >= 2 options/entries and a setting " +
			"is given more than once, or an option does not apply to the constructor, or >= 2 distinct target objects are touched (rejections: >= 2 options); a case is " +
			"non-trivial when one of its lists is. Distinct = distinct descriptor hash.",
		Assumptions: []string{
			"reference = option effect table written from the options' documentation (45 options -> object, field, value transform, additive?), folded left to right over the baseline snapshot of the constructor with its minimal required options",
			"snapshot = reflective dump of every public field of the driver, the embedded generic driver, Channel, Transport.Args, the transport implementation and its SSHArgs, plus the private wiring fields Channel.l/Args.l/Channel.t read-only; functions by code pointer, regexps by source, loggers/writers/transports by identity",
			"the network constructor derives Channel.PromptPattern from the privilege levels (documented at UpdatePrivileges) and the NETCONF constructor sets it to the 1.0 delimiter: WithPromptPattern counts as not applicable there; the NETCONF driver keeps only Logger and TransportType of the generic driver it builds",
			"nil and empty string slices are the same value",
			"file-resolving options are judged against a scratch HOME (three variants) and the machine's /etc/ssh; an unresolvable file is an invalid value",
			"nothing is opened except in the logger cases (system transport with an unreadable key: fails before spawning; device models over devsim.Conn)",
			"platform bool-typed options (auth-bypass, auth-strict-key) are read as 'the setting takes the value given'; integer literals for float-typed options are not generated",
		},
		Gen:         gen,
		Run:         run,
		Setup:       setupHomes,
		Teardown:    teardownHomes,
		Workers:     func(string) int { return 8 },
		Parallel:    func(string) int { return 1 }, // HOME is process-wide
		CaseTimeout: 300 * time.Second,
	})
}
