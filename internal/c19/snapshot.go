package c19

import (
	"fmt"
	"io"
	"reflect"
	"regexp"
	"runtime"
	"sort"
	"strings"
	"time"
	"unsafe"

	"github.com/scrapli/scrapligo/logging"
	"github.com/scrapli/scrapligo/transport"
	"github.com/scrapli/scrapligo/util"
)

// A snapshot is the reflective dump of ALL public fields reachable from a constructed driver:
// path -> canonical string. Whole-map equality against the model's expectation is the oracle
// ("takes effect on exactly the setting it names and on nothing else").
//
// Canonical forms: strings %q; ints/bools %v; durations in ns; []string as a %q list (nil == empty);
// []byte as %q; functions by identity (the runtime name of the code pointer - the pools only hold
// distinct top-level functions); regexps by source; logging instances by identity against the
// pool of user instances plus content; io.Writer / transport implementations by identity against
// the pools. Two private fields are read as well (never written): Channel.l / Args.l (must be the
// driver's logger) and Channel.t (must be the driver's transport).
type snapshot map[string]string

type dumper struct {
	p         *pools
	out       snapshot
	rootLog   *logging.Instance // the driver's Logger (first *logging.Instance met at a path ending in "Logger")
	transport unsafe.Pointer    // the driver's *transport.Transport
}

var (
	tDuration = reflect.TypeOf(time.Duration(0))
	tRegexp   = reflect.TypeOf((*regexp.Regexp)(nil))
	tLogger   = reflect.TypeOf((*logging.Instance)(nil))
	tQueue    = reflect.TypeOf((*util.Queue)(nil))
	tTransp   = reflect.TypeOf((*transport.Transport)(nil))
	tImpl     = reflect.TypeOf((*transport.Implementation)(nil)).Elem()
	tWriter   = reflect.TypeOf((*io.Writer)(nil)).Elem()
)

func funcName(v reflect.Value) string {
	if v.IsNil() {
		return "nil"
	}
	f := runtime.FuncForPC(v.Pointer())
	if f == nil {
		return fmt.Sprintf("func@%#x", v.Pointer())
	}
	return "func:" + f.Name()
}

func encStrings(l []string) string {
	q := make([]string, len(l))
	for i, s := range l {
		q[i] = fmt.Sprintf("%q", s)
	}
	return "[" + strings.Join(q, ",") + "]"
}

// encLogger: identity (user#k when it is one of the instances the harness passed in) + content.
func (d *dumper) encLogger(l *logging.Instance) string {
	if l == nil {
		return "nil"
	}
	tag := "auto"
	if d.p != nil {
		for k, u := range d.p.loggers {
			if u == l {
				tag = fmt.Sprintf("user#%d", k)
			}
		}
	}
	names := make([]string, len(l.Loggers))
	for i, f := range l.Loggers {
		names[i] = funcName(reflect.ValueOf(f))
	}
	return fmt.Sprintf("%s{level=%q formatter=%s loggers=[%s]}", tag, l.Level, funcName(reflect.ValueOf(l.Formatter)), strings.Join(names, ","))
}

func (d *dumper) walk(path string, v reflect.Value) {
	t := v.Type()
	switch {
	case t == tDuration:
		d.out[path] = fmt.Sprintf("%dns", v.Int())
		return
	case t == tRegexp:
		if v.IsNil() {
			d.out[path] = "nil"
		} else {
			d.out[path] = "re:" + v.Interface().(*regexp.Regexp).String()
		}
		return
	case t == tLogger:
		l := v.Interface().(*logging.Instance)
		if d.rootLog == nil && l != nil {
			d.rootLog = l
		}
		d.out[path] = d.encLogger(l)
		return
	case t == tQueue:
		if v.IsNil() {
			d.out[path] = "nil"
		} else {
			d.out[path] = "queue"
		}
		return
	case t == tImpl:
		d.walkImpl(path, v)
		return
	case t == tWriter:
		if v.IsNil() {
			d.out[path] = "nil"
			return
		}
		if d.p != nil {
			for k, w := range d.p.writers {
				if e := v.Elem(); e.Kind() == reflect.Ptr && e.Pointer() == reflect.ValueOf(w).Pointer() {
					d.out[path] = fmt.Sprintf("writer#%d", k)
					return
				}
			}
		}
		d.out[path] = "writer:" + v.Elem().Type().String()
		return
	}
	switch v.Kind() {
	case reflect.String:
		d.out[path] = fmt.Sprintf("%q", v.String())
	case reflect.Bool:
		d.out[path] = fmt.Sprintf("%v", v.Bool())
	case reflect.Int, reflect.Int8, reflect.Int16, reflect.Int32, reflect.Int64:
		d.out[path] = fmt.Sprintf("%d", v.Int())
	case reflect.Uint, reflect.Uint8, reflect.Uint16, reflect.Uint32, reflect.Uint64:
		d.out[path] = fmt.Sprintf("%d", v.Uint())
	case reflect.Float32, reflect.Float64:
		d.out[path] = fmt.Sprintf("%v", v.Float())
	case reflect.Func:
		d.out[path] = funcName(v)
	case reflect.Chan:
		if v.IsNil() {
			d.out[path] = "nil"
		} else {
			d.out[path] = "chan"
		}
	case reflect.Slice:
		switch t.Elem().Kind() {
		case reflect.String:
			l := make([]string, v.Len())
			for i := range l {
				l[i] = v.Index(i).String()
			}
			d.out[path] = encStrings(l)
		case reflect.Uint8:
			d.out[path] = fmt.Sprintf("%q", string(v.Bytes()))
		default:
			d.out[path] = fmt.Sprintf("len=%d", v.Len())
			for i := 0; i < v.Len(); i++ {
				d.walk(fmt.Sprintf("%s[%d]", path, i), v.Index(i))
			}
		}
	case reflect.Map:
		var keys []string
		for _, k := range v.MapKeys() {
			keys = append(keys, fmt.Sprintf("%v", k.Interface()))
		}
		sort.Strings(keys)
		d.out[path] = "map" + encStrings(keys)
		for _, k := range v.MapKeys() {
			d.walk(fmt.Sprintf("%s[%v]", path, k.Interface()), v.MapIndex(k))
		}
	case reflect.Ptr:
		if v.IsNil() {
			d.out[path] = "nil"
			return
		}
		if t == tTransp && d.transport == nil {
			d.transport = unsafe.Pointer(v.Pointer())
		}
		d.out[path] = "&" + t.Elem().String()
		if v.Elem().Kind() == reflect.Struct {
			d.walkStruct(path, v.Elem())
		} else {
			d.walk(path+".*", v.Elem())
		}
	case reflect.Interface:
		if v.IsNil() {
			d.out[path] = "nil"
			return
		}
		d.walk(path, v.Elem())
	case reflect.Struct:
		d.walkStruct(path, v)
	default:
		d.out[path] = "?" + t.String()
	}
}

func (d *dumper) walkStruct(path string, v reflect.Value) {
	t := v.Type()
	for i := 0; i < t.NumField(); i++ {
		f := t.Field(i)
		p := f.Name
		if path != "" {
			p = path + "." + f.Name
		}
		if f.PkgPath != "" { // private: only the two wiring fields, read-only
			if !v.Field(i).CanAddr() {
				continue
			}
			switch {
			case f.Type == tLogger && f.Name == "l":
				l := *(**logging.Instance)(unsafe.Pointer(v.Field(i).UnsafeAddr()))
				if l == d.rootLog {
					d.out[path+".(l)"] = "==driver.Logger"
				} else {
					d.out[path+".(l)"] = "!=driver.Logger " + d.encLogger(l)
				}
			case f.Type == tTransp && f.Name == "t":
				if unsafe.Pointer(v.Field(i).Pointer()) == d.transport {
					d.out[path+".(t)"] = "==driver.Transport"
				} else {
					d.out[path+".(t)"] = "!=driver.Transport"
				}
			}
			continue
		}
		d.walk(p, v.Field(i))
	}
}

// walkImpl handles a transport.Implementation interface value: identity against the pool, then
// (for the library's own implementations) every public field including the SSH args.
func (d *dumper) walkImpl(path string, v reflect.Value) {
	if v.IsNil() {
		d.out[path] = "nil"
		return
	}
	e := v.Elem()
	if d.p != nil && e.Kind() == reflect.Ptr {
		for k, im := range d.p.impls {
			if im != nil && reflect.ValueOf(im).Pointer() == e.Pointer() {
				d.out[path] = fmt.Sprintf("impl#%d", k)
				if _, isFile := im.(*transport.File); isFile {
					d.walkStruct(path, e.Elem())
				}
				return
			}
		}
	}
	d.walk(path, e)
}

// snap dumps a constructed driver (any of *generic.Driver, *network.Driver, *netconf.Driver).
func snap(p *pools, drv interface{}) snapshot {
	d := &dumper{p: p, out: snapshot{}}
	v := reflect.ValueOf(drv)
	d.walkStruct("", v.Elem())
	return d.out
}

// encSub encodes a Go value the way the dumper would at path (used by the model, so that the
// expected values go through the same canonicaliser as the observed ones).
func encSub(p *pools, path string, val interface{}, typ reflect.Type) snapshot {
	d := &dumper{p: p, out: snapshot{}}
	v := reflect.New(typ).Elem()
	if val != nil {
		v.Set(reflect.ValueOf(val))
	}
	d.walk(path, v)
	return d.out
}

// replaceSub removes path and everything below it, then inserts sub.
func (s snapshot) replaceSub(path string, sub snapshot) {
	for k := range s {
		if k == path || strings.HasPrefix(k, path+".") || strings.HasPrefix(k, path+"[") {
			delete(s, k)
		}
	}
	for k, v := range sub {
		s[k] = v
	}
}

func (s snapshot) clone() snapshot {
	c := make(snapshot, len(s))
	for k, v := range s {
		c[k] = v
	}
	return c
}

func (s snapshot) sub(path string) snapshot {
	c := snapshot{}
	for k, v := range s {
		if k == path || strings.HasPrefix(k, path+".") || strings.HasPrefix(k, path+"[") {
			c[k] = v
		}
	}
	return c
}

// diff returns the sorted list of paths whose values differ ("path: expected X, got Y").
func diff(exp, got snapshot) (paths []string, lines []string) {
	seen := map[string]bool{}
	for k := range exp {
		seen[k] = true
	}
	for k := range got {
		seen[k] = true
	}
	var ks []string
	for k := range seen {
		ks = append(ks, k)
	}
	sort.Strings(ks)
	for _, k := range ks {
		e, eok := exp[k]
		g, gok := got[k]
		if eok && gok && e == g {
			continue
		}
		if !eok {
			e = "<absent>"
		}
		if !gok {
			g = "<absent>"
		}
		paths = append(paths, k)
		lines = append(lines, fmt.Sprintf("%s: expected %s, got %s", k, e, g))
	}
	return
}
