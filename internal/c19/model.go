package c19

import (
	"bytes"
	"errors"
	"fmt"
	"os"
	"path/filepath"
	"reflect"
	"sort"
	"strconv"
	"strings"
	"sync"
	"time"

	"github.com/scrapli/scrapligo/channel"
	"github.com/scrapli/scrapligo/driver/generic"
	"github.com/scrapli/scrapligo/driver/netconf"
	"github.com/scrapli/scrapligo/driver/network"
	"github.com/scrapli/scrapligo/driver/options"
	"github.com/scrapli/scrapligo/platform"
	"github.com/scrapli/scrapligo/transport"
	"github.com/scrapli/scrapligo/util"
)

func init() {
	objTypes[oGeneric] = reflect.TypeOf(generic.Driver{})
	objTypes[oNetwork] = reflect.TypeOf(network.Driver{})
	objTypes[oNetconf] = reflect.TypeOf(netconf.Driver{})
	objTypes[oArgs] = reflect.TypeOf(transport.Args{})
	objTypes[oSSH] = reflect.TypeOf(transport.SSHArgs{})
	objTypes[oChannel] = reflect.TypeOf(channel.Channel{})
	objTypes[oSystem] = reflect.TypeOf(transport.System{})
	objTypes[oStandard] = reflect.TypeOf(transport.Standard{})
	objTypes[oFile] = reflect.TypeOf(transport.File{})
}

// constructors
const (
	kGeneric  = "generic"
	kNetwork  = "network"
	kNetconf  = "netconf"
	kPlatGen  = "platform-generic"
	kPlatNet  = "platform-network"
	hostName  = "host.c19.invalid"
	platFuncs = "func:github.com/scrapli/scrapligo/platform."
)

var allK = []string{kGeneric, kNetwork, kNetconf, kPlatGen, kPlatNet}

func isNetworkK(k string) bool  { return k == kNetwork || k == kPlatNet }
func isPlatformK(k string) bool { return k == kPlatGen || k == kPlatNet }

// PlatOpt is one entry of a platform definition's options block.
type PlatOpt struct {
	Name string   `json:"option"`
	Kind string   `json:"kind"` // int | float | string | bool | list | none (no value given: flag form of the bool options)
	I    int      `json:"i,omitempty"`
	F    float64  `json:"f,omitempty"`
	S    string   `json:"s,omitempty"`
	B    bool     `json:"b,omitempty"`
	L    []string `json:"l,omitempty"`
}

// PlatDef is what the generated YAML definition contains besides driver-type.
type PlatDef struct {
	Options    []PlatOpt `json:"options,omitempty"`
	FailedWhen []string  `json:"failed_when,omitempty"`
	OnOpen     bool      `json:"on_open,omitempty"`
	OnClose    bool      `json:"on_close,omitempty"`
	NetOnOpen  bool      `json:"net_on_open,omitempty"`
	NetOnClose bool      `json:"net_on_close,omitempty"`
	Privs      int       `json:"privs"`
	DDP        string    `json:"ddp,omitempty"`
	// Variant: the definition also has a `variants:` block and the platform is built through
	// platform.NewPlatformVariant with this variant selected.
	Variant *PlatVariant `json:"variant,omitempty"`
}

// PlatVariant is what the selected variant states. A variant overrides the blocks it states
// (mergeVariant: driver type, failed-when-contains, on-X, privilege levels, default desired
// privilege level); whatever it does not state - the options block in particular - stays as the
// default has it.
type PlatVariant struct {
	FailedWhen []string `json:"failed_when,omitempty"`
	OnOpen     bool     `json:"on_open,omitempty"`
	OnClose    bool     `json:"on_close,omitempty"`
	NetOnOpen  bool     `json:"net_on_open,omitempty"`
	NetOnClose bool     `json:"net_on_close,omitempty"`
	HasPrivs   bool     `json:"has_privs,omitempty"`
	Privs      int      `json:"privs,omitempty"`
	DDP        string   `json:"ddp,omitempty"`
	DriverType bool     `json:"driver_type,omitempty"` // restates the default's driver type
}

const variantName = "c19variant"

// effective returns the definition the selected variant leaves (what mergeVariant documents).
func (d *PlatDef) effective() *PlatDef {
	if d == nil || d.Variant == nil {
		return d
	}
	e := *d
	v := d.Variant
	if len(v.FailedWhen) > 0 {
		e.FailedWhen = v.FailedWhen
	}
	e.OnOpen = e.OnOpen || v.OnOpen
	e.OnClose = e.OnClose || v.OnClose
	e.NetOnOpen = e.NetOnOpen || v.NetOnOpen
	e.NetOnClose = e.NetOnClose || v.NetOnClose
	if v.HasPrivs && len(privPool(v.Privs)) > 0 {
		e.Privs = v.Privs
	}
	if v.DDP != "" {
		e.DDP = v.DDP
	}
	return &e
}

// List is one option list for one constructor.
type List struct {
	K    string   `json:"k"`
	Home string   `json:"home"` // A | B | C
	Opts []Opt    `json:"opts"`
	Plat *PlatDef `json:"plat,omitempty"`
	// Hint names the platform option a dedicated list is about (class key of a failure).
	Hint string `json:"hint,omitempty"`
	// Disagree: the list gives a bool-typed platform option the value for which "the value is
	// honoured" and "the value is ignored" differ.
	Disagree bool `json:"disagree,omitempty"`
	// Strict: a dedicated invalid-value list: the rejection must be a bad-option error, as the
	// property statement says, not merely the library's own class for the condition.
	Strict bool `json:"strict,omitempty"`
}

// ---------------------------------------------------------------------------------------------
// YAML generation

func yq(s string) string { // YAML double-quoted scalar
	var b strings.Builder
	b.WriteByte('"')
	for _, r := range s {
		switch {
		case r == '"':
			b.WriteString(`\"`)
		case r == '\\':
			b.WriteString(`\\`)
		case r == '\n':
			b.WriteString(`\n`)
		case r == '\r':
			b.WriteString(`\r`)
		case r == '\t':
			b.WriteString(`\t`)
		case r < 0x20:
			fmt.Fprintf(&b, `\x%02x`, r)
		default:
			b.WriteRune(r)
		}
	}
	b.WriteByte('"')
	return b.String()
}

func yList(l []string) string {
	q := make([]string, len(l))
	for i, s := range l {
		q[i] = yq(s)
	}
	return "[" + strings.Join(q, ", ") + "]"
}

func yFloat(f float64) string {
	s := strconv.FormatFloat(f, 'f', -1, 64)
	if !strings.Contains(s, ".") {
		s += ".0"
	}
	return s
}

func (o PlatOpt) yamlValue() string {
	switch o.Kind {
	case "int":
		return strconv.Itoa(o.I)
	case "float":
		return yFloat(o.F)
	case "string":
		return yq(o.S)
	case "bool":
		return strconv.FormatBool(o.B)
	case "list":
		return yList(o.L)
	}
	return "null"
}

func platYAML(k string, d *PlatDef) []byte {
	var b strings.Builder
	b.WriteString("---\nplatform-type: 'c19_generated'\ndefault:\n")
	privs := func(ind string, k int) {
		m := privPool(k)
		if len(m) > 0 { // 3: no privilege-levels key at all
			b.WriteString(ind + "privilege-levels:\n")
		}
		var names []string
		for n := range m {
			names = append(names, n)
		}
		sort.Strings(names)
		for _, n := range names {
			p := m[n]
			fmt.Fprintf(&b, ind+"  %s:\n"+ind+"    name: %s\n"+ind+"    pattern: %s\n"+ind+"    not-contains: %s\n"+ind+"    previous-priv: %s\n"+
				ind+"    deescalate: %s\n"+ind+"    escalate: %s\n"+ind+"    escalate-auth: %v\n"+ind+"    escalate-prompt: %s\n",
				n, yq(p.Name), yq(p.Pattern), yList(p.NotContains), yq(p.PreviousPriv), yq(p.Deescalate), yq(p.Escalate), p.EscalateAuth, yq(p.EscalatePrompt))
		}
	}
	if k == kPlatNet {
		b.WriteString("  driver-type: 'network'\n")
		privs("  ", d.Privs)
		if d.DDP != "" { // empty: the key is missing
			fmt.Fprintf(&b, "  default-desired-privilege-level: %s\n", yq(d.DDP))
		}
	} else {
		b.WriteString("  driver-type: 'generic'\n")
	}
	if len(d.FailedWhen) > 0 {
		b.WriteString("  failed-when-contains:\n")
		for _, s := range d.FailedWhen {
			fmt.Fprintf(&b, "    - %s\n", yq(s))
		}
	}
	onx := func(name string) {
		fmt.Fprintf(&b, "  %s:\n    - operation: 'channel.return'\n", name)
	}
	if d.OnOpen {
		onx("on-open")
	}
	if d.OnClose {
		onx("on-close")
	}
	if d.NetOnOpen {
		onx("network-on-open")
	}
	if d.NetOnClose {
		onx("network-on-close")
	}
	if len(d.Options) > 0 {
		b.WriteString("  options:\n")
		for _, o := range d.Options {
			if o.Kind == "none" { // the entry names the option and gives no value at all
				fmt.Fprintf(&b, "    - option: %s\n", o.Name)
				continue
			}
			fmt.Fprintf(&b, "    - option: %s\n      value: %s\n", o.Name, o.yamlValue())
		}
	}
	if v := d.Variant; v != nil {
		// a decoy that must not be picked, then the selected one
		b.WriteString("variants:\n  decoy:\n    failed-when-contains:\n      - \"decoy\"\n    default-desired-privilege-level: \"decoy\"\n")
		b.WriteString("  " + variantName + ":")
		n := b.Len()
		b.WriteString("\n")
		if v.DriverType {
			fmt.Fprintf(&b, "    driver-type: '%s'\n", map[bool]string{true: "network", false: "generic"}[k == kPlatNet])
		}
		if v.HasPrivs {
			privs("    ", v.Privs)
		}
		if v.DDP != "" {
			fmt.Fprintf(&b, "    default-desired-privilege-level: %s\n", yq(v.DDP))
		}
		if len(v.FailedWhen) > 0 {
			b.WriteString("    failed-when-contains:\n")
			for _, s := range v.FailedWhen {
				fmt.Fprintf(&b, "      - %s\n", yq(s))
			}
		}
		vx := func(on bool, name string) {
			if on {
				fmt.Fprintf(&b, "    %s:\n      - operation: 'channel.return'\n", name)
			}
		}
		vx(v.OnOpen, "on-open")
		vx(v.OnClose, "on-close")
		vx(v.NetOnOpen, "network-on-open")
		vx(v.NetOnClose, "network-on-close")
		if b.Len() == n+1 { // the variant states nothing at all
			out := strings.TrimSuffix(b.String(), "\n") + " {}\n"
			return []byte(out)
		}
	}
	return []byte(b.String())
}

// platform option name -> documented type and the driver option it stands for
type platSpec struct {
	Name string
	Kind string
	// To converts the definition entry into the equivalent option call of the effect table.
	To func(o PlatOpt) Opt
}

var platSpecs = []platSpec{
	{"port", "int", func(o PlatOpt) Opt { return Opt{N: "WithPort", I: o.I} }},
	// bool-typed: the setting takes the value given; an entry without a value is the flag form
	// (presence switches bypass on / strict key checking off)
	{"auth-bypass", "bool", func(o PlatOpt) Opt {
		if o.Kind == "none" {
			return Opt{N: "plat.AuthBypass", I: 1}
		}
		return Opt{N: "plat.AuthBypass", I: b2i(o.B)}
	}},
	{"auth-strict-key", "bool", func(o PlatOpt) Opt {
		if o.Kind == "none" {
			return Opt{N: "plat.AuthStrictKey", I: 0}
		}
		return Opt{N: "plat.AuthStrictKey", I: b2i(o.B)}
	}},
	{"prompt-pattern", "string", func(o PlatOpt) Opt { return Opt{N: "WithPromptPattern", S: o.S} }},
	{"username-pattern", "string", func(o PlatOpt) Opt { return Opt{N: "WithUsernamePattern", S: o.S} }},
	{"password-pattern", "string", func(o PlatOpt) Opt { return Opt{N: "WithPasswordPattern", S: o.S} }},
	{"passphrase-pattern", "string", func(o PlatOpt) Opt { return Opt{N: "WithPassphrasePattern", S: o.S} }},
	{"return-char", "string", func(o PlatOpt) Opt { return Opt{N: "WithReturnChar", S: o.S} }},
	// "read delay in seconds", "timeouts in seconds"
	{"read-delay", "float", func(o PlatOpt) Opt {
		return Opt{N: "WithReadDelay", D: int64(time.Duration(o.F * float64(time.Second)))}
	}},
	{"timeout-ops", "float", func(o PlatOpt) Opt {
		return Opt{N: "WithTimeoutOps", D: int64(time.Duration(o.F * float64(time.Second)))}
	}},
	{"transport-type", "string", func(o PlatOpt) Opt { return Opt{N: "WithTransportType", S: o.S} }},
	{"read-size", "int", func(o PlatOpt) Opt { return Opt{N: "WithTransportReadSize", I: o.I} }},
	{"transport-pty-height", "int", func(o PlatOpt) Opt { return Opt{N: "WithTermHeight", I: o.I} }},
	{"transport-pty-width", "int", func(o PlatOpt) Opt { return Opt{N: "WithTermWidth", I: o.I} }},
	{"transport-system-open-args", "list", func(o PlatOpt) Opt { return Opt{N: "WithSystemTransportOpenArgs", L: o.L} }},
}

var platSpecByName = map[string]platSpec{}

func b2i(b bool) int {
	if b {
		return 1
	}
	return 0
}

// pseudo options: what a platform definition contributes besides plain driver options. They are
// never passed to a constructor; they only exist in the model's fold.
func init() {
	for _, s := range platSpecs {
		platSpecByName[s.Name] = s
	}
	lit := func(name, obj, field, val string) *optSpec {
		return &optSpec{Name: name, Effects: []effect{{Obj: obj, Field: field, Val: func(Opt, *pools) interface{} { return literal(val) }}}}
	}
	for _, s := range []*optSpec{
		lit("plat.OnOpen", oGeneric, "OnOpen", "func:platform-definition"),
		lit("plat.OnClose", oGeneric, "OnClose", "func:platform-definition"),
		lit("plat.NetOnOpen", oNetwork, "OnOpen", "func:platform-definition"),
		lit("plat.NetOnClose", oNetwork, "OnClose", "func:platform-definition"),
		// bool-typed definition options, read as "the setting takes the value given"
		{Name: "plat.AuthBypass", Effects: []effect{{Obj: oChannel, Field: "AuthBypass", Val: func(o Opt, _ *pools) interface{} { return o.I == 1 }}}},
		{Name: "plat.AuthStrictKey", Effects: []effect{{Obj: oSSH, Field: "StrictKey", Val: func(o Opt, _ *pools) interface{} { return o.I == 1 }}}},
		{Name: "plat.PrivilegeLevels", Effects: []effect{{Obj: oNetwork, Field: "PrivilegeLevels", Val: func(o Opt, _ *pools) interface{} { return privPool(o.I) }}}},
	} {
		specByName[s.Name] = s
	}
}

type literal string

// platToOpts lists, in the order the platform applies them, the option calls a definition stands
// for (platform/definition.go AsOptions: generic options, privilege levels, network on-X, options
// block); the user's options follow.
func platToOpts(k string, d *PlatDef) []Opt {
	var o []Opt
	if len(d.FailedWhen) > 0 {
		o = append(o, Opt{N: "WithFailedWhenContains", L: d.FailedWhen})
	}
	if d.OnOpen {
		o = append(o, Opt{N: "plat.OnOpen"})
	}
	if d.OnClose {
		o = append(o, Opt{N: "plat.OnClose"})
	}
	if k == kPlatNet {
		o = append(o, Opt{N: "plat.PrivilegeLevels", I: d.Privs}, Opt{N: "WithDefaultDesiredPriv", S: d.DDP})
	}
	if d.NetOnOpen {
		o = append(o, Opt{N: "plat.NetOnOpen"})
	}
	if d.NetOnClose {
		o = append(o, Opt{N: "plat.NetOnClose"})
	}
	for _, po := range d.Options {
		o = append(o, platSpecByName[po.Name].To(po))
	}
	return o
}

// ---------------------------------------------------------------------------------------------
// construction

type built struct {
	drv      interface{}
	err      error
	panicked interface{}
}

func construct(k string, plat *PlatDef, opts []util.Option) (b built) {
	var y []byte
	if isPlatformK(k) {
		if plat == nil {
			plat = &PlatDef{DDP: "exec"}
		}
		y = platYAML(k, plat)
	}
	return constructY(k, y, opts)
}

// constructY: as construct, the platform definition given as YAML bytes (the very slice is handed
// to platform.NewPlatform).
func constructY(k string, y []byte, opts []util.Option) (b built) {
	defer func() {
		if x := recover(); x != nil {
			b = built{panicked: x}
		}
	}()
	switch k {
	case kGeneric:
		d, err := generic.NewDriver(hostName, opts...)
		if err != nil {
			return built{err: err}
		}
		return built{drv: d}
	case kNetwork:
		d, err := network.NewDriver(hostName, opts...)
		if err != nil {
			return built{err: err}
		}
		return built{drv: d}
	case kNetconf:
		d, err := netconf.NewDriver(hostName, opts...)
		if err != nil {
			return built{err: err}
		}
		return built{drv: d}
	case kPlatGen, kPlatNet:
		var p *platform.Platform
		var err error
		if bytes.Contains(y, []byte("\nvariants:\n")) { // the second door of the platform constructor
			p, err = platform.NewPlatformVariant(y, variantName, hostName, opts...)
		} else {
			p, err = platform.NewPlatform(y, hostName, opts...)
		}
		if err != nil {
			return built{err: err}
		}
		if k == kPlatGen {
			d, err := p.GetGenericDriver()
			if err != nil {
				return built{err: fmt.Errorf("GetGenericDriver: %w", err)}
			}
			return built{drv: d}
		}
		d, err := p.GetNetworkDriver()
		if err != nil {
			return built{err: fmt.Errorf("GetNetworkDriver: %w", err)}
		}
		return built{drv: d}
	}
	panic("c19: unknown constructor " + k)
}

// prefixes of the objects inside the snapshot of constructor k
type layout struct {
	g, network, netconf, args, channel, impl string
}

func layoutOf(k string) layout {
	if isNetworkK(k) {
		return layout{g: "Driver.", network: "", args: "Driver.Transport.Args.", channel: "Driver.Channel.", impl: "Driver.Transport.Impl"}
	}
	return layout{g: "", netconf: "", args: "Transport.Args.", channel: "Channel.", impl: "Transport.Impl"}
}

var implType = map[string]string{
	transport.SystemTransport:   "&transport.System",
	transport.StandardTransport: "&transport.Standard",
	transport.TelnetTransport:   "&transport.Telnet",
	transport.FileTransport:     "&transport.File",
}

// normalise the observed snapshot: the network constructor joins the privilege patterns in map
// order; definition-made functions are closures of the platform package.
func normalise(k string, s snapshot) snapshot {
	if isNetworkK(k) {
		p := layoutOf(k).channel + "PromptPattern"
		if v, ok := s[p]; ok && strings.HasPrefix(v, "re:") {
			alts := strings.Split(v[3:], "|")
			sort.Strings(alts)
			s[p] = "re-joined:" + strings.Join(alts, " | ")
		}
	}
	if isPlatformK(k) {
		for p, v := range s {
			if strings.HasPrefix(v, platFuncs) {
				s[p] = "func:platform-definition"
			}
		}
	}
	return s
}

func joinedPrompt(m map[string]*network.PrivilegeLevel) string {
	var alts []string
	for _, p := range m {
		alts = append(alts, p.Pattern)
	}
	sort.Strings(alts)
	return "re-joined:" + strings.Join(alts, " | ")
}

// baseline(k, T): snapshot of constructor k with the minimal required options (and transport type
// T). Cached per process.
var (
	baseMu    sync.Mutex
	baseCache = map[string]snapshot{}
)

func minimalOpts(k, t string) []util.Option {
	var o []util.Option
	if k == kNetwork {
		o = append(o, options.WithPrivilegeLevels(privPool(0)), options.WithDefaultDesiredPriv("exec"))
	}
	if t != transport.SystemTransport {
		o = append(o, options.WithTransportType(t))
	}
	return o
}

func baseline(k, t string) (snapshot, error) {
	baseMu.Lock()
	defer baseMu.Unlock()
	key := k + "|" + t
	if s, ok := baseCache[key]; ok {
		return s, nil
	}
	b := construct(k, &PlatDef{DDP: "exec"}, minimalOpts(k, t))
	if b.panicked != nil {
		return nil, fmt.Errorf("constructor %s with minimal options panicked: %v", k, b.panicked)
	}
	if b.err != nil {
		return nil, fmt.Errorf("constructor %s with minimal options failed: %v", k, b.err)
	}
	s := normalise(k, snap(nil, b.drv))
	baseCache[key] = s
	return s, nil
}

// checkBaselines: the transport type selects the implementation and touches nothing else.
func checkBaselines(k string) (string, string) {
	sys, err := baseline(k, transport.SystemTransport)
	if err != nil {
		return "c19/baseline:" + k, err.Error()
	}
	lay := layoutOf(k)
	for _, t := range ttPool {
		b, err := baseline(k, t)
		if err != nil {
			return "c19/baseline:" + k + ":" + t, err.Error()
		}
		if b[lay.impl] != implType[t] {
			return "c19/transport-type-not-effective:" + k + ":" + t, fmt.Sprintf("transport type %q: %s is %s, expected %s", t, lay.impl, b[lay.impl], implType[t])
		}
		if b[lay.g+"TransportType"] != fmt.Sprintf("%q", t) {
			return "c19/transport-type-not-effective:" + k + ":" + t, fmt.Sprintf("transport type %q: TransportType is %s", t, b[lay.g+"TransportType"])
		}
		x, y := sys.clone(), b.clone()
		x.replaceSub(lay.impl, nil)
		y.replaceSub(lay.impl, nil)
		delete(x, lay.g+"TransportType")
		delete(y, lay.g+"TransportType")
		if p, l := diff(x, y); len(p) > 0 {
			return "c19/field-mismatch:" + k + ":" + p[0], fmt.Sprintf("WithTransportType(%q) changed something besides the transport type and implementation:\n%s", t, strings.Join(l, "\n"))
		}
	}
	return "", ""
}

// ---------------------------------------------------------------------------------------------
// the model: fold the effects left to right

type invalidOpt struct {
	name, class string
	must        bool // the target object is built: rejection is demanded
}

type expectation struct {
	invalid    []invalidOpt
	mustReject bool
	mayReject  bool
	exp        snapshot
	// bookkeeping for the non-triviality rule / evidence
	applied, ignored, overridden int
	objects                      map[string]bool
	T                            string
	custom                       int // pool index of the custom transport, -1 none
}

func userImplIndex(p *pools, v interface{}) int {
	for i, im := range p.impls {
		if im != nil && v == interface{}(im) {
			return i
		}
	}
	return -1
}

func encImplExpected(path string, idx int) snapshot {
	s := snapshot{path: fmt.Sprintf("impl#%d", idx)}
	if idx == 2 { // the user-made *transport.File, as the harness created it
		s[path+".F"] = `""`
		s[path+".Writes"] = "len=0"
	}
	return s
}

func expect(l List, p *pools) (*expectation, error) {
	e := &expectation{objects: map[string]bool{}, custom: -1, T: transport.SystemTransport}
	full := l.Opts
	if isPlatformK(l.K) {
		pd := l.Plat
		if pd == nil {
			pd = &PlatDef{DDP: "exec"}
		}
		full = append(platToOpts(l.K, pd.effective()), l.Opts...)
	}
	type assign struct {
		obj, field string
		val        interface{}
		additive   bool
		opt        string
	}
	var assigns []assign
	type inv struct {
		spec  *optSpec
		class string
	}
	var invs []inv
	for _, o := range full {
		sp := specByName[o.N]
		if sp == nil {
			return nil, fmt.Errorf("descriptor names unknown option %q", o.N)
		}
		if sp.Invalid != nil {
			if c := sp.Invalid(o, p); c != "" {
				invs = append(invs, inv{sp, c})
				continue
			}
		}
		for _, ef := range sp.Effects {
			v := ef.Val(o, p)
			assigns = append(assigns, assign{ef.Obj, ef.Field, v, ef.Additive, o.N})
			if ef.Obj == oGeneric && ef.Field == "TransportType" {
				e.T = v.(string)
			}
			if ef.Obj == oArgs && ef.Field == "UserImplementation" {
				e.custom = userImplIndex(p, v)
			}
		}
	}
	core := e.custom < 0
	exists := func(obj string) bool {
		switch obj {
		case oGeneric, oArgs, oChannel:
			return true
		case oNetwork:
			return isNetworkK(l.K)
		case oNetconf:
			return l.K == kNetconf
		case oSSH:
			return core && (e.T == transport.SystemTransport || e.T == transport.StandardTransport)
		case oSystem:
			return core && e.T == transport.SystemTransport
		case oStandard:
			return core && e.T == transport.StandardTransport
		case oFile:
			return (core && e.T == transport.FileTransport) || e.custom == 2
		}
		return false
	}
	for _, iv := range invs {
		must := exists(iv.spec.Effects[0].Obj)
		if must {
			e.mustReject = true
		} else if iv.spec.Everywhere {
			e.mayReject = true
		}
		e.invalid = append(e.invalid, invalidOpt{iv.spec.Name, iv.class, must})
	}
	// the network constructor demands privilege levels and a default desired privilege level
	if isNetworkK(l.K) {
		ddp, np := "", 0
		for _, a := range assigns {
			if a.obj == oNetwork && a.field == "DefaultDesiredPriv" {
				ddp = a.val.(string)
			}
			if a.obj == oNetwork && a.field == "PrivilegeLevels" {
				np = len(a.val.(map[string]*network.PrivilegeLevel))
			}
		}
		if ddp == "" || np == 0 {
			e.mustReject = true
			e.invalid = append(e.invalid, invalidOpt{"network-required-options", errBad, true})
		}
	}
	if e.mustReject {
		return e, nil
	}
	base, err := baseline(l.K, transport.SystemTransport)
	if err != nil {
		return nil, err
	}
	exp := base.clone()
	lay := layoutOf(l.K)
	if !core {
		exp.replaceSub(lay.impl, encImplExpected(lay.impl, e.custom))
	} else if e.T != transport.SystemTransport {
		bt, err := baseline(l.K, e.T)
		if err != nil {
			return nil, err
		}
		exp.replaceSub(lay.impl, bt.sub(lay.impl))
	}
	acc := map[string][]string{}
	written := map[string]bool{}
	var finalPrivs map[string]*network.PrivilegeLevel
	var userFileF *string
	for _, a := range assigns {
		if !exists(a.obj) {
			e.ignored++
			continue
		}
		var prefixes []string
		switch a.obj {
		case oGeneric:
			if l.K == kNetconf && a.field != "Logger" && a.field != "TransportType" {
				// the NETCONF driver keeps the generic driver's logger, transport and channel only
				e.ignored++
				continue
			}
			prefixes = []string{lay.g}
		case oNetwork:
			prefixes = []string{lay.network}
		case oNetconf:
			prefixes = []string{lay.netconf}
		case oArgs:
			prefixes = []string{lay.args}
		case oChannel:
			if a.field == "PromptPattern" && l.K != kGeneric && l.K != kPlatGen {
				// the network driver derives the channel prompt pattern from the privilege levels
				// (documented at UpdatePrivileges), the NETCONF driver uses the message delimiter
				e.ignored++
				continue
			}
			prefixes = []string{lay.channel}
		case oSSH:
			prefixes = []string{lay.impl + ".SSHArgs."}
		case oSystem, oStandard:
			prefixes = []string{lay.impl + "."}
		case oFile:
			prefixes = []string{lay.impl + "."}
			if e.custom == 2 { // the very object the user passed in: also visible through Args
				s := a.val.(string)
				userFileF = &s
			}
		}
		e.applied++
		e.objects[a.obj] = true
		for _, pre := range prefixes {
			path := pre + a.field
			if written[path] {
				e.overridden++
			}
			written[path] = true
			switch {
			case a.additive:
				acc[path] = append(acc[path], a.val.([]string)...)
				exp.replaceSub(path, snapshot{path: encStrings(acc[path])})
			case a.field == "UserImplementation":
				if idx := userImplIndex(p, a.val); idx >= 0 {
					exp.replaceSub(path, encImplExpected(path, idx))
				} else {
					exp.replaceSub(path, snapshot{path: "nil"})
				}
			case a.field == "Logger":
				if reflect.ValueOf(a.val).IsNil() {
					exp[path] = base[path] // a nil logger: the constructor installs its default instance
				} else {
					exp.replaceSub(path, encSub(p, path, a.val, fieldType(a.obj, a.field)))
				}
			default:
				if lit, ok := a.val.(literal); ok {
					exp.replaceSub(path, snapshot{path: string(lit)})
				} else {
					exp.replaceSub(path, encSub(p, path, a.val, fieldType(a.obj, a.field)))
				}
			}
		}
		if a.obj == oNetwork && a.field == "PrivilegeLevels" {
			finalPrivs = a.val.(map[string]*network.PrivilegeLevel)
		}
	}
	if isNetworkK(l.K) {
		exp[lay.channel+"PromptPattern"] = joinedPrompt(finalPrivs)
	}
	if userFileF != nil {
		exp[lay.args+"UserImplementation.F"] = fmt.Sprintf("%q", *userFileF)
	}
	e.exp = exp
	return e, nil
}

// ---------------------------------------------------------------------------------------------
// running one list

func setHome(h string) { os.Setenv("HOME", h) }

type listResult struct {
	key, detail string
	nontrivial  bool
	obs         map[string]int64
	tags        []string
}

func errClassOf(err error) string {
	switch {
	case errors.Is(err, util.ErrBadOption):
		return errBad
	case errors.Is(err, util.ErrFileNotFoundError):
		return errFile
	case errors.Is(err, util.ErrIgnoredOption):
		return "ignored-sentinel"
	}
	return "other"
}

func runList(l List) listResult {
	res := listResult{obs: map[string]int64{"lists": 1, "options_given": int64(len(l.Opts))}}
	home := filepath.Join(homeRoot, l.Home)
	setHome(home)
	p := newPools(home)
	ex, err := expect(l, p)
	if err != nil {
		return listResult{key: "c19/harness", detail: err.Error()}
	}
	opts := make([]util.Option, 0, len(l.Opts))
	for _, o := range l.Opts {
		opts = append(opts, specByName[o.N].Make(o, p))
	}
	b := construct(l.K, l.Plat, opts)
	names := func() string {
		var n []string
		for _, o := range l.Opts {
			n = append(n, o.N)
		}
		return strings.Join(n, ",")
	}
	hintKey := func(generic, plat string) string {
		if l.Hint != "" {
			return "c19/" + plat + ":" + l.Hint
		}
		return "c19/" + generic
	}
	res.tags = append(res.tags, "constructor="+l.K, "transport="+ex.T, fmt.Sprintf("custom_transport=%v", ex.custom >= 0))
	if b.panicked != nil {
		msg := fmt.Sprint(b.panicked)
		if isPlatformK(l.K) && l.Plat != nil {
			// pin the panic on one entry of the options block: build a definition with that entry only
			for _, po := range l.Plat.Options {
				one := construct(l.K, &PlatDef{Options: []PlatOpt{po}, Privs: l.Plat.Privs, DDP: l.Plat.DDP}, nil)
				if one.panicked != nil {
					return listResult{key: "c19/platform-option-panic:" + po.Name, obs: res.obs, nontrivial: true,
						detail: fmt.Sprintf("platform.NewPlatform panicked on a definition whose options block holds %s: %s (YAML value %s): %v",
							po.Name, po.Kind, po.yamlValue(), one.panicked)}
				}
			}
		}
		return listResult{key: hintKey("constructor-panic:"+l.K, "platform-option-panic"), obs: res.obs, nontrivial: true,
			detail: fmt.Sprintf("%s constructor panicked: %s; options [%s]", l.K, msg, names())}
	}
	if ex.mustReject || (ex.mayReject && b.err != nil) {
		res.obs["lists_with_invalid_value"] = 1
		var inv []string
		for _, iv := range ex.invalid {
			inv = append(inv, iv.name+"→"+iv.class)
		}
		if b.err == nil {
			return listResult{key: "c19/invalid-accepted:" + ex.invalid[0].name, obs: res.obs, nontrivial: true,
				detail: fmt.Sprintf("%s constructor accepted an invalid value (%s); options [%s]", l.K, strings.Join(inv, "; "), names())}
		}
		got := errClassOf(b.err)
		ok := false
		for _, iv := range ex.invalid {
			// file-not-found: the library's own class for an unresolvable file; a bad-option error is what
			// the statement asks for. Either is accepted here; the dedicated (Strict) lists insist on
			// the bad-option error.
			if errors.Is(b.err, util.ErrBadOption) || (iv.class == errFile && errors.Is(b.err, util.ErrFileNotFoundError)) {
				ok = true
			}
		}
		if !ok {
			return listResult{key: "c19/wrong-error-class:" + ex.invalid[0].name, obs: res.obs, nontrivial: true,
				detail: fmt.Sprintf("%s constructor rejected the list with %q (class %s), expected one of (%s); options [%s]", l.K, b.err, got, strings.Join(inv, "; "), names())}
		}
		if l.Strict && !errors.Is(b.err, util.ErrBadOption) {
			return listResult{key: "c19/invalid-not-bad-option:" + ex.invalid[0].name, obs: res.obs, nontrivial: true,
				detail: fmt.Sprintf("%s constructor rejected the invalid value of %s with %q, which does not satisfy errors.Is(err, util.ErrBadOption) "+
					"(the statement: \"invalid values are rejected with a bad-option error\"); options [%s]", l.K, ex.invalid[0].name, b.err, names())}
		}
		res.obs["rejections_checked"] = 1
		res.tags = append(res.tags, "rejected="+ex.invalid[0].name+":"+got)
		res.nontrivial = len(l.Opts) >= 2
		return res
	}
	if b.err != nil {
		return listResult{key: hintKey("unexpected-error:"+l.K+":"+errClassOf(b.err), "platform-option-error"), obs: res.obs, nontrivial: true,
			detail: fmt.Sprintf("%s constructor failed with %q on a list of valid values; options [%s]", l.K, b.err, names())}
	}
	if ex.mayReject {
		res.tags = append(res.tags, "inapplicable-invalid-value=ignored")
	}
	got := normalise(l.K, snap(p, b.drv))
	paths, lines := diff(ex.exp, got)
	res.obs["fields_compared"] = int64(len(got))
	if len(paths) > 0 {
		key := "c19/field-mismatch:" + l.K + ":" + paths[0]
		onlyLogger := true
		for _, pth := range paths {
			if !strings.HasSuffix(pth, "Logger") && !strings.HasSuffix(pth, ".(l)") {
				onlyLogger = false
			}
		}
		if onlyLogger { // the logger option did not reach every layer (driver / channel / transport args)
			key = "c19/logger-not-effective:" + l.K + ":wiring"
		}
		if l.Hint != "" {
			key = "c19/platform-option-mismatch:" + l.Hint
			if l.Plat != nil && l.Plat.Variant != nil {
				key = "c19/platform-variant-mismatch:" + l.Hint
			}
			if l.Disagree {
				key = "c19/platform-option-value-ignored:" + l.Hint
			}
		}
		y := ""
		if l.Plat != nil {
			y = "\ndefinition:\n" + string(platYAML(l.K, l.Plat))
		}
		return listResult{key: key, obs: res.obs, nontrivial: true,
			detail: fmt.Sprintf("%s constructor, options [%s]: snapshot differs from the folded effect table in %d field(s):\n%s%s",
				l.K, names(), len(paths), strings.Join(lines, "\n"), y)}
	}
	res.obs["options_applied"] = int64(ex.applied)
	res.obs["options_ignored_as_inapplicable"] = int64(ex.ignored)
	res.obs["settings_given_more_than_once"] = int64(ex.overridden)
	if ex.ignored > 0 {
		res.tags = append(res.tags, "has_inapplicable_option")
	}
	if ex.overridden > 0 {
		res.tags = append(res.tags, "has_repeated_setting")
	}
	for o := range ex.objects {
		res.tags = append(res.tags, "object="+o)
	}
	for _, o := range l.Opts {
		res.tags = append(res.tags, "opt="+o.N)
	}
	if l.Plat != nil {
		for _, po := range l.Plat.Options {
			res.tags = append(res.tags, "platopt="+po.Name)
		}
		if l.Plat.Variant != nil {
			res.tags = append(res.tags, "platform_door=NewPlatformVariant")
			res.obs["platform_variant_lists"] = 1
			if len(l.Plat.Options) > 0 {
				res.obs["platform_variant_lists_with_default_options"] = 1
			}
		}
	}
	total := len(l.Opts)
	if l.Plat != nil {
		total += len(l.Plat.Options)
	}
	res.nontrivial = total >= 2 && (ex.overridden > 0 || ex.ignored > 0 || len(ex.objects) >= 2)
	return res
}
