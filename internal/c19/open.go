package c19

import (
	"fmt"
	"math/rand"
	"reflect"
	"strings"
	"time"

	"github.com/scrapli/scrapligo/driver/opoptions"
	"github.com/scrapli/scrapligo/transport"
	"github.com/scrapli/scrapligo/util"

	"verif/internal/devsim"
	"verif/internal/mon"
	"verif/internal/ncsim"
)

// Settings are re-read AFTER Open. An option that lands at construction and is undone by the first
// Open does not "take effect": the snapshot of every public field is taken after construction,
// after Open (incl. the in-channel login when the custom transport exposes GetInChannelAuthType),
// after one use of the session and after Close, and must equal the fold of the option list every
// time (only NETCONF's negotiated SelectedVersion and message delimiter are the session's, not an option's).

// OpenScenario is the descriptor of one session.
type OpenScenario struct {
	K       string   `json:"k"`
	Flavour string   `json:"flavour"` // telnet | ssh: the custom transport has GetInChannelAuthType; "": it has not
	Opts    []Opt    `json:"opts"`    // WithCustomTransport(0) stands for the device model
	Plat    *PlatDef `json:"plat,omitempty"`
}

// loginDev: "login: " / "Password: " / prompt, then a prompt per line.
type loginDev struct {
	steps []string // what remains to be asked before the shell
	line  int
}

func (d *loginDev) State() string { return fmt.Sprintf("asks=%d lines=%d", len(d.steps), d.line) }
func (d *loginDev) next(c *devsim.Conn) {
	if len(d.steps) > 0 {
		c.Emit([]byte(d.steps[0]))
		d.steps = d.steps[1:]
		return
	}
	c.Emit([]byte("r1>"))
}
func (d *loginDev) Start(c *devsim.Conn) { d.next(c) }
func (d *loginDev) Input(c *devsim.Conn, b []byte) {
	for _, x := range b {
		if x == '\n' {
			d.line++
			c.Emit([]byte("\r\n"))
			d.next(c)
		}
	}
}

func hasOptNamed(l []Opt, n string) bool { return hasOpt(l, n) }

func runOpenScenario(sc OpenScenario) (lr listResult, failed string) {
	lr = listResult{obs: map[string]int64{"open_sessions": 1}}
	home := homeRoot + "/A"
	setHome(home)
	p := newPools(home)
	ex, err := expect(List{K: sc.K, Home: "A", Opts: sc.Opts, Plat: sc.Plat}, p) // before the device goes in: identity only
	_ = ex
	if err != nil {
		return listResult{key: "c19/harness", detail: err.Error()}, ""
	}
	// does the list switch in-channel auth off?
	bypass := hasOpt(sc.Opts, "WithAuthBypass")
	if sc.Plat != nil {
		for _, o := range sc.Plat.Options {
			if o.Name == "auth-bypass" && !(o.Kind == "bool" && !o.B) {
				bypass = true
			}
		}
	}
	var dev devsim.Device
	var srv *ncsim.Server
	if sc.K == kNetconf {
		srv = &ncsim.Server{HelloBytes: ncsim.Hello([]string{ncsim.Cap10, ncsim.Cap11}, "7")}
		srv.OnMsg = func(s *ncsim.Server, cn *devsim.Conn, m *ncsim.Msg) {
			if m.Hello {
				return
			}
			r := ncsim.Reply(m.ID, "<data><x>1</x></data>")
			s.Send(cn, r, []int{len(r)})
		}
		dev = srv
	} else {
		d := &loginDev{}
		if !bypass {
			switch sc.Flavour {
			case "telnet":
				d.steps = []string{"login: ", "Password: "}
			case "ssh":
				d.steps = []string{"admin@r1's password: "}
			}
		}
		dev = d
	}
	conn := devsim.NewConn(dev, devsim.Config{Seg: devsim.Seg{Mode: "whole", Seed: 1}, AuthType: sc.Flavour})
	defer conn.Abandon()
	var impl transport.Implementation = conn
	if sc.Flavour != "" {
		impl = &devsim.AuthConn{Conn: conn}
	}
	p.impls[0] = impl
	ex, err = expect(List{K: sc.K, Home: "A", Opts: sc.Opts, Plat: sc.Plat}, p)
	if err != nil {
		return listResult{key: "c19/harness", detail: err.Error()}, ""
	}
	if ex.mustReject || ex.mayReject {
		return listResult{key: "c19/harness", detail: "open scenario with an invalid value"}, ""
	}
	var opts []util.Option
	var names []string
	for _, o := range sc.Opts {
		opts = append(opts, specByName[o.N].Make(o, p))
		names = append(names, o.N)
	}
	who := fmt.Sprintf("%s constructor, custom transport with in-channel auth %q, auth bypass %v, options [%s]", sc.K, sc.Flavour, bypass, strings.Join(names, ","))
	if sc.Plat != nil && len(sc.Plat.Options) > 0 {
		var pn []string
		for _, o := range sc.Plat.Options {
			pn = append(pn, o.Name+"="+o.yamlValue())
		}
		who += " definition options {" + strings.Join(pn, ", ") + "}"
	}
	b := construct(sc.K, sc.Plat, opts)
	if b.panicked != nil || b.err != nil {
		return listResult{key: "c19/unexpected-error:" + sc.K + ":open-scenario", obs: lr.obs, nontrivial: true,
			detail: fmt.Sprintf("%s: constructor failed: %v %v", who, b.err, b.panicked)}, ""
	}
	exp := ex.exp
	check := func(phase string) *listResult {
		got := normalise(sc.K, snap(p, b.drv))
		e := exp
		if phase != "construction" && sc.K == kNetconf {
			e, got = e.clone(), got.clone()
			// negotiated at Open: the version, and with it the message delimiter the NETCONF driver
			// keeps in the channel's prompt pattern (WithPromptPattern does not apply to it)
			for _, k := range []string{"SelectedVersion", "Channel.PromptPattern"} {
				delete(e, k)
				delete(got, k)
			}
		}
		lr.obs["open_phase_snapshots"]++
		if paths, lines := diff(e, got); len(paths) > 0 {
			key := "c19/field-mismatch:" + sc.K + ":" + paths[0]
			if phase != "construction" {
				key = "c19/changed-by-" + phase + ":" + ownerOf(paths[0]) + ":" + sc.K
			}
			return &listResult{key: key, obs: lr.obs, nontrivial: true,
				detail: fmt.Sprintf("%s: after %s the snapshot differs from the fold of the option list:\n%s", who, phase, strings.Join(lines, "\n"))}
		}
		return nil
	}
	if r := check("construction"); r != nil {
		return *r, ""
	}
	drv := b.drv.(opener)
	if err := drv.Open(); err != nil {
		return lr, fmt.Sprintf("%s: Open over the device model failed: %v", who, err)
	}
	defer closeQuietly(drv)
	if r := check("open"); r != nil {
		return *r, ""
	}
	// one use of the session
	if sc.K == kNetconf {
		out := reflect.ValueOf(b.drv).MethodByName("Get").Call([]reflect.Value{reflect.ValueOf("<a/>"), reflect.ValueOf(opoptions.WithTimeoutOps(10 * time.Second))})
		if e, _ := out[1].Interface().(error); e != nil {
			return lr, fmt.Sprintf("%s: Get failed: %v", who, e)
		}
	} else {
		ch := reflect.ValueOf(b.drv).Elem().FieldByName("Channel")
		out := ch.MethodByName("GetPrompt").Call(nil)
		if e, _ := out[1].Interface().(error); e != nil {
			return lr, fmt.Sprintf("%s: GetPrompt failed: %v", who, e)
		}
		if got := string(out[0].Bytes()); got != "r1>" {
			return lr, fmt.Sprintf("%s: GetPrompt returned %q", who, got)
		}
	}
	if r := check("use"); r != nil {
		return *r, ""
	}
	closeQuietly(drv)
	if r := check("close"); r != nil {
		return *r, ""
	}
	lr.tags = []string{"open_k=" + sc.K, "open_in_channel_auth=" + map[string]string{"": "none"}[sc.Flavour] + sc.Flavour, fmt.Sprintf("open_bypass=%v", bypass)}
	if sc.Flavour != "" && !bypass {
		lr.obs["open_sessions_with_in_channel_login"] = 1
	}
	lr.nontrivial = len(sc.Opts) >= 2
	return lr, ""
}

// options that are safe to vary on a session that is really opened
func openOpt(r *rand.Rand) Opt {
	switch r.Intn(12) {
	case 0:
		return Opt{N: "WithPromptSearchDepth", I: []int{256, 1000, 4096}[r.Intn(3)]}
	case 1:
		return Opt{N: "WithTransportReadSize", I: []int{64, 8192, 65535}[r.Intn(3)]}
	case 2:
		return Opt{N: "WithTermHeight", I: intPool[r.Intn(len(intPool))]}
	case 3:
		return Opt{N: "WithTermWidth", I: intPool[r.Intn(len(intPool))]}
	case 4:
		return Opt{N: "WithPort", I: intPool[r.Intn(len(intPool))]}
	case 5:
		return Opt{N: "WithTimeoutSocket", D: int64(durPool[r.Intn(len(durPool))])}
	case 6:
		return Opt{N: "WithFailedWhenContains", L: listPool[r.Intn(len(listPool))]}
	case 7:
		return Opt{N: "WithChannelLog", I: r.Intn(4)}
	case 8:
		return Opt{N: "WithLogger", I: r.Intn(4)}
	case 9:
		return Opt{N: "WithAuthSecondary", S: ps(r, strPool)}
	}
	return Opt{N: "WithReadDelay", D: []int64{0, -1, 250000, 100000, 0}[r.Intn(5)]}
}

func genOpenScenario(r *rand.Rand) OpenScenario {
	sc := OpenScenario{K: allK[r.Intn(len(allK))], Flavour: []string{"telnet", "ssh", ""}[r.Intn(3)]}
	if sc.K == kNetconf && sc.Flavour == "telnet" {
		sc.Flavour = "ssh"
	}
	sc.Opts = []Opt{{N: "WithAuthUsername", S: "admin"}, {N: "WithAuthPassword", S: "pw"}, {N: "WithTimeoutOps", D: int64(20 * time.Second)}, {N: "WithCustomTransport", I: 0}}
	for n := r.Intn(6); n > 0; n-- {
		sc.Opts = insertAt(sc.Opts, r.Intn(len(sc.Opts)+1), openOpt(r))
	}
	if r.Intn(2) == 0 {
		sc.Opts = insertAt(sc.Opts, r.Intn(len(sc.Opts)+1), Opt{N: "WithReadDelay", D: []int64{0, -1, 250000}[r.Intn(3)]})
	}
	if r.Intn(4) == 0 {
		sc.Opts = insertAt(sc.Opts, r.Intn(len(sc.Opts)+1), Opt{N: "WithAuthBypass"})
	}
	if sc.K == kNetwork {
		sc.Opts = insertAt(sc.Opts, r.Intn(len(sc.Opts)+1), Opt{N: "WithPrivilegeLevels", I: 0})
		sc.Opts = insertAt(sc.Opts, r.Intn(len(sc.Opts)+1), Opt{N: "WithDefaultDesiredPriv", S: "exec"})
	}
	if isPlatformK(sc.K) {
		sc.Plat = &PlatDef{Privs: 0, DDP: "exec"}
		for _, n := range []string{"read-delay", "timeout-ops", "read-size", "transport-pty-height", "port", "auth-bypass"} {
			if r.Intn(3) != 0 {
				continue
			}
			o := genPlatOpt(r, n)
			switch n {
			case "read-delay":
				o.F = []float64{0.0, 0.0001, 0.00025}[r.Intn(3)]
			case "timeout-ops":
				o.F = 20.0
			case "read-size":
				o.I = []int{64, 8192, 65535}[r.Intn(3)]
			}
			sc.Plat.Options = append(sc.Plat.Options, o)
		}
		if r.Intn(3) == 0 {
			sc.Plat.Variant = &PlatVariant{FailedWhen: []string{"% variant"}}
		}
	}
	return sc
}

// every constructor x in-channel auth flavour x bypass x read delay (user option / definition)
func genDedicatedOpen() []OpenScenario {
	var out []OpenScenario
	for _, k := range allK {
		for _, fl := range []string{"telnet", "ssh", ""} {
			if k == kNetconf && fl == "telnet" {
				continue
			}
			for _, bypass := range []bool{false, true} {
				for _, rd := range []int64{0, -1, 250000, 100000} { // (the close grace period is delay*delay/1000: keep delays small)
					base := []Opt{{N: "WithAuthUsername", S: "admin"}, {N: "WithAuthPassword", S: "pw"}, {N: "WithTimeoutOps", D: int64(20 * time.Second)}}
					if k == kNetwork {
						base = append(base, Opt{N: "WithPrivilegeLevels", I: 0}, Opt{N: "WithDefaultDesiredPriv", S: "exec"})
					}
					if bypass {
						base = append(base, Opt{N: "WithAuthBypass"})
					}
					sc := OpenScenario{K: k, Flavour: fl, Opts: append(append([]Opt{{N: "WithReadDelay", D: rd}}, base...), Opt{N: "WithCustomTransport", I: 0})}
					if isPlatformK(k) {
						sc.Plat = &PlatDef{Privs: 0, DDP: "exec"}
					}
					out = append(out, sc)
					if isPlatformK(k) && rd >= 0 { // the same from the definition's options block
						pd := &PlatDef{Privs: 0, DDP: "exec", Options: []PlatOpt{{Name: "read-delay", Kind: "float", F: float64(rd) / 1e9}}}
						if bypass {
							pd.Options = append(pd.Options, PlatOpt{Name: "auth-bypass", Kind: "bool", B: true})
						}
						var o []Opt
						for _, x := range base {
							if x.N != "WithAuthBypass" {
								o = append(o, x)
							}
						}
						out = append(out, OpenScenario{K: k, Flavour: fl, Plat: pd, Opts: append(o, Opt{N: "WithCustomTransport", I: 0})})
					}
				}
			}
		}
	}
	return out
}

func runOpenScenarios(d Desc) mon.Result {
	res := mon.Result{Verdict: mon.Held, Obs: map[string]int64{}}
	tags := map[string]bool{}
	var viol, failed []string
	nviol := 0
	t0 := time.Now()
	for i, sc := range d.Open {
		lr, f := runOpenScenario(sc)
		for k, v := range lr.obs {
			res.Obs[k] += v
		}
		for _, t := range lr.tags {
			tags[t] = true
		}
		if lr.nontrivial {
			res.NonTrivial = true
		}
		if f != "" {
			failed = append(failed, fmt.Sprintf("scenario %d: %s", i, f))
			res.Obs["open_sessions_failed"]++
		}
		if lr.key != "" {
			nviol++
			if res.Key == "" {
				res.Verdict, res.Key = mon.Violated, lr.key
				res.Events = map[string]interface{}{"scenario_index": i, "scenario": sc}
			}
			if len(viol) < 4 {
				viol = append(viol, fmt.Sprintf("scenario %d: [%s] %s", i, lr.key, lr.detail))
			}
		}
	}
	for t := range tags {
		res.Tags = append(res.Tags, t)
	}
	if res.Key != "" {
		res.Detail = fmt.Sprintf("%d of %d open scenarios of this case violate\n%s", nviol, len(d.Open), strings.Join(viol, "\n"))
		return res
	}
	if len(failed) > 0 {
		// a session that could not be driven says nothing about the property
		if len(failed) > 3 {
			failed = failed[:3]
		}
		return mon.Result{Verdict: mon.Inconclusive, Obs: res.Obs, Detail: fmt.Sprintf("open sessions failed (loaded=%v): %s", mon.LoadedSince(t0), strings.Join(failed, " | "))}
	}
	res.Sample = map[string]interface{}{"what": d.What, "open_sessions": len(d.Open), "snapshots": res.Obs["open_phase_snapshots"], "with_in_channel_login": res.Obs["open_sessions_with_in_channel_login"]}
	return res
}
