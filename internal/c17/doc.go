// Package c17 holds the runtime monitor for property C17 (see DESIGN.md §3 C17).
package c17
