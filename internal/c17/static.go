package c17

import (
	"fmt"
	"io/fs"
	"os"
	"path/filepath"
	"reflect"
	"regexp"
	"sort"
	"strings"

	"github.com/scrapli/scrapligo/assets"
	"github.com/scrapli/scrapligo/driver/network"
	"github.com/scrapli/scrapligo/driver/options"
	"github.com/scrapli/scrapligo/platform"
	"github.com/scrapli/scrapligo/util"

	"verif/internal/devsim"
	"verif/internal/mon"
)

func viol(key, f string, a ...interface{}) mon.Result {
	return mon.Result{Verdict: mon.Violated, Key: key, Detail: fmt.Sprintf(f, a...), NonTrivial: true}
}

func repoDir() string {
	if v := os.Getenv("VERIF_REPO"); v != "" {
		return v
	}
	return "/repo"
}

func fixturePath(f string) string {
	return filepath.Join(repoDir(), "platform", "test-fixtures", f)
}

// embeddedNames lists the embedded definition files (without .yaml), example excluded.
func embeddedNames() ([]string, error) {
	ents, err := fs.ReadDir(assets.Assets, "platforms")
	if err != nil {
		return nil, err
	}
	var l []string
	for _, e := range ents {
		n := e.Name()
		if e.IsDir() || n == "example.yaml" {
			continue
		}
		l = append(l, strings.TrimSuffix(n, ".yaml"))
	}
	sort.Strings(l)
	return l, nil
}

// newPlatform calls the library constructor with panics turned into a value.
func newPlatform(f interface{}, variant string, opts ...util.Option) (p *platform.Platform, err error, pnc interface{}) {
	return newPlatformH(f, variant, "host", opts...)
}

func newPlatformH(f interface{}, variant, host string, opts ...util.Option) (p *platform.Platform, err error, pnc interface{}) {
	defer func() {
		if x := recover(); x != nil {
			pnc = x
		}
	}()
	if variant != "" {
		p, err = platform.NewPlatformVariant(f, variant, host, opts...)
	} else {
		p, err = platform.NewPlatform(f, host, opts...)
	}
	return
}

// runAssets is the both-ways cross-check of advertised names and embedded files, and of the
// harness table against the advertised names.
func runAssets() mon.Result {
	names := platform.GetPlatformNames()
	files, err := embeddedNames()
	if err != nil {
		return viol("c17/assets-unreadable", "embedded platforms directory: %v", err)
	}
	adv := map[string]bool{}
	for _, n := range names {
		if adv[n] {
			return viol("c17/advertised-twice:"+n, "name %q is advertised twice", n)
		}
		adv[n] = true
	}
	have := map[string]bool{}
	for _, f := range files {
		have[f] = true
	}
	for _, n := range names {
		if !have[n] {
			return viol("c17/load-failed:"+n, "advertised name %q has no embedded file platforms/%s.yaml (embedded: %v)", n, n, files)
		}
	}
	for _, f := range files {
		if !adv[f] {
			return viol("c17/unadvertised-asset:"+f, "embedded file platforms/%s.yaml is not reachable through any advertised name %v", f, names)
		}
	}
	for _, n := range names {
		if _, ok := canon[n]; !ok {
			return viol("c17/no-canonical-prompts:"+n, "advertised name %q has no entry in the canonical prompt table; the harness cannot judge it", n)
		}
	}
	for n := range canon {
		if !adv[n] {
			return viol("c17/not-advertised:"+n, "platform %q (in the canonical table of the pinned tree) is no longer advertised", n)
		}
	}
	// example.yaml must stay loadable as a file but is documentation only
	return mon.Result{Verdict: mon.Held, NonTrivial: true, Hash: "assets",
		Obs:    map[string]int64{"advertised_names": int64(len(names)), "embedded_files": int64(len(files))},
		Sample: map[string]interface{}{"advertised": names, "embedded": files}}
}

// loaded bundles what a successful load gives the later checks.
type loaded struct {
	ref  *refDef
	eff  *refPlatform // the effective (merged) reference platform
	p    *platform.Platform
	d    *network.Driver
	conn *devsim.Conn
}

// compileAll compiles every level pattern independently.
func compileAll(levels map[string]refLevel) (map[string]*regexp.Regexp, string, error) {
	out := map[string]*regexp.Regexp{}
	for _, k := range sortedLevels(levels) {
		re, err := regexp.Compile(levels[k].Pattern)
		if err != nil {
			return nil, k, err
		}
		out[k] = re
	}
	return out, "", nil
}

func accepts(l refLevel, re *regexp.Regexp, prompt string) bool {
	for _, nc := range l.NotContains {
		if strings.Contains(prompt, nc) {
			return false
		}
	}
	return re.MatchString(prompt)
}

// staticInvariants checks the reference platform `eff` (tree, default, patterns, on-x) and the
// canonical prompts; label is used in keys.
func staticInvariants(label string, eff *refPlatform, prompts map[string]string) *mon.Result {
	r := func(x mon.Result) *mon.Result { return &x }
	if len(eff.problems) > 0 {
		return r(viol("c17/definition-malformed:"+label, "%s", strings.Join(eff.problems, "; ")))
	}
	if eff.DriverType != "network" && eff.DriverType != "generic" {
		return r(viol("c17/driver-type:"+label, "driver-type %q is neither generic nor network", eff.DriverType))
	}
	if bad := checkTree(eff.Levels); len(bad) > 0 {
		kind := bad[0]
		if i := strings.IndexByte(kind, ':'); i > 0 {
			kind = kind[:i]
		}
		return r(viol("c17/tree:"+label+":"+kind, "privilege levels do not form one tree: %s", strings.Join(bad, "; ")))
	}
	if _, ok := eff.Levels[eff.Default]; !ok {
		return r(viol("c17/default-level-missing:"+label, "default-desired-privilege-level %q is not a level (%v)", eff.Default, sortedLevels(eff.Levels)))
	}
	res, badLevel, err := compileAll(eff.Levels)
	if err != nil {
		return r(viol("c17/pattern-invalid:"+label+"/"+badLevel, "pattern %q does not compile: %v", eff.Levels[badLevel].Pattern, err))
	}
	for _, sec := range []struct {
		n   string
		st  []step
		net bool
	}{{"on-open", eff.OnOpen, false}, {"on-close", eff.OnClose, false}, {"network-on-open", eff.NetOnOpen, true}, {"network-on-close", eff.NetOnClose, true}} {
		if bad := checkSteps(sec.n, sec.st, sec.net, eff.Levels); len(bad) > 0 {
			return r(viol("c17/onx-malformed:"+label+":"+sec.n, "%s", strings.Join(bad, "; ")))
		}
	}
	if prompts == nil {
		return nil
	}
	// level set of the definition == level set of the table
	var defL, tabL []string
	defL = sortedLevels(eff.Levels)
	for k := range prompts {
		tabL = append(tabL, k)
	}
	sort.Strings(tabL)
	if !reflect.DeepEqual(defL, tabL) {
		return r(viol("c17/level-set-changed:"+label, "definition has levels %v, canonical prompt table (pinned tree) has %v", defL, tabL))
	}
	var joinedParts []string
	for _, k := range defL {
		joinedParts = append(joinedParts, eff.Levels[k].Pattern)
	}
	joined, err := regexp.Compile(strings.Join(joinedParts, "|"))
	if err != nil {
		return r(viol("c17/joined-pattern-invalid:"+label, "joined pattern does not compile: %v", err))
	}
	for _, k := range defL {
		l := eff.Levels[k]
		pr := prompts[k]
		if !res[k].MatchString(pr) {
			return r(viol("c17/prompt-not-matched:"+label+"/"+k, "canonical prompt %q is not matched by the level's pattern %q", pr, l.Pattern))
		}
		for _, nc := range l.NotContains {
			if strings.Contains(pr, nc) {
				return r(viol("c17/prompt-excluded:"+label+"/"+k, "canonical prompt %q contains the level's not-contains string %q", pr, nc))
			}
		}
		// what the channel hands to the privilege logic: the joined pattern's match in "\n"+prompt
		got := joined.FindString("\n" + pr)
		if got == "" {
			return r(viol("c17/joined-pattern:"+label+"/"+k, "joined pattern does not match the canonical prompt %q", pr))
		}
		if !accepts(l, res[k], got) {
			return r(viol("c17/joined-pattern:"+label+"/"+k, "joined pattern extracts %q from canonical prompt %q, which the level's own pattern/not-contains rejects", got, pr))
		}
		if l.Auth {
			if l.EscPrompt == "" {
				return r(viol("c17/escalate-prompt:"+label+"/"+k, "authenticated escalation without escalate-prompt"))
			}
			ep, err := regexp.Compile(l.EscPrompt)
			if err != nil {
				return r(viol("c17/escalate-prompt:"+label+"/"+k, "escalate-prompt %q does not compile: %v", l.EscPrompt, err))
			}
			if !ep.MatchString(passwordPrompt) || !ep.MatchString("\n"+passwordPrompt) {
				return r(viol("c17/escalate-prompt:"+label+"/"+k, "escalate-prompt %q does not match the password prompt %q", l.EscPrompt, passwordPrompt))
			}
		}
	}
	return nil
}

// compareLoaded compares the library's platform/driver objects with the reference platform.
func compareLoaded(label string, eff *refPlatform, p *platform.Platform, checkOptions bool) *mon.Result {
	r := func(x mon.Result) *mon.Result { return &x }
	diff := func(what string, got, want interface{}) *mon.Result {
		return r(viol("c17/loaded-differs:"+label+":"+what, "%s: library has %#v, independent reading of the definition gives %#v", what, got, want))
	}
	if p.DriverType != eff.DriverType {
		return diff("driver-type", p.DriverType, eff.DriverType)
	}
	if !sameStrings(p.FailedWhenContains, eff.Failed) {
		return diff("failed-when-contains", p.FailedWhenContains, eff.Failed)
	}
	if p.DefaultDesiredPrivilegeLevel != eff.Default {
		return diff("default-desired-privilege-level", p.DefaultDesiredPrivilegeLevel, eff.Default)
	}
	for _, s := range []struct {
		n    string
		got  []map[string]interface{}
		want []step
	}{
		{"on-open", []map[string]interface{}(p.OnOpen), eff.OnOpen},
		{"on-close", []map[string]interface{}(p.OnClose), eff.OnClose},
		{"network-on-open", []map[string]interface{}(p.NetworkOnOpen), eff.NetOnOpen},
		{"network-on-close", []map[string]interface{}(p.NetworkOnClose), eff.NetOnClose},
	} {
		if len(s.got) != len(s.want) {
			return diff(s.n, s.got, s.want)
		}
		for i := range s.got {
			if !reflect.DeepEqual(map[string]interface{}(s.want[i]), s.got[i]) {
				return diff(fmt.Sprintf("%s[%d]", s.n, i), s.got[i], s.want[i])
			}
		}
	}
	if len(p.PrivilegeLevels) != len(eff.Levels) {
		return diff("privilege-levels", levelKeys(p.PrivilegeLevels), sortedLevels(eff.Levels))
	}
	for _, k := range sortedLevels(eff.Levels) {
		g, ok := p.PrivilegeLevels[k]
		if !ok || g == nil {
			return diff("privilege-levels", levelKeys(p.PrivilegeLevels), sortedLevels(eff.Levels))
		}
		w := eff.Levels[k]
		gl := refLevel{Name: g.Name, Pattern: g.Pattern, NotContains: g.NotContains, Prev: g.PreviousPriv, Deesc: g.Deescalate,
			Esc: g.Escalate, Auth: g.EscalateAuth, EscPrompt: g.EscalatePrompt}
		if gl.Name != w.Name || gl.Pattern != w.Pattern || !sameStrings(gl.NotContains, w.NotContains) || gl.Prev != w.Prev ||
			gl.Deesc != w.Deesc || gl.Esc != w.Esc || gl.Auth != w.Auth || gl.EscPrompt != w.EscPrompt {
			return diff("privilege-levels/"+k, gl, w)
		}
	}
	if checkOptions {
		if len(p.Options) != len(eff.Options) {
			return diff("options", len(p.Options), len(eff.Options))
		}
		for i, o := range p.Options {
			if o == nil || o.Option != eff.Options[i].Option || !reflect.DeepEqual(o.Value, eff.Options[i].Value) {
				return diff(fmt.Sprintf("options[%d]", i), o, eff.Options[i])
			}
		}
	}
	return nil
}

func levelKeys(m network.PrivilegeLevels) []string {
	var l []string
	for k := range m {
		l = append(l, k)
	}
	sort.Strings(l)
	return l
}

func sameStrings(a, b []string) bool {
	if len(a) != len(b) {
		return false
	}
	for i := range a {
		if a[i] != b[i] {
			return false
		}
	}
	return true
}

// checkGetter: the getter for the declared driver type works, the other one refuses.
func checkGetter(label string, eff *refPlatform, p *platform.Platform) (*network.Driver, *mon.Result) {
	r := func(x mon.Result) *mon.Result { return &x }
	nd, nerr := p.GetNetworkDriver()
	gd, gerr := p.GetGenericDriver()
	switch eff.DriverType {
	case "network":
		if nerr != nil || nd == nil {
			return nil, r(viol("c17/driver-getter:"+label, "declared driver type network, GetNetworkDriver returned (%v, %v)", nd, nerr))
		}
		if gerr == nil || gd != nil {
			return nil, r(viol("c17/driver-getter:"+label, "declared driver type network, GetGenericDriver did not refuse (%v, %v)", gd, gerr))
		}
	case "generic":
		if gerr != nil || gd == nil {
			return nil, r(viol("c17/driver-getter:"+label, "declared driver type generic, GetGenericDriver returned (%v, %v)", gd, gerr))
		}
		if nerr == nil || nd != nil {
			return nil, r(viol("c17/driver-getter:"+label, "declared driver type generic, GetNetworkDriver did not refuse (%v, %v)", nd, nerr))
		}
	}
	return nd, nil
}

// checkDriver: the network driver carries the definition (levels, default, failure strings,
// joined pattern).
func checkDriver(label string, eff *refPlatform, d *network.Driver, prompts map[string]string) *mon.Result {
	r := func(x mon.Result) *mon.Result { return &x }
	if d.DefaultDesiredPriv != eff.Default {
		return r(viol("c17/driver-differs:"+label+":default", "driver DefaultDesiredPriv %q, definition %q", d.DefaultDesiredPriv, eff.Default))
	}
	if !sameStrings(d.FailedWhenContains, eff.Failed) {
		return r(viol("c17/driver-differs:"+label+":failed-when-contains", "driver FailedWhenContains %q, definition %q", d.FailedWhenContains, eff.Failed))
	}
	if !reflect.DeepEqual(levelKeys(d.PrivilegeLevels), sortedLevels(eff.Levels)) {
		return r(viol("c17/driver-differs:"+label+":levels", "driver levels %v, definition %v", levelKeys(d.PrivilegeLevels), sortedLevels(eff.Levels)))
	}
	if (len(eff.NetOnOpen) > 0) != (d.OnOpen != nil) || (len(eff.NetOnClose) > 0) != (d.OnClose != nil) ||
		(len(eff.OnOpen) > 0) != (d.Driver.OnOpen != nil) || (len(eff.OnClose) > 0) != (d.Driver.OnClose != nil) {
		return r(viol("c17/driver-differs:"+label+":on-x", "driver on-open/on-close hooks (net open %v close %v, generic open %v close %v) do not mirror the definition's sections",
			d.OnOpen != nil, d.OnClose != nil, d.Driver.OnOpen != nil, d.Driver.OnClose != nil))
	}
	pp := d.Channel.PromptPattern
	if pp == nil {
		return r(viol("c17/joined-pattern:"+label, "driver channel has no prompt pattern"))
	}
	for _, k := range sortedLevels(eff.Levels) {
		pr, ok := prompts[k]
		if !ok {
			continue
		}
		l := eff.Levels[k]
		re, err := regexp.Compile(l.Pattern)
		if err != nil {
			continue
		}
		got := string(pp.Find([]byte("\n" + pr)))
		if got == "" || !accepts(l, re, got) {
			return r(viol("c17/joined-pattern:"+label+"/"+k, "the driver's channel prompt pattern extracts %q from canonical prompt %q; the level's own pattern/not-contains must accept it", got, pr))
		}
	}
	return nil
}

// loadByName loads an advertised name and runs every static monitor; on success the loaded
// objects are returned for the dynamic part.
func loadByName(name string, conn *devsim.Conn, extra ...util.Option) (*loaded, *mon.Result) {
	r := func(x mon.Result) *mon.Result { return &x }
	opts := append([]util.Option{options.WithCustomTransport(conn)}, extra...)
	b, ferr := assets.Assets.ReadFile("platforms/" + name + ".yaml")
	p, err, pnc := newPlatform(name, "", opts...)
	if ferr != nil {
		return nil, r(viol("c17/load-failed:"+name, "advertised name %q: no embedded definition (%v); NewPlatform returned error %v", name, ferr, err))
	}
	ref, _, perr := parseDef(b)
	if perr != nil {
		return nil, r(viol("c17/definition-malformed:"+name, "embedded definition does not parse: %v", perr))
	}
	if ref.PlatformType != name {
		return nil, r(viol("c17/platform-type:"+name, "embedded file platforms/%s.yaml declares platform-type %q", name, ref.PlatformType))
	}
	pn := canon[name]
	if v := staticInvariants(name, ref.Default, pn.Levels); v != nil {
		return nil, v
	}
	if pnc != nil {
		return nil, r(viol("c17/load-panic:"+name, "NewPlatform(%q) panicked: %v", name, pnc))
	}
	if err != nil || p == nil {
		return nil, r(viol("c17/load-failed:"+name, "NewPlatform(%q) failed: %v", name, err))
	}
	if p.GetPlatformType() != name {
		return nil, r(viol("c17/platform-type:"+name, "loaded platform reports type %q", p.GetPlatformType()))
	}
	if v := compareLoaded(name, ref.Default, p, true); v != nil {
		return nil, v
	}
	d, v := checkGetter(name, ref.Default, p)
	if v != nil {
		return nil, v
	}
	if v := checkDriver(name, ref.Default, d, pn.Levels); v != nil {
		return nil, v
	}
	if v := checkOverlap(name, d.PrivilegeLevels, pn.Levels); v != nil {
		return nil, v
	}
	return &loaded{ref: ref, eff: ref.Default, p: p, d: d, conn: conn}, nil
}

// pinnedFacts compares the definition with the facts pinned in the table.
func pinnedFacts(name string, eff *refPlatform) *mon.Result {
	r := func(x mon.Result) *mon.Result { return &x }
	pn := canon[name]
	if eff.Default != pn.Default {
		return r(viol("c17/default-level-changed:"+name, "default-desired-privilege-level is %q; the validated definition has %q", eff.Default, pn.Default))
	}
	var wantOpen []step
	wantOpen = append(wantOpen, step{"operation": "acquire-priv"})
	for _, c := range pn.Open {
		wantOpen = append(wantOpen, step{"operation": "driver.send-command", "command": c})
	}
	wantClose := []step{{"operation": "acquire-priv"}, {"operation": "channel.write", "input": pn.Close}, {"operation": "channel.return"}}
	if !sameSteps(eff.NetOnOpen, wantOpen) {
		return r(viol("c17/on-open-changed:"+name, "network-on-open is %v; the validated definition has %v", eff.NetOnOpen, wantOpen))
	}
	if !sameSteps(eff.NetOnClose, wantClose) {
		return r(viol("c17/on-close-changed:"+name, "network-on-close is %v; the validated definition has %v", eff.NetOnClose, wantClose))
	}
	if len(eff.OnOpen) > 0 || len(eff.OnClose) > 0 {
		return r(viol("c17/on-open-changed:"+name, "generic on-open/on-close steps appeared (%v / %v); the validated definition has none", eff.OnOpen, eff.OnClose))
	}
	return nil
}

func sameSteps(a, b []step) bool {
	if len(a) != len(b) {
		return false
	}
	for i := range a {
		if !reflect.DeepEqual(map[string]interface{}(a[i]), map[string]interface{}(b[i])) {
			return false
		}
	}
	return true
}

// hazards computes, for the harness' own preconditions, whether the device's error line or a proper
// prefix of a canonical prompt could be taken for a (different) prompt by the joined pattern.
func promptHazards(eff *refPlatform, prompts map[string]string) []string {
	res, _, err := compileAll(eff.Levels)
	if err != nil {
		return []string{"pattern does not compile"}
	}
	var parts []string
	for _, k := range sortedLevels(eff.Levels) {
		parts = append(parts, eff.Levels[k].Pattern)
	}
	joined, err := regexp.Compile(strings.Join(parts, "|"))
	if err != nil {
		return []string{"joined pattern does not compile"}
	}
	accSet := func(s string) string {
		var l []string
		for _, k := range sortedLevels(eff.Levels) {
			if accepts(eff.Levels[k], res[k], s) {
				l = append(l, k)
			}
		}
		return strings.Join(l, ",")
	}
	var out []string
	for i := 1; i <= len(errLine); i++ {
		if joined.MatchString("\n" + errLine[:i]) {
			out = append(out, fmt.Sprintf("error line prefix %q looks like a prompt", errLine[:i]))
			break
		}
	}
	for _, k := range sortedLevels(eff.Levels) {
		pr := prompts[k]
		full := accSet(joined.FindString("\n" + pr))
		for i := 1; i < len(pr); i++ {
			m := joined.FindString("\n" + pr[:i])
			if m == "" {
				continue
			}
			if a := accSet(m); a != full {
				out = append(out, fmt.Sprintf("prefix %q of the %s prompt is accepted by [%s], the whole prompt by [%s]", pr[:i], k, a, full))
				break
			}
		}
	}
	return out
}

// overlapRelation computes {(A's canonical prompt, B)} from loaded privilege levels.
func overlapRelation(levels network.PrivilegeLevels, prompts map[string]string) ([]string, error) {
	names := levelKeys(levels)
	res := map[string]*regexp.Regexp{}
	for _, k := range names {
		re, err := regexp.Compile(levels[k].Pattern)
		if err != nil {
			return nil, err
		}
		res[k] = re
	}
	var out []string
	for _, a := range names {
		pr, ok := prompts[a]
		if !ok {
			continue
		}
		for _, b := range names {
			if a == b {
				continue
			}
			l := levels[b]
			if accepts(refLevel{NotContains: l.NotContains}, res[b], pr) {
				out = append(out, a+">"+b)
			}
		}
	}
	sort.Strings(out)
	return out, nil
}

// checkOverlap compares the relation of the loaded definition with the pinned one.
func checkOverlap(label string, levels network.PrivilegeLevels, prompts map[string]string) *mon.Result {
	got, err := overlapRelation(levels, prompts)
	if err != nil {
		return nil // reported by the pattern monitors
	}
	want := map[string]bool{}
	for _, p := range overlapPinned[label] {
		want[p] = true
	}
	have := map[string]bool{}
	for _, p := range got {
		have[p] = true
		if !want[p] {
			i := strings.IndexByte(p, '>')
			a, b := p[:i], p[i+1:]
			v := viol(fmt.Sprintf("c17/prompt-overlap-changed:%s:%s-accepted-by-%s", label, a, b),
				"the canonical %s prompt %q is now also accepted by level %q (pattern %q); the validated definition has exactly the overlaps %v. "+
					"A session whose cached level is empty or stale takes a device showing this prompt to be in %q when that is the requested target",
				a, prompts[a], b, levels[b].Pattern, overlapPinned[label], b)
			return &v
		}
	}
	for _, p := range overlapPinned[label] {
		if !have[p] {
			i := strings.IndexByte(p, '>')
			a, b := p[:i], p[i+1:]
			v := viol(fmt.Sprintf("c17/prompt-overlap-changed:%s:%s-accepted-by-%s:gone", label, a, b),
				"the canonical %s prompt %q is no longer accepted by level %q; the validated definition has the overlaps %v, the loaded one %v (the pinned table must follow the definition)",
				a, prompts[a], b, overlapPinned[label], got)
			return &v
		}
	}
	return nil
}
