package c17

// Canonical prompt table (DESIGN.md Appendix A), transcribed as data: one realistic prompt per
// platform x level, authored once from the shipped patterns and public vendor prompt shapes.
// "\n" inside a prompt is the line break of a two-line prompt (the device model emits its own end
// of line there). Besides the prompts the table pins the facts of the shipped definitions that
// the prototype validated: default desired level, the commands the on-open steps send and the
// input the on-close steps write (a definition that silently loses one of them still "loads").

type pin struct {
	Levels  map[string]string // level -> canonical prompt
	Default string            // default desired privilege level
	Open    []string          // commands of the on-open steps, in order (after the acquire-priv)
	Close   string            // input written by the on-close steps (followed by a return)
}

const srlExec = "--{ running }--[  ]--\nA:srl#"
const srlConf = "--{ candidate private private-admin }--[  ]--\nA:srl#"

var canon = map[string]pin{
	"arista_eos": {
		Levels: map[string]string{
			"exec": "localhost>", "privilege-exec": "localhost#", "configuration": "localhost(config)#",
		},
		Default: "privilege-exec", Open: []string{"terminal width 32767", "terminal length 0"}, Close: "exit",
	},
	"aruba_wlc": {
		Levels: map[string]string{
			"exec": "(aruba-7010) >", "privilege-exec": "(aruba-7010) #", "configuration": "(aruba-7010) (config)#",
			"tclsh": "aruba(tcl)#",
		},
		Default: "privilege-exec", Open: []string{"no paging"}, Close: "exit",
	},
	"cisco_iosxe": {
		Levels: map[string]string{
			"exec": "csr1000v>", "privilege-exec": "csr1000v#", "configuration": "csr1000v(config)#", "tclsh": "csr1000v(tcl)#",
		},
		Default: "privilege-exec", Open: []string{"terminal width 512", "terminal length 0"}, Close: "exit",
	},
	"cisco_iosxr": {
		Levels: map[string]string{
			"exec": "RP/0/RP0/CPU0:ios#", "configuration": "RP/0/RP0/CPU0:ios(config)#",
			"configuration-exclusive": "RP/0/RP0/CPU0:ios(config)#", "run": "[node0_RP0_CPU0:~]$",
		},
		Default: "exec", Open: []string{"terminal width 512", "terminal length 0"}, Close: "exit",
	},
	"cisco_nxos": {
		Levels: map[string]string{
			"exec": "switch>", "privilege-exec": "switch#", "configuration": "switch(config)#", "tclsh": "switch-tcl#",
		},
		Default: "privilege-exec", Open: []string{"terminal width 511", "terminal length 0"}, Close: "exit",
	},
	"cumulus_linux": {
		Levels: map[string]string{
			"exec": "cumulus@leaf01:mgmt:~$ ", "configuration": "root@leaf01:mgmt:~# ",
		},
		Default: "exec", Open: nil, Close: "exit",
	},
	"cumulus_vtysh": {
		Levels: map[string]string{
			"linux": "cumulus@leaf01:mgmt:~$ ", "exec": "leaf01# ", "configuration": "leaf01(config)# ",
		},
		Default: "exec", Open: nil, Close: "exit",
	},
	"hp_comware": {
		Levels:  map[string]string{"exec": "<HPE>", "configuration": "[HPE]"},
		Default: "exec", Open: []string{"screen-length disable"}, Close: "quit",
	},
	"huawei_vrp": {
		Levels:  map[string]string{"exec": "<HUAWEI>", "configuration": "[HUAWEI]"},
		Default: "exec", Open: []string{"screen-length 0 temporary"}, Close: "quit",
	},
	"ipinfusion_ocnos": {
		Levels: map[string]string{
			"linux": "root@OcNOS:~#", "exec": "OcNOS>", "privilege-exec": "OcNOS#", "configuration": "OcNOS(config)#",
		},
		Default: "exec", Open: []string{"terminal length 0", "terminal width 511"}, Close: "exit",
	},
	"juniper_junos": {
		Levels: map[string]string{
			"exec": "vrnetlab>", "configuration": "vrnetlab#", "configuration-exclusive": "vrnetlab#",
			"configuration-private": "vrnetlab#", "shell": "%", "root-shell": "root@vrnetlab:~ #",
		},
		Default: "exec",
		Open:    []string{"set cli screen-width 511", "set cli screen-length 0", "set cli complete-on-space off"},
		Close:   "exit",
	},
	"nokia_srl": {
		Levels:  map[string]string{"exec": srlExec, "configuration": srlConf},
		Default: "exec",
		Open:    []string{"environment cli-engine type basic", "environment complete-on-space false"},
		Close:   "quit",
	},
	"nokia_sros": {
		Levels: map[string]string{
			"exec": "[/]\nA:admin@sros#", "configuration": "(ex)[/]\nA:admin@sros#",
			"configuration-with-path": "(ex)[/configure router \"Base\"]\nA:admin@sros#",
		},
		Default: "exec",
		Open: []string{"environment console width 512", "environment more false",
			"environment command-completion space false"},
		Close: "logout",
	},
	"nokia_sros_classic": {
		Levels:  map[string]string{"configuration": "A:sros#"},
		Default: "configuration", Open: []string{"environment no more"}, Close: "logout",
	},
	"paloalto_panos": {
		Levels:  map[string]string{"exec": "admin@PA-VM>", "configuration": "admin@PA-VM#"},
		Default: "exec",
		Open: []string{"set cli scripting-mode on", "set cli pager off",
			"environment command-completion space false"},
		Close: "exit",
	},
	"ruijie_rgos": {
		Levels: map[string]string{
			"exec": "Ruijie>", "privilege-exec": "Ruijie#", "configuration": "Ruijie(config)#", "tclsh": "Ruijie(tcl)#",
		},
		Default: "privilege-exec", Open: []string{"terminal length 0"}, Close: "exit",
	},
	"vyatta_vyos": {
		Levels:  map[string]string{"exec": "vyos@vyos:~$", "configuration": "vyos@vyos#"},
		Default: "exec", Open: []string{"terminal width 512", "terminal length 0"}, Close: "exit",
	},
}

// variantCanon: prompts of shipped variants whose levels differ from the default's.
var variantCanon = map[string]map[string]string{
	"cumulus_linux/root_login": {"exec": "root@leaf01:mgmt:~# ", "configuration": "root@leaf01:mgmt:~# "},
}

// fixtureCanon: prompts for the definitions under platform/test-fixtures. explicit_cisco_iosxe.yaml
// has no entry: its escalate-prompt lacks the (?im) flags, so it cannot drive a device through an
// authenticated escalation (the pattern is anchored at the start of the whole buffer); it is not
// an advertised definition and is used for the load/merge comparison only.
var fixtureCanon = map[string]map[string]string{
	"test-platform.yaml": {"exec": "C3560CX>", "privilege-exec": "C3560CX#", "configuration": "C3560CX(config)#"},
}

// passwordPrompt is what the definition-derived device asks on an authenticated escalation.
const passwordPrompt = "Password: "

// secret is the secondary credential given to the driver (options.WithAuthSecondary).
const secret = "s3cr3t-Enable!"

// errLine is what the device answers to input it does not understand in its current mode. It is
// checked (generator precondition, by brute force over every prefix) not to look like a prompt of
// any shipped definition.
const errLine = "error 22 unknown input"

// overlapPinned is the full relation {(level A's canonical prompt, level B) : B != A, B's pattern
// matches it and none of B's not-contains strings occur}, written "A>B", as the validated tree
// yields it (= DESIGN.md Appendix A, column "also accepted by", plus the pairs inside the classes
// of identical prompts). The driver resolves these by its cached level or the requested target; a
// definition whose relation changes (wider or stricter) must be re-validated, so any difference is
// reported.
var overlapPinned = map[string][]string{
	"arista_eos":  {"configuration>privilege-exec"},
	"aruba_wlc":   {"configuration>privilege-exec", "tclsh>privilege-exec"},
	"cisco_iosxr": {"configuration>configuration-exclusive", "configuration-exclusive>configuration"},
	"cisco_nxos":  {"tclsh>privilege-exec"},
	"juniper_junos": {
		"configuration>configuration-exclusive", "configuration>configuration-private",
		"configuration-exclusive>configuration", "configuration-exclusive>configuration-private",
		"configuration-private>configuration", "configuration-private>configuration-exclusive",
	},
	"cumulus_linux/root_login": {"configuration>exec", "exec>configuration"},
}

// hostToken is the part of a platform's canonical prompts that stands for the device's hostname;
// the "customised levels" sessions replace it by a hostile-but-legal hostname.
var hostToken = map[string]string{
	"arista_eos": "localhost", "aruba_wlc": "aruba-7010", "cisco_iosxe": "csr1000v", "cisco_iosxr": ":ios", "cisco_nxos": "switch",
	"cumulus_linux": "leaf01", "cumulus_vtysh": "leaf01", "hp_comware": "HPE", "huawei_vrp": "HUAWEI", "ipinfusion_ocnos": "OcNOS",
	"juniper_junos": "vrnetlab", "nokia_srl": ":srl", "nokia_sros": "@sros", "nokia_sros_classic": ":sros", "paloalto_panos": "PA-VM",
	"ruijie_rgos": "Ruijie", "vyatta_vyos": "@vyos",
}

// hostileHosts: hostnames with characters the shipped hostname classes do not admit (none of them
// is a prompt terminator or white space).
var hostileHosts = []string{"rtr1[edge]", "core{2}", "sw+lab~1", "r1=dc,a"}
