package c17

import (
	"fmt"
	"os"
	"path/filepath"
	"sync"

	"github.com/scrapli/scrapligo/driver/options"
	"github.com/scrapli/scrapligo/platform"

	"verif/internal/devsim"
	"verif/internal/mon"
)

// The working directory of the process must not shadow the embedded definitions: an advertised
// name loads from the embedded assets whatever file or directory of that name the cwd holds; a
// name that is not embedded still falls back to the file system (the unchanged order). os.Chdir is
// process-wide, so this case runs alone in a worker process of its own (Property.Solo).

const cwdCaseID = "c17/cwd-shadow"

var cwdMu sync.Mutex

const foreignDef = `---
platform-type: 'c17_foreign'
default:
  driver-type: 'network'
  privilege-levels:
    foreign:
      name: 'foreign'
      pattern: '(?im)^foreign>$'
      previous-priv:
      deescalate:
      escalate:
      escalate-auth: false
      escalate-prompt:
  default-desired-privilege-level: 'foreign'
`

func runCwdShadow() mon.Result {
	cwdMu.Lock()
	defer cwdMu.Unlock()
	orig, err := os.Getwd()
	if err != nil {
		return mon.Result{Verdict: mon.Inconclusive, Detail: "harness: getwd: " + err.Error()}
	}
	base, err := os.MkdirTemp(filepath.Join(mon.VerifDir(), ".work"), "c17-cwd-")
	if err != nil {
		base, err = os.MkdirTemp("", "c17-cwd-")
		if err != nil {
			return mon.Result{Verdict: mon.Inconclusive, Detail: "harness: mkdtemp: " + err.Error()}
		}
	}
	defer os.RemoveAll(base)
	defer os.Chdir(orig)
	names := platform.GetPlatformNames()
	obs := map[string]int64{}
	for _, kind := range []string{"directory", "file", "file.yaml"} {
		dir := filepath.Join(base, kind)
		if err := os.MkdirAll(dir, 0o755); err != nil {
			return mon.Result{Verdict: mon.Inconclusive, Detail: "harness: " + err.Error()}
		}
		for _, n := range names {
			var err error
			switch kind {
			case "directory":
				err = os.MkdirAll(filepath.Join(dir, n, "templates"), 0o755)
			case "file":
				err = os.WriteFile(filepath.Join(dir, n), []byte(foreignDef), 0o644)
			case "file.yaml":
				err = os.WriteFile(filepath.Join(dir, n+".yaml"), []byte(foreignDef), 0o644)
			}
			if err != nil {
				return mon.Result{Verdict: mon.Inconclusive, Detail: "harness: " + err.Error()}
			}
		}
		// a definition that is not embedded, to see the file fallback still works
		if err := os.WriteFile(filepath.Join(dir, "c17_foreign_def"), []byte(foreignDef), 0o644); err != nil {
			return mon.Result{Verdict: mon.Inconclusive, Detail: "harness: " + err.Error()}
		}
		if err := os.Chdir(dir); err != nil {
			return mon.Result{Verdict: mon.Inconclusive, Detail: "harness: chdir: " + err.Error()}
		}
		for _, n := range names {
			conn := devsim.NewConn(&devsim.CLI{}, devsim.Config{})
			_, v := loadByName(n, conn)
			conn.Abandon()
			if v != nil {
				os.Chdir(orig)
				return viol("c17/cwd-shadows-embedded:"+n+":"+kind,
					"with a %s named like the advertised platform in the process's working directory, loading %q does not yield the embedded definition: [%s] %s", kind, n, v.Key, v.Detail)
			}
			obs["names_loaded_with_shadowing_cwd"]++
		}
		// variant by name as well
		conn := devsim.NewConn(&devsim.CLI{}, devsim.Config{})
		p, err, pnc := newPlatform("cumulus_linux", "root_login", options.WithCustomTransport(conn))
		conn.Abandon()
		if err != nil || pnc != nil || p == nil || len(p.PrivilegeLevels) != 2 {
			os.Chdir(orig)
			return viol("c17/cwd-shadows-embedded:cumulus_linux:"+kind, "with a %s named cumulus_linux in the working directory, NewPlatformVariant(cumulus_linux, root_login) gives (%v, %v)", kind, err, pnc)
		}
		// unchanged order: what is not embedded is read from the file system
		conn = devsim.NewConn(&devsim.CLI{}, devsim.Config{})
		fp, err, pnc := newPlatform("c17_foreign_def", "", options.WithCustomTransport(conn))
		conn.Abandon()
		if err != nil || pnc != nil || fp == nil || fp.DefaultDesiredPrivilegeLevel != "foreign" {
			os.Chdir(orig)
			return viol("c17/file-fallback-lost:"+kind, "a definition file in the working directory whose name is not embedded no longer loads: (%v, %v)", err, pnc)
		}
		obs["file_fallback_loads"]++
		switch kind {
		case "directory":
			obs["cwd_shadow_directories"] += int64(len(names))
		default:
			obs["cwd_shadow_files"] += int64(len(names))
		}
		os.Chdir(orig)
	}
	return mon.Result{Verdict: mon.Held, NonTrivial: true, Obs: obs, Tags: []string{"cwd-shadow"},
		Sample: map[string]interface{}{"working_directories": []string{"one directory per advertised name", "one foreign YAML file per advertised name", "one foreign <name>.yaml per advertised name"},
			"advertised_names": len(names), "note": fmt.Sprintf("run alone in its own worker process, cwd restored to %s", orig)}}
}
