package c17

import (
	"errors"
	"fmt"
	"os"
	"sort"
	"strings"
	"time"

	"github.com/scrapli/scrapligo/assets"
	"github.com/scrapli/scrapligo/driver/network"
	"github.com/scrapli/scrapligo/driver/options"
	"github.com/scrapli/scrapligo/util"

	"verif/internal/devsim"
	"verif/internal/mon"
)

// Dyn is the descriptor of one dynamic session.
type Dyn struct {
	Kind        string     `json:"kind"`         // "dyn"
	Source      string     `json:"source"`       // asset | fixture | genvariant
	Platform    string     `json:"platform"`     // advertised name or fixture file
	Variant     string     `json:"variant"`      // "" = default
	Start       string     `json:"start"`        // device mode at Open ("" = default level)
	From        string     `json:"from"`         // source level of the navigated pairs ("" = none)
	Targets     []string   `json:"targets"`      // target levels, in order
	UserDefault string     `json:"user_default"` // options.WithDefaultDesiredPriv layered on top
	NL          string     `json:"nl"`           // device end of line
	ReadSize    int        `json:"read_size"`    // 0 = library default
	Seg         devsim.Seg `json:"seg"`          // transport segmentation
	CloseAt     string     `json:"close_at"`     // level to be at when Close is called ("" = wherever)
	// Preload: a variant loaded in the same process right before the session's own load (a shipped
	// variant by name, or "gen" = the generated variant from bytes); the session then runs on the base
	Preload string `json:"preload,omitempty"`
	// Custom: hostile hostname of a "customised levels" session; CustomMode update | shared
	Custom     string `json:"custom,omitempty"`
	CustomMode string `json:"custom_mode,omitempty"`
	// TwoMode: "two drivers from one Platform object" session: transport1 | transport3 | fields
	TwoMode string `json:"two_mode,omitempty"`
	// Host: host name from the platform's prompt family ("" = canonical table); AltLevel/AltIdx
	// (1-based): that level shows its AltIdx-th alternative spelling (config sub mode etc.)
	Host     string `json:"host,omitempty"`
	AltLevel string `json:"alt_level,omitempty"`
	AltIdx   int    `json:"alt_idx,omitempty"`
	// Renamed: the generated variant's levels carry new names (renamedPrefix) and its default
	// desired level is one of them
	Renamed bool `json:"renamed,omitempty"`
	// GenStyle / GenMask: other styles of the generated variant ("empty-onx": step sections defined
	// as empty lists over a base with steps) and the sections it defines (0 = all but driver-type)
	GenStyle string `json:"gen_style,omitempty"`
	GenMask  int    `json:"gen_mask,omitempty"`
	// Blank: b0 | b1 | b2 - the device prints every prompt with 0, 1, 2 trailing blanks wherever the
	// level's own pattern accepts that spelling ("" = the canonical spelling)
	Blank string `json:"blank,omitempty"`
}

func (s Dyn) label() string {
	l := s.Platform
	if s.Source == "genvariant" {
		l += "/generated"
		if s.Renamed {
			l += "-renamed"
		} else if s.GenStyle != "" {
			l += "-" + s.GenStyle
		}
	} else if s.Variant != "" {
		l += "/" + s.Variant
	}
	return l
}

// the lines SendConfig / SendCommand send in every session (known to the device model)
const cfgLine = "c17 set system name x"
const cmdLine = "c17 show version"

// devStats is what the device model counts.
type devStats struct {
	unknown   int
	passwords int
	rejected  int
	unknownAt []string
}

// buildDevice fills dev so that it behaves as the loaded definition says: modes = levels, prompts
// = canonical table, a level's escalate string is honoured only in its previous level, its
// de-escalate string only in the level itself, authenticated escalations ask for the secret.
func buildDevice(dev *devsim.CLI, levels map[string]*network.PrivilegeLevel, prompts map[string]string, known map[string]bool,
	nl, start string, st *devStats) {
	dev.Prompts = map[string]string{}
	for k, p := range prompts {
		dev.Prompts[k] = strings.ReplaceAll(p, "\n", nl)
	}
	dev.Mode = start
	dev.NL = nl
	var names []string
	for k := range levels {
		names = append(names, k)
	}
	sort.Strings(names)
	dev.Handler = func(d *devsim.CLI, mode, line string) devsim.Reply {
		if line == "" {
			return devsim.Reply{}
		}
		for _, k := range names {
			c := levels[k]
			if c.PreviousPriv == mode && c.Escalate != "" && c.Escalate == line {
				if !c.EscalateAuth {
					return devsim.Reply{NewMode: k}
				}
				st.passwords++
				target := k
				return devsim.Reply{Ask: &devsim.Ask{Prompt: passwordPrompt, Then: func(ans string) devsim.Reply {
					if ans == secret {
						return devsim.Reply{NewMode: target}
					}
					st.rejected++
					return devsim.Reply{Out: []devsim.Token{devsim.T("access denied" + nl)}}
				}}}
			}
		}
		if cur := levels[mode]; cur != nil && cur.Deescalate != "" && cur.Deescalate == line && cur.PreviousPriv != "" {
			return devsim.Reply{NewMode: cur.PreviousPriv}
		}
		if known[line] {
			return devsim.Reply{}
		}
		st.unknown++
		if len(st.unknownAt) < 8 {
			st.unknownAt = append(st.unknownAt, fmt.Sprintf("%s:%q", mode, line))
		}
		return devsim.Reply{Out: []devsim.Token{devsim.T(errLine + nl)}}
	}
}

// source resolves the definition bytes and the constructor argument of a session.
func (s Dyn) source() (b []byte, arg interface{}, prompts map[string]string, res *mon.Result) {
	switch s.Source {
	case "asset", "genvariant":
		ab, err := assets.Assets.ReadFile("platforms/" + s.Platform + ".yaml")
		if err != nil {
			_, lerr, _ := newPlatform(s.Platform, "", options.WithCustomTransport(devsim.NewConn(nil, devsim.Config{})))
			v := viol("c17/load-failed:"+s.Platform, "advertised name %q: no embedded definition (%v); NewPlatform: %v", s.Platform, err, lerr)
			return nil, nil, nil, &v
		}
		prompts = canon[s.Platform].Levels
		if vp, ok := variantCanon[s.Platform+"/"+s.Variant]; ok && s.Source == "asset" {
			prompts = vp
		}
		if s.Source == "genvariant" {
			style := ""
			if s.Renamed {
				style = "renamed"
				rp := map[string]string{}
				for k, p := range prompts {
					rp[renamedPrefix+k] = p
				}
				prompts = rp
			}
			mask := allButDriverType
			if s.GenStyle != "" && !s.Renamed {
				style = s.GenStyle
			}
			if s.GenMask != 0 {
				mask = s.GenMask
			}
			gb, err := genVariantDef(ab, mask, style)
			if err != nil {
				v := mon.Result{Verdict: mon.Inconclusive, Detail: "harness: cannot generate variant: " + err.Error()}
				return nil, nil, nil, &v
			}
			return gb, gb, prompts, nil
		}
		return ab, s.Platform, prompts, nil
	case "fixture":
		fb, err := os.ReadFile(fixturePath(s.Platform))
		if err != nil {
			v := mon.Result{Verdict: mon.Inconclusive, Detail: "fixture not readable: " + err.Error()}
			return nil, nil, nil, &v
		}
		return fb, fixturePath(s.Platform), fixtureCanon[s.Platform], nil
	}
	v := mon.Result{Verdict: mon.Inconclusive, Detail: "harness: unknown source " + s.Source}
	return nil, nil, nil, &v
}

func snapshotLines(conn *devsim.Conn, dev *devsim.CLI, from int) (l []expLine, mode string, n int) {
	conn.Do(func() {
		for _, r := range dev.Lines[from:] {
			if r.Line == "" && r.State == "cmd" {
				continue
			}
			l = append(l, expLine{r.Mode, r.State, r.Line})
		}
		mode = dev.Mode
		n = len(dev.Lines)
	})
	return
}

func sameLines(a, b []expLine) bool {
	if len(a) != len(b) {
		return false
	}
	for i := range a {
		if a[i] != b[i] {
			return false
		}
	}
	return true
}

// RunDyn drives the real driver built from the definition against the definition-derived device.
func RunDyn(s Dyn) mon.Result {
	label := s.label()
	st := &devStats{}
	dev := &devsim.CLI{}
	conn := devsim.NewConn(dev, devsim.Config{Seg: s.Seg, KeepData: true})
	defer conn.Abandon()

	b, arg, prompts, early := s.source()
	if early != nil {
		return *early
	}
	if s.Host != "" {
		prompts = familyPrompts(s.Platform, s.Host, s.AltLevel, s.AltIdx)
	}
	ref, _, err := parseDef(b)
	if err == nil && s.Blank != "" {
		prompts = blankSpellings(ref.Default, prompts, int(s.Blank[1]-'0'))
	}
	if err != nil {
		return viol("c17/definition-malformed:"+label, "definition does not parse: %v", err)
	}
	eff := ref.Default
	variant := s.Variant
	if s.Source == "genvariant" {
		variant = "gen"
	}
	if variant != "" {
		v, ok := ref.Variants[variant]
		if !ok {
			return viol("c17/variant-missing:"+label, "definition has no variant %q", variant)
		}
		eff = mergeRef(ref.Default, v)
	}
	if v := staticInvariants(label, eff, prompts); v != nil {
		return *v
	}
	opts := []util.Option{
		options.WithCustomTransport(conn),
		options.WithAuthSecondary(secret),
		options.WithTimeoutOps(30 * time.Second),
	}
	if s.ReadSize > 0 {
		opts = append(opts, options.WithTransportReadSize(s.ReadSize))
	}
	effDefault := eff.Default
	if s.UserDefault != "" {
		opts = append(opts, options.WithDefaultDesiredPriv(s.UserDefault))
		effDefault = s.UserDefault
	}
	if s.Preload != "" {
		var pf interface{} = arg
		pv := s.Preload
		if s.Preload == "gen" {
			gb, err := genVariantDef(b, allButDriverType, "")
			if err != nil {
				return mon.Result{Verdict: mon.Inconclusive, Detail: "harness: " + err.Error()}
			}
			pf = gb
		}
		pconn := devsim.NewConn(&devsim.CLI{}, devsim.Config{})
		defer pconn.Abandon()
		if _, err, pnc := newPlatformH(pf, pv, "other-host", options.WithCustomTransport(pconn)); err != nil || pnc != nil {
			return viol("c17/load-failed:"+label+"/"+pv, "loading variant %q before the session failed: %v %v", pv, err, pnc)
		}
	}
	p, err, pnc := newPlatform(arg, variant, opts...)
	if pnc != nil {
		return viol("c17/load-panic:"+label, "constructor panicked: %v", pnc)
	}
	if err != nil || p == nil {
		return viol("c17/load-failed:"+label, "constructor failed: %v", err)
	}
	if v := compareLoaded(label, eff, p, false); v != nil {
		if s.Preload != "" {
			what := strings.TrimPrefix(v.Key, "c17/loaded-differs:"+label+":")
			v.Key = "c17/load-order:" + s.Platform + ":variant-base-dynamic:loaded-differs:" + what
			v.Detail = fmt.Sprintf("variant %q was loaded in this process before the base definition: %s", s.Preload, v.Detail)
		}
		return *v
	}
	d, v := checkGetter(label, eff, p)
	if v != nil {
		return *v
	}
	if d == nil {
		return mon.Result{Verdict: mon.Inconclusive, Detail: "harness: dynamic session needs a network driver"}
	}
	if s.Source == "asset" && s.Host == "" {
		if v := checkOverlap(label, d.PrivilegeLevels, prompts); v != nil {
			return *v
		}
	}
	if s.Host != "" || s.Blank != "" {
		if v := checkFamilyPrompts(s.Platform, d.PrivilegeLevels, d.Channel.PromptPattern, prompts, fmt.Sprintf("host name %q, trailing blanks %q", s.Host, s.Blank)); v != nil {
			return *v
		}
	}
	if d.DefaultDesiredPriv != effDefault {
		return viol("c17/user-option-lost:"+label+":default-desired-priv", "driver DefaultDesiredPriv is %q, the user asked for %q (definition: %q)", d.DefaultDesiredPriv, effDefault, eff.Default)
	}
	return drive(s, label, eff, effDefault, prompts, d, conn, dev, st)
}

// drive runs one session (Open with its on-open steps, the descriptor's level pairs, Close with its
// on-close steps) of driver d against the device model dev derived from d's own levels; eff and
// prompts are the reference reading of the definition the driver was built from.
func drive(s Dyn, label string, eff *refPlatform, effDefault string, prompts map[string]string, d *network.Driver,
	conn *devsim.Conn, dev *devsim.CLI, st *devStats) mon.Result {
	if hz := promptHazards(eff, prompts); len(hz) > 0 {
		return mon.Result{Verdict: mon.Inconclusive, Detail: "generator precondition not met: " + strings.Join(hz, "; ")}
	}

	// reference helpers over the independent reading
	res, _, _ := compileAll(eff.Levels)
	class := func(l string) string { return prompts[l] }
	startOnly := func(l string) bool { return eff.Levels[l].Prev != "" && eff.Levels[l].Esc == "" }
	// a level without escalate command can still be asked for when it shares its prompt with a level
	// that can be reached: levels with indistinguishable prompts are one place on the device, the
	// empty command is how a definition says so (cumulus_linux/root_login)
	acquirable := func(l string) bool {
		if !startOnly(l) {
			return true
		}
		for _, k := range sortedLevels(eff.Levels) {
			if k != l && prompts[k] == prompts[l] && !(eff.Levels[k].Prev != "" && eff.Levels[k].Esc == "") {
				return true
			}
		}
		return false
	}
	unambiguous := func(l string) bool {
		for _, k := range sortedLevels(eff.Levels) {
			if class(k) != class(l) && accepts(eff.Levels[k], res[k], prompts[l]) {
				return false
			}
		}
		// levels of one class must leave it the same way, else the reference path is not defined
		for _, k := range sortedLevels(eff.Levels) {
			if class(k) == class(l) && k != l && !startOnly(k) && !startOnly(l) &&
				(eff.Levels[k].Deesc != eff.Levels[l].Deesc || eff.Levels[k].Prev != eff.Levels[l].Prev) {
				return false
			}
		}
		return true
	}

	var tags []string
	tags = append(tags, "platform="+label, "nl="+fmt.Sprintf("%q", s.NL), "seg="+s.Seg.Mode, fmt.Sprintf("readsize=%d", s.ReadSize))
	obs := map[string]int64{"sessions": 1}

	start := s.Start
	if start == "" {
		start = effDefault
	}
	if _, ok := eff.Levels[start]; !ok {
		start = effDefault
	}
	if start != effDefault && !unambiguous(start) {
		tags = append(tags, "start-ambiguous-fell-back-to-default")
		start = effDefault
	}
	if start != effDefault {
		obs["open_from_non_default_level"]++
	}

	known := map[string]bool{}
	for _, sec := range [][]step{eff.OnOpen, eff.OnClose, eff.NetOnOpen, eff.NetOnClose} {
		for _, e := range sec {
			if c, ok := e["command"].(string); ok {
				known[c] = true
			}
			if c, ok := e["input"].(string); ok {
				known[c] = true
			}
		}
	}
	known[cfgLine], known[cmdLine] = true, true
	buildDevice(dev, d.PrivilegeLevels, prompts, known, s.NL, start, st)

	bad := func(key, f string, a ...interface{}) mon.Result {
		r := viol(key, f, a...)
		r.Events = tailEvents(conn.Log(), 80)
		conn.Do(func() { r.Detail += fmt.Sprintf("\n device: mode=%s unknown-input=%v", dev.State(), st.unknownAt) })
		return r
	}
	judgeErr := func(key, what string, err error, t0 time.Time) mon.Result {
		if errors.Is(err, util.ErrTimeoutError) {
			var gen, del int
			conn.Do(func() { gen, del = conn.Generated(), conn.DeliveredLocked() })
			if mon.LoadedSince(t0) || del < gen {
				return mon.Result{Verdict: mon.Inconclusive, Detail: fmt.Sprintf("%s timed out under load (delivered %d of %d bytes)", what, del, gen)}
			}
		}
		return bad(key, "%s returned %v", what, err)
	}

	// ---- Open: must run the on-open steps ------------------------------------------------------
	sim := &refSim{levels: eff.Levels, mode: start, class: class}
	sim.runSteps(eff.OnOpen, false, effDefault)
	sim.runSteps(eff.NetOnOpen, true, effDefault)
	t0 := time.Now()
	if err := d.Open(); err != nil {
		return judgeErr("c17/open-failed:"+label, "Open", err, t0)
	}
	closed := false
	defer func() {
		if closed {
			return
		}
		done := make(chan struct{})
		go func() { defer func() { recover(); close(done) }(); d.Channel.Close() }()
		select {
		case <-done:
		case <-time.After(5 * time.Second):
		}
	}()
	got, mode, nLines := snapshotLines(conn, dev, 0)
	if !sameLines(got, sim.out) {
		return bad("c17/on-open-steps:"+label, "device started in %q; after Open it had received (non-empty lines, mode/state:line)\n  %s\nthe definition's on-open steps require\n  %s",
			start, fmtLines(got), fmtLines(sim.out))
	}
	if class(mode) != class(sim.mode) {
		return bad("c17/on-open-level:"+label, "after Open the device is in %q, the on-open steps lead to %q", mode, sim.mode)
	}
	obs["on_open_lines_checked"] += int64(len(got))
	for _, l := range got {
		if l.State == "hidden" {
			obs["on_open_secret_sent"]++
		}
	}

	// ---- navigation: every (from, target) pair of the descriptor --------------------------------
	nontrivial := len(eff.Levels) >= 2
	place := func(l string) *mon.Result {
		if !acquirable(l) {
			if !unambiguous(l) {
				return &mon.Result{Verdict: mon.Inconclusive, Detail: "start-only level with ambiguous prompt"}
			}
			okPlace := false
			conn.Do(func() {
				if dev.AtPrompt() {
					dev.Mode = l
					okPlace = true
				}
			})
			if !okPlace {
				r := bad("c17/harness:device-not-at-prompt", "cannot place the device: it is not at a prompt")
				r.Verdict = mon.Inconclusive
				return &r
			}
			obs["placed_by_back_door"]++
			return nil
		}
		t0 := time.Now()
		if err := d.AcquirePriv(l); err != nil {
			r := judgeErr(fmt.Sprintf("c17/acquire-failed:%s:->%s", label, l), fmt.Sprintf("AcquirePriv(%q) (moving to the pair's source level)", l), err, t0)
			return &r
		}
		_, m, _ := snapshotLines(conn, dev, nLines)
		if class(m) != class(l) {
			r := bad(fmt.Sprintf("c17/wrong-level:%s:->%s", label, l), "AcquirePriv(%q) returned nil but the device is in %q (prompt %q)", l, m, prompts[m])
			return &r
		}
		return nil
	}
	for _, tgt := range s.Targets {
		if _, ok := eff.Levels[tgt]; !ok || !acquirable(tgt) || tgt == s.From {
			continue
		}
		if r := place(s.From); r != nil {
			return *r
		}
		_, before, _ := snapshotLines(conn, dev, nLines)
		t0 := time.Now()
		if err := d.AcquirePriv(tgt); err != nil {
			return judgeErr(fmt.Sprintf("c17/acquire-failed:%s:%s->%s", label, s.From, tgt), fmt.Sprintf("AcquirePriv(%q) from %q", tgt, before), err, t0)
		}
		_, after, _ := snapshotLines(conn, dev, nLines)
		if class(after) != class(tgt) {
			return bad(fmt.Sprintf("c17/wrong-level:%s:%s->%s", label, s.From, tgt), "AcquirePriv(%q) from %q returned nil but the device is in %q (prompt %q), not in the target's class (prompt %q)",
				tgt, before, after, prompts[after], prompts[tgt])
		}
		if d.CurrentPriv != tgt {
			return bad(fmt.Sprintf("c17/wrong-level:%s:%s->%s", label, s.From, tgt), "AcquirePriv(%q) returned nil but the driver's CurrentPriv is %q", tgt, d.CurrentPriv)
		}
		obs["pairs_navigated"]++
		if class(before) != class(tgt) {
			obs["pairs_between_classes"]++
		}
		if after == tgt {
			obs["pairs_exact_level"]++
		}
		if !acquirable(s.From) {
			obs["pairs_from_start_only_level"]++
		}
		if class(before) == class(tgt) {
			obs["known_level_same_prompt_pairs"]++
		}
		tags = append(tags, fmt.Sprintf("pair=%s:%s->%s", label, s.From, tgt))
	}
	// ---- SendConfig / SendCommand from known levels ------------------------------------------------
	sawLine := func(from int, line, wantClassOf string) (bool, string) {
		ok, where := false, ""
		conn.Do(func() {
			for _, r := range dev.Lines[from:] {
				if r.Line == line {
					where = r.Mode
					ok = class(r.Mode) == class(wantClassOf)
				}
			}
		})
		return ok, where
	}
	if _, has := eff.Levels["configuration"]; has && acquirable("configuration") {
		for round := 0; round < 2; round++ {
			_, _, n0 := snapshotLines(conn, dev, 0)
			t0 := time.Now()
			if _, err := d.SendConfig(cfgLine); err != nil {
				return judgeErr("c17/send-config-failed:"+label, fmt.Sprintf("SendConfig (driver at known level %q)", d.CurrentPriv), err, t0)
			}
			if ok, where := sawLine(n0, cfgLine, "configuration"); !ok {
				return bad("c17/send-config-wrong-level:"+label, "SendConfig returned nil; the device received the line in mode %q, not in the configuration level's class", where)
			}
			obs["send_config_from_known_level"]++
			_, _, n0 = snapshotLines(conn, dev, 0)
			t0 = time.Now()
			if _, err := d.SendCommand(cmdLine); err != nil {
				return judgeErr("c17/send-command-failed:"+label, fmt.Sprintf("SendCommand (driver at known level %q)", d.CurrentPriv), err, t0)
			}
			if ok, where := sawLine(n0, cmdLine, effDefault); !ok {
				return bad("c17/send-command-wrong-level:"+label, "SendCommand returned nil; the device received the line in mode %q, not in the default desired level's class (%q)", where, effDefault)
			}
			obs["send_command_from_known_level"]++
		}
	}
	if s.CloseAt != "" && acquirable(s.CloseAt) {
		if _, ok := eff.Levels[s.CloseAt]; ok {
			if r := place(s.CloseAt); r != nil {
				return *r
			}
		}
	}

	// ---- Close: must run the on-close steps ------------------------------------------------------
	_, mode, nLines = snapshotLines(conn, dev, nLines)
	sim2 := &refSim{levels: eff.Levels, mode: mode, class: class, belief: d.CurrentPriv}
	sim2.runSteps(eff.NetOnClose, true, effDefault)
	sim2.runSteps(eff.OnClose, false, effDefault)
	t0 = time.Now()
	cerr := make(chan error, 1)
	go func() {
		defer func() {
			if x := recover(); x != nil {
				cerr <- fmt.Errorf("panic: %v", x)
			}
		}()
		cerr <- d.Close()
	}()
	select {
	case err := <-cerr:
		closed = true
		if err != nil {
			return judgeErr("c17/close-failed:"+label, "Close", err, t0)
		}
	case <-time.After(90 * time.Second):
		return mon.Result{Verdict: mon.Inconclusive, Detail: "Close did not return within 90 s (C07's subject)"}
	}
	got, _, _ = snapshotLines(conn, dev, nLines)
	if !sameLines(got, sim2.out) {
		return bad("c17/on-close-steps:"+label, "device was in %q; during Close it received (non-empty lines)\n  %s\nthe definition's on-close steps require\n  %s",
			mode, fmtLines(got), fmtLines(sim2.out))
	}
	if conn.CloseCalls() < 1 {
		return bad("c17/close-no-transport-close:"+label, "Close returned nil without closing the transport")
	}
	obs["on_close_lines_checked"] += int64(len(got))
	obs["device_unknown_input_lines"] += int64(st.unknown)
	obs["device_password_prompts"] += int64(st.passwords)
	obs["device_password_rejections"] += int64(st.rejected)
	if s.UserDefault != "" {
		obs["sessions_with_user_default_level"]++
	}
	if s.Blank != "" {
		obs["sessions_with_trailing_blanks"]++
		for _, p := range prompts {
			if n := len(p) - len(strings.TrimRight(p, " ")); n > 0 {
				obs["device_prompts_with_trailing_blanks"]++
			}
		}
		tags = append(tags, "blanks="+s.Platform+":"+s.Blank)
	}
	if s.GenStyle == "empty-onx" {
		obs["sessions_on_variant_with_empty_step_sections"]++
	}
	if s.Host != "" {
		obs["sessions_with_family_host_name"]++
		tags = append(tags, "host="+s.Platform+":"+s.Host)
		if s.AltLevel != "" {
			obs["sessions_with_sub_mode_prompt"]++
			tags = append(tags, fmt.Sprintf("alt=%s:%s#%d", s.Platform, s.AltLevel, s.AltIdx))
		}
	}
	if s.Source != "asset" || s.Variant != "" {
		obs["sessions_on_variants_or_fixtures"]++
	}
	return mon.Result{Verdict: mon.Held, NonTrivial: nontrivial, Obs: obs, Tags: tags,
		Sample: map[string]interface{}{
			"definition": label, "device_started_in": start, "on_open_seen": fmtLines(sim.out), "on_close_seen": fmtLines(got),
			"pairs_from": s.From, "targets": s.Targets, "transport": devsim.Summary(conn.Log()),
		}}
}

func tailEvents(l []devsim.Event, n int) []devsim.Event {
	if len(l) > n {
		l = l[len(l)-n:]
	}
	for i := range l {
		if len(l[i].Data) > 160 {
			l[i].Data = l[i].Data[:160] + "…"
		}
	}
	return l
}

// RunOverlap is an observation, not a judgement: a fresh driver (empty cached level) is opened on
// a device that already is in level s.Start, whose canonical prompt the default desired level's
// pattern accepts as well (a pinned overlap). The evidence records what happens.
func RunOverlap(s Dyn) mon.Result {
	label := s.label()
	st := &devStats{}
	dev := &devsim.CLI{}
	conn := devsim.NewConn(dev, devsim.Config{Seg: s.Seg, KeepData: true})
	defer conn.Abandon()
	ld, v := loadByName(s.Platform, conn, options.WithAuthSecondary(secret), options.WithTimeoutOps(30*time.Second))
	if v != nil {
		return *v
	}
	prompts := canon[s.Platform].Levels
	known := map[string]bool{}
	for _, sec := range [][]step{ld.eff.NetOnOpen, ld.eff.NetOnClose} {
		for _, e := range sec {
			if c, ok := e["command"].(string); ok {
				known[c] = true
			}
			if c, ok := e["input"].(string); ok {
				known[c] = true
			}
		}
	}
	buildDevice(dev, ld.d.PrivilegeLevels, prompts, known, s.NL, s.Start, st)
	def := ld.eff.Default
	err := ld.d.Open()
	got, mode, _ := snapshotLines(conn, dev, 0)
	cur := ld.d.CurrentPriv
	func() {
		done := make(chan struct{})
		go func() { defer func() { recover(); close(done) }(); ld.d.Channel.Close() }()
		select {
		case <-done:
		case <-time.After(5 * time.Second):
		}
	}()
	obs := map[string]int64{"fresh_sessions_on_overlapping_level": 1}
	tag := fmt.Sprintf("overlap=%s:%s-as-%s:", label, s.Start, def)
	outcome := "navigated-to-default"
	switch {
	case err != nil:
		outcome = "open-error"
		obs["fresh_session_on_overlapping_level_open_error"]++
	case prompts[mode] != prompts[def]:
		outcome = "misidentified"
		obs["fresh_session_on_overlapping_level_misidentified"]++
	}
	return mon.Result{Verdict: mon.Held, NonTrivial: true, Obs: obs, Tags: []string{tag + outcome},
		Sample: map[string]interface{}{
			"definition": label, "device_started_in": s.Start, "prompt": prompts[s.Start], "default_desired_level": def,
			"open_error": fmt.Sprint(err), "device_mode_after_open": mode, "driver_current_priv_after_open": cur,
			"lines_device_received_during_open": fmtLines(got), "outcome": outcome,
		}}
}
