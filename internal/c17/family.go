package c17

import (
	"fmt"
	"regexp"
	"sort"
	"strings"

	"github.com/scrapli/scrapligo/driver/network"

	"verif/internal/devsim"
	"verif/internal/mon"
)

// Prompt families: what every shipped level pattern is evidently meant to accept, derived once
// from the unchanged shipped definitions. {{H}} is the host name. Hosts holds, per platform,
// spellings with letters, digits and each punctuation character of the pattern's host class that
// every level of the platform admits; Alt holds further spellings of a level's prompt (config sub
// modes, changed-config marks, context lines). With the canonical host every Tmpl entry equals
// the canonical prompt of Appendix A. The family pins the accepted language: a definition that
// stops accepting a member is reported.
type family struct {
	Tmpl  map[string]string
	Hosts []string
	Alt   map[string][]string
}

const hh = "{{H}}"

var iosHosts = []string{"c9300-01", "r1.lab", "edge_rtr", "u@r1", "pod/r2", "dc:r3"}
var iosSub = []string{hh + "(config-if)#", hh + "(config-vlan)#", hh + "(config-router)#", hh + "(config-if-range)#", hh + "(config-line)#"}

var families = map[string]family{
	"arista_eos": {
		Tmpl:  map[string]string{"exec": hh + ">", "privilege-exec": hh + "#", "configuration": hh + "(config)#"},
		Hosts: []string{"localhost", "eos-spine1", "lab.eos1", "sw_1", "admin@sw1", "pod1/sw2", "dc1:sw3"},
		Alt:   map[string][]string{"configuration": {hh + "(config-if-Et1/1)#", hh + "(config-vlan-10)#", hh + "(config-router-bgp)#", hh + "(config-s-sess1)#"}},
	},
	"aruba_wlc": {
		Tmpl:  map[string]string{"exec": "(" + hh + ") >", "privilege-exec": "(" + hh + ") #", "configuration": "(" + hh + ") (config)#", "tclsh": "aruba(tcl)#"},
		Hosts: []string{"aruba-7010", "wlc.lab", "mc_1", "a@mc1", "site/mc2", "dc:mc3"},
		Alt: map[string][]string{
			"exec": {"(" + hh + ") *>"}, "privilege-exec": {"(" + hh + ") *#"},
			"configuration": {"(" + hh + ") (config-if)#", "(" + hh + ") (config-vlan)#", "(" + hh + ") *(config)#"},
			"tclsh":         {hh + "(tcl)#", "+>"},
		},
	},
	"cisco_iosxe": {
		Tmpl:  map[string]string{"exec": hh + ">", "privilege-exec": hh + "#", "configuration": hh + "(config)#", "tclsh": hh + "(tcl)#"},
		Hosts: append([]string{"csr1000v"}, iosHosts...),
		Alt:   map[string][]string{"configuration": iosSub, "tclsh": {"+>"}},
	},
	"cisco_iosxr": {
		Tmpl: map[string]string{"exec": "RP/0/RP0/CPU0:" + hh + "#", "configuration": "RP/0/RP0/CPU0:" + hh + "(config)#",
			"configuration-exclusive": "RP/0/RP0/CPU0:" + hh + "(config)#", "run": "[node0_RP0_CPU0:~]$"},
		Hosts: []string{"ios", "xr-pe1", "pe1.core", "xr_1", "u@xr2"},
		Alt: map[string][]string{
			"configuration":           {"RP/0/RP0/CPU0:" + hh + "(config-if)#", "RP/0/RP0/CPU0:" + hh + "(config-bgp)#", "RP/0/RP0/CPU0:" + hh + "(config-ospf-ar)#"},
			"configuration-exclusive": {"RP/0/RP0/CPU0:" + hh + "(config-if)#", "RP/0/RP0/CPU0:" + hh + "(config-bgp)#", "RP/0/RP0/CPU0:" + hh + "(config-ospf-ar)#"},
			"run":                     {"[xr-vm_node0_RP0_CPU0:~]$ "},
		},
	},
	"cisco_nxos": {
		Tmpl:  map[string]string{"exec": hh + ">", "privilege-exec": hh + "#", "configuration": hh + "(config)#", "tclsh": hh + "-tcl#"},
		Hosts: []string{"switch", "n9k-leaf1", "n9k.lab", "nx_1"},
		Alt: map[string][]string{"configuration": {hh + "(config-if)#", hh + "(config-vlan)#", hh + "(config-router)#", hh + "(config-if-range)#"},
			"tclsh": {hh + "(config-tcl)#", ">"}},
	},
	"cumulus_linux": {
		Tmpl:  map[string]string{"exec": "cumulus@" + hh + ":mgmt:~$ ", "configuration": "root@" + hh + ":mgmt:~# "},
		Hosts: []string{"leaf01", "leaf-01", "leaf01.lab", "leaf_1"},
		Alt:   map[string][]string{"exec": {"cumulus@" + hh + ":mgmt:/etc/network$ "}, "configuration": {"root@" + hh + ":mgmt:/home/cumulus# "}},
	},
	"cumulus_vtysh": {
		Tmpl:  map[string]string{"linux": "cumulus@" + hh + ":mgmt:~$ ", "exec": hh + "# ", "configuration": hh + "(config)# "},
		Hosts: []string{"leaf01", "leaf-01", "leaf01.lab", "leaf_1"},
		Alt:   map[string][]string{"linux": {"root@" + hh + ":mgmt:~# "}},
	},
	"hp_comware": {
		Tmpl:  map[string]string{"exec": "<" + hh + ">", "configuration": "[" + hh + "]"},
		Hosts: []string{"HPE", "hpe-5130", "sw.lab", "core_1", "u@sw1", "pod/sw2", "dc:sw3"},
		Alt:   map[string][]string{"configuration": {"[" + hh + "-vlan10]", "[" + hh + "-GigabitEthernet1/0/1]", "[" + hh + "-Vlan-interface1]"}},
	},
	"huawei_vrp": {
		Tmpl:  map[string]string{"exec": "<" + hh + ">", "configuration": "[" + hh + "]"},
		Hosts: []string{"HUAWEI", "ce-6850", "sw.lab", "core_1", "u@sw1", "pod/sw2", "dc:sw3"},
		Alt:   map[string][]string{"configuration": {"[" + hh + "-vlan10]", "[" + hh + "-GigabitEthernet0/0/1]", "[" + hh + "-Vlanif1]"}},
	},
	"ipinfusion_ocnos": {
		Tmpl:  map[string]string{"linux": "root@" + hh + ":~#", "exec": hh + ">", "privilege-exec": hh + "#", "configuration": hh + "(config)#"},
		Hosts: []string{"OcNOS", "oc-leaf1", "oc.lab", "oc_1", "pod/oc2"},
		Alt:   map[string][]string{"configuration": {hh + "(config-if)#", hh + "(config-router)#", hh + "(config-vlan)#"}},
	},
	"juniper_junos": {
		Tmpl: map[string]string{"exec": hh + ">", "configuration": hh + "#", "configuration-exclusive": hh + "#", "configuration-private": hh + "#",
			"shell": "%", "root-shell": "root@" + hh + ":~ #"},
		Hosts: []string{"vrnetlab", "vmx-1", "mx.lab", "re0_mx", "admin@vmx1", "re0/mx", "dc:mx"},
		Alt: map[string][]string{
			"exec":          {"{master:0}\n" + hh + ">", hh + "> "},
			"configuration": {"{master:0}[edit]\n" + hh + "#", hh + "# "},
			"shell":         {"% ", "$ "},
			"root-shell":    {"root@" + hh + ":/var/tmp # ", "root@" + hh + "%"},
		},
	},
	"nokia_srl": {
		Tmpl:  map[string]string{"exec": "--{ running }--[  ]--\nA:" + hh + "#", "configuration": "--{ candidate private private-admin }--[  ]--\nA:" + hh + "#"},
		Hosts: []string{"srl", "srl-1", "leaf1.lab", "srl_1"},
		Alt: map[string][]string{
			"exec":          {"--{ + running }--[ network-instance default ]--\nA:" + hh + "# ", "--{ [FACTORY] running }--[  ]--\nB:" + hh + "#"},
			"configuration": {"--{ * candidate shared default }--[ interface ethernet-1/1 ]--\nA:" + hh + "# ", "--{ +! candidate private private-admin }--[  ]--\nA:" + hh + "#"},
		},
	},
	"nokia_sros": {
		Tmpl: map[string]string{"exec": "[/]\nA:admin@" + hh + "#", "configuration": "(ex)[/]\nA:admin@" + hh + "#",
			"configuration-with-path": "(ex)[/configure router \"Base\"]\nA:admin@" + hh + "#"},
		Hosts: []string{"sros", "pe-1", "pe1.lab", "sr_1"},
		Alt: map[string][]string{
			"exec":                    {"[/show router]\nA:admin@" + hh + "# ", "[/]\nB:admin@" + hh + "#"},
			"configuration":           {"*(ex)[/]\nA:admin@" + hh + "#", "(ex)[]\nA:admin@" + hh + "# "},
			"configuration-with-path": {"*(ex)[/configure port 1/1/1]\nA:admin@" + hh + "#"},
		},
	},
	"nokia_sros_classic": {
		Tmpl:  map[string]string{"configuration": "A:" + hh + "#"},
		Hosts: []string{"sros", "pe-1", "pe1.lab", "sr_1"},
		Alt:   map[string][]string{"configuration": {"*A:" + hh + "#", "B:" + hh + "# ", "A:" + hh + ">config>router#"}},
	},
	"paloalto_panos": {
		Tmpl:  map[string]string{"exec": "admin@" + hh + ">", "configuration": "admin@" + hh + "#"},
		Hosts: []string{"PA-VM", "fw.lab", "pa_1", "PA-VM(active)"},
		Alt:   map[string][]string{"exec": {"admin@" + hh + "> "}, "configuration": {"admin@" + hh + "# "}},
	},
	"ruijie_rgos": {
		Tmpl:  map[string]string{"exec": hh + ">", "privilege-exec": hh + "#", "configuration": hh + "(config)#", "tclsh": hh + "(tcl)#"},
		Hosts: []string{"Ruijie", "RG-S5750-01", "ruijie.lab", "rg_1", "u@rg1", "pod/rg2", "dc:rg3"},
		Alt:   map[string][]string{"configuration": {hh + "(config-vlan)#", hh + "(config-if-range)#", hh + "(config-router)#", hh + "(config-line)#"}, "tclsh": {"+>"}},
	},
	"vyatta_vyos": {
		Tmpl:  map[string]string{"exec": "vyos@" + hh + ":~$", "configuration": "vyos@" + hh + "#"},
		Hosts: []string{"vyos", "vyos-1", "r1.lab", "vy_1"},
		Alt:   map[string][]string{"configuration": {"[edit]\nvyos@" + hh + "#", "[edit interfaces ethernet eth0]\nvyos@" + hh + "#"}},
	},
}

// familyPrompts returns the prompt table for host h; altLevel/altIdx (1-based) replace that
// level's prompt by its altIdx-th alternative spelling.
func familyPrompts(name, h, altLevel string, altIdx int) map[string]string {
	f := families[name]
	out := map[string]string{}
	for k, t := range f.Tmpl {
		out[k] = strings.ReplaceAll(t, hh, h)
	}
	if altLevel != "" && altIdx >= 1 && altIdx <= len(f.Alt[altLevel]) {
		out[altLevel] = strings.ReplaceAll(f.Alt[altLevel][altIdx-1], hh, h)
	}
	return out
}

func altLevels(name string) []string {
	var l []string
	for k := range families[name].Alt {
		l = append(l, k)
	}
	sort.Strings(l)
	return l
}

// checkFamilyPrompts: every prompt of the table is accepted by its own level (pattern and
// not-contains), the joined pattern extracts something its level accepts, and it is accepted by no
// other level than the pinned overlap relation lists.
func checkFamilyPrompts(name string, levels network.PrivilegeLevels, joined *regexp.Regexp, prompts map[string]string, what string) *mon.Result {
	names := levelKeys(levels)
	res := map[string]*regexp.Regexp{}
	for _, k := range names {
		re, err := regexp.Compile(levels[k].Pattern)
		if err != nil {
			return nil // the pattern monitors report it
		}
		res[k] = re
	}
	pinned := map[string]bool{}
	for _, p := range overlapPinned[name] {
		pinned[p] = true
	}
	for _, a := range names {
		pr, ok := prompts[a]
		if !ok {
			continue
		}
		own := refLevel{NotContains: levels[a].NotContains}
		if !accepts(own, res[a], pr) {
			v := viol("c17/prompt-not-matched:"+name+"/"+a, "%s: the %s prompt %q, a member of the prompt family the validated definition accepts, is not accepted by the level's pattern %q / not-contains %q",
				what, a, pr, levels[a].Pattern, levels[a].NotContains)
			return &v
		}
		if joined != nil {
			got := string(joined.Find([]byte("\n" + pr)))
			if got == "" || !accepts(own, res[a], got) {
				v := viol("c17/joined-pattern:"+name+"/"+a, "%s: the driver's joined prompt pattern extracts %q from the %s prompt %q; the level's own pattern must accept it", what, got, a, pr)
				return &v
			}
		}
		for _, b := range names {
			if a == b || pinned[a+">"+b] {
				continue
			}
			if accepts(refLevel{NotContains: levels[b].NotContains}, res[b], pr) {
				v := viol(fmt.Sprintf("c17/prompt-overlap-changed:%s:%s-accepted-by-%s", name, a, b),
					"%s: the %s prompt %q is also accepted by level %q (pattern %q); the validated definition has exactly the overlaps %v", what, a, pr, b, levels[b].Pattern, overlapPinned[name])
				return &v
			}
		}
	}
	return nil
}

// runFamily is the static monitor over the whole family of one platform.
func runFamily(name string) mon.Result {
	conn := devsim.NewConn(&devsim.CLI{}, devsim.Config{})
	defer conn.Abandon()
	ld, v := loadByName(name, conn)
	if v != nil {
		return *v
	}
	f, ok := families[name]
	if !ok {
		return viol("c17/no-canonical-prompts:"+name, "no prompt family for %q", name)
	}
	// the family extends the canonical table
	canonHost := f.Hosts[0]
	for k, p := range familyPrompts(name, canonHost, "", 0) {
		if canon[name].Levels[k] != p {
			return mon.Result{Verdict: mon.Inconclusive, Detail: fmt.Sprintf("harness: family template of %s/%s with host %q gives %q, canonical table has %q", name, k, canonHost, p, canon[name].Levels[k])}
		}
	}
	obs := map[string]int64{}
	joined := ld.d.Channel.PromptPattern
	for _, h := range f.Hosts {
		if v := checkFamilyPrompts(name, ld.d.PrivilegeLevels, joined, familyPrompts(name, h, "", 0), fmt.Sprintf("host name %q", h)); v != nil {
			return *v
		}
		obs["host_name_spellings"]++
		obs["family_prompts_checked"] += int64(len(f.Tmpl))
		// the same prompts as devices print them: with 0, 1, 2 trailing blanks, wherever the level's own
		// pattern accepts the spelling; the joined pattern must find the prompt there as well
		for n := 0; n <= 2; n++ {
			base := familyPrompts(name, h, "", 0)
			sp := blankSpellings(ld.eff, base, n)
			diff := map[string]string{}
			for k, p := range sp {
				if p != base[k] {
					diff[k] = p
				}
			}
			if len(diff) == 0 {
				continue
			}
			if v := checkFamilyPrompts(name, ld.d.PrivilegeLevels, joined, diff, fmt.Sprintf("host name %q, %d trailing blank(s)", h, n)); v != nil {
				return *v
			}
			obs["trailing_blank_spellings"] += int64(len(diff))
		}
		for _, al := range altLevels(name) {
			for i := range f.Alt[al] {
				pr := familyPrompts(name, h, al, i+1)
				if v := checkFamilyPrompts(name, ld.d.PrivilegeLevels, joined, map[string]string{al: pr[al]}, fmt.Sprintf("host name %q, alternative spelling of the %s prompt", h, al)); v != nil {
					return *v
				}
				obs["sub_mode_prompts"]++
				obs["family_prompts_checked"]++
			}
		}
	}
	return mon.Result{Verdict: mon.Held, NonTrivial: true, Obs: obs, Tags: []string{"family=" + name},
		Sample: map[string]interface{}{"platform": name, "hosts": f.Hosts, "alternative_spellings": f.Alt}}
}

// blankSpellings returns the prompt table with every prompt carrying n trailing blanks wherever
// the level's own pattern (and not-contains) accepts that spelling; other prompts stay as they are.
func blankSpellings(eff *refPlatform, prompts map[string]string, n int) map[string]string {
	out := map[string]string{}
	for k, p := range prompts {
		out[k] = p
		l, ok := eff.Levels[k]
		if !ok {
			continue
		}
		re, err := regexp.Compile(l.Pattern)
		if err != nil {
			continue
		}
		sp := strings.TrimRight(p, " ") + strings.Repeat(" ", n)
		if accepts(l, re, sp) {
			out[k] = sp
		}
	}
	return out
}
