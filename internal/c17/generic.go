package c17

import (
	"fmt"
	"time"

	"github.com/scrapli/scrapligo/driver/options"

	"verif/internal/devsim"
	"verif/internal/mon"
)

// RunGeneric: a generated definition whose DEFAULT section declares a generic driver (with its own
// on-open/on-close steps) and a variant that does or does not restate the type. The platform must
// have the reference merge's driver type, hand out that driver, and the driver must run the merged
// open/close steps against its device.
func RunGeneric(s Dyn) mon.Result {
	label := fmt.Sprintf("%s/generated-%s", s.Platform, s.GenStyle)
	ab, v := assetBytes(s.Platform)
	if v != nil {
		return *v
	}
	gb, err := genVariantDef(ab, s.GenMask, s.GenStyle)
	if err != nil {
		return mon.Result{Verdict: mon.Inconclusive, Detail: "harness: " + err.Error()}
	}
	ref, _, err := parseDef(gb)
	if err != nil {
		return mon.Result{Verdict: mon.Inconclusive, Detail: "harness: generated definition does not parse: " + err.Error()}
	}
	variant := "gen"
	eff := mergeRef(ref.Default, ref.Variants["gen"])
	if s.GenMask == 0 {
		variant, eff = "", ref.Default // the generic base itself
	}
	if eff.DriverType != "generic" {
		return mon.Result{Verdict: mon.Inconclusive, Detail: "harness: this session needs a generic result, reference merge gives " + eff.DriverType}
	}
	dev := &devsim.CLI{Prompts: map[string]string{"exec": "host1#"}, Mode: "exec", NL: s.NL}
	known := map[string]bool{cmdLine: true}
	for _, sec := range [][]step{eff.OnOpen, eff.OnClose} {
		for _, e := range sec {
			if c, ok := e["input"].(string); ok {
				known[c] = true
			}
		}
	}
	unknown := 0
	dev.Handler = func(d *devsim.CLI, mode, line string) devsim.Reply {
		if line == "" || known[line] {
			return devsim.Reply{}
		}
		unknown++
		return devsim.Reply{Out: []devsim.Token{devsim.T(errLine + d.NL)}}
	}
	conn := devsim.NewConn(dev, devsim.Config{Seg: s.Seg, KeepData: true})
	defer conn.Abandon()
	p, err, pnc := newPlatformH(gb, variant, "host1", options.WithCustomTransport(conn), options.WithTimeoutOps(30*time.Second))
	if pnc != nil {
		return viol("c17/load-panic:"+label, "sections %v: constructor panicked: %v", maskSections(s.GenMask), pnc)
	}
	if err != nil || p == nil {
		return viol("c17/load-failed:"+label, "generic default section, variant defining %v: constructor failed: %v", maskSections(s.GenMask), err)
	}
	if v := compareLoaded(label, eff, p, true); v != nil {
		v.Detail = fmt.Sprintf("generic default section, variant defining %v: %s", maskSections(s.GenMask), v.Detail)
		return *v
	}
	if _, v := checkGetter(label, eff, p); v != nil {
		return *v
	}
	gd, _ := p.GetGenericDriver()
	if !sameStrings(gd.FailedWhenContains, eff.Failed) {
		return viol("c17/driver-differs:"+label+":failed-when-contains", "generic driver FailedWhenContains %q, definition %q", gd.FailedWhenContains, eff.Failed)
	}
	bad := func(key, f string, a ...interface{}) mon.Result {
		r := viol(key, f, a...)
		r.Events = tailEvents(conn.Log(), 60)
		return r
	}
	sim := &refSim{levels: map[string]refLevel{}, mode: "exec"}
	sim.runSteps(eff.OnOpen, false, "")
	t0 := time.Now()
	if err := gd.Open(); err != nil {
		if mon.LoadedSince(t0) {
			return mon.Result{Verdict: mon.Inconclusive, Detail: "Open failed under load: " + err.Error()}
		}
		return bad("c17/open-failed:"+label, "Open returned %v", err)
	}
	closed := false
	defer func() {
		if !closed {
			done := make(chan struct{})
			go func() { defer func() { recover(); close(done) }(); gd.Channel.Close() }()
			select {
			case <-done:
			case <-time.After(5 * time.Second):
			}
		}
	}()
	got, _, n := snapshotLines(conn, dev, 0)
	if !sameLines(got, sim.out) {
		return bad("c17/on-open-steps:"+label, "generic driver, variant defining %v: after Open the device had received\n  %s\nthe merged on-open steps require\n  %s",
			maskSections(s.GenMask), fmtLines(got), fmtLines(sim.out))
	}
	if r, err := gd.SendCommand(cmdLine); err != nil || r == nil {
		if mon.LoadedSince(t0) {
			return mon.Result{Verdict: mon.Inconclusive, Detail: "SendCommand failed under load"}
		}
		return bad("c17/send-command-failed:"+label, "SendCommand on the generic driver returned %v", err)
	}
	_, _, n = snapshotLines(conn, dev, n)
	sim2 := &refSim{levels: map[string]refLevel{}, mode: "exec"}
	sim2.runSteps(eff.OnClose, false, "")
	cerr := gd.Close()
	closed = true
	if cerr != nil {
		return bad("c17/close-failed:"+label, "Close returned %v", cerr)
	}
	got2, _, _ := snapshotLines(conn, dev, n)
	if !sameLines(got2, sim2.out) {
		return bad("c17/on-close-steps:"+label, "generic driver, variant defining %v: during Close the device received\n  %s\nthe merged on-close steps require\n  %s",
			maskSections(s.GenMask), fmtLines(got2), fmtLines(sim2.out))
	}
	obs := map[string]int64{"generic_driver_sessions": 1, "device_unknown_input_lines": int64(unknown)}
	if s.GenMask != 0 && s.GenMask&1 == 0 {
		obs["generic_sessions_variant_not_restating_driver_type"]++
	}
	return mon.Result{Verdict: mon.Held, NonTrivial: true, Obs: obs, Tags: []string{"generic=" + s.GenStyle, fmt.Sprintf("generic-mask=%02x", s.GenMask)},
		Sample: map[string]interface{}{"definition": label, "variant_defines": maskSections(s.GenMask), "driver_type": eff.DriverType,
			"on_open_seen": fmtLines(got), "on_close_seen": fmtLines(got2)}}
}
