// Package c17: every advertised platform definition loads and drives a matching device.
package c17

import (
	"fmt"
	"math/rand"
	"os"
	"reflect"
	"sort"
	"strings"
	"time"

	"github.com/scrapli/scrapligo/driver/options"
	"github.com/scrapli/scrapligo/platform"
	"github.com/scrapli/scrapligo/util"
	"gopkg.in/yaml.v3"

	"verif/internal/devsim"
	"verif/internal/mon"
)

// Static is the descriptor of a static case.
type Static struct {
	Kind     string `json:"kind"` // assets | static | options | genvariants | variant | fixture | missing-variant
	Platform string `json:"platform,omitempty"`
	Variant  string `json:"variant,omitempty"`
}

const allButDriverType = 0xFE

// renamedPrefix: see genVariantDef, style "renamed".
const renamedPrefix = "v-"

// startOnlyPinned: levels of the shipped definitions without an escalate command (Gen must be a
// pure function, so it cannot look into the assets; Run re-derives this from the definition).
var startOnlyPinned = map[string]bool{"nokia_sros/configuration-with-path": true}

func deepCopy(v interface{}) interface{} {
	switch t := v.(type) {
	case map[string]interface{}:
		m := map[string]interface{}{}
		for k, e := range t {
			m[k] = deepCopy(e)
		}
		return m
	case []interface{}:
		l := make([]interface{}, len(t))
		for i, e := range t {
			l[i] = deepCopy(e)
		}
		return l
	}
	return v
}

// genVariantDef adds a variant "gen" to a definition: for every section in mask a value that
// differs from the default's.
// With style "renamed" the variant's privilege levels carry new names (prefix renamedPrefix on
// keys, names and previous-priv links) and, when the variant defines both sections, its default
// desired level is one of the NEW names - a name the base definition does not have.
func genVariantDef(ab []byte, mask int, style string) ([]byte, error) {
	var raw map[string]interface{}
	if err := yaml.Unmarshal(ab, &raw); err != nil {
		return nil, err
	}
	def, ok := raw["default"].(map[string]interface{})
	if !ok {
		return nil, fmt.Errorf("no default section")
	}
	if style == "empty-onx" {
		// a base WITH steps in all four sections; the variant defines its step sections as empty lists
		if isEmpty(def["on-open"]) {
			def["on-open"] = []interface{}{map[string]interface{}{"operation": "channel.write", "input": "zzz"}, map[string]interface{}{"operation": "channel.return"}}
		}
		if isEmpty(def["on-close"]) {
			def["on-close"] = []interface{}{map[string]interface{}{"operation": "channel.write", "input": "qqq"}, map[string]interface{}{"operation": "channel.return"}}
		}
	}
	if strings.HasPrefix(style, "generic-base") {
		// the DEFAULT section declares a generic driver with its own open/close steps; a variant that
		// does not restate the driver type must stay generic
		def["driver-type"] = "generic"
		def["on-open"] = []interface{}{map[string]interface{}{"operation": "channel.write", "input": "bbb"}, map[string]interface{}{"operation": "channel.return"}}
		def["on-close"] = []interface{}{map[string]interface{}{"operation": "channel.write", "input": "ccc"}, map[string]interface{}{"operation": "channel.return"}}
	}
	v := map[string]interface{}{}
	for i, s := range sections {
		if mask&(1<<i) == 0 {
			continue
		}
		if style == "generic-base-restated" && s == "driver-type" {
			v[s] = "generic"
			continue
		}
		if style == "empty-onx" && strings.Contains(s, "on-") {
			v[s] = []interface{}{}
			continue
		}
		switch s {
		case "driver-type":
			if str(def["driver-type"]) == "generic" {
				v[s] = "network"
			} else {
				v[s] = "generic"
			}
		case "failed-when-contains":
			v[s] = []interface{}{"VARIANT-FAILURE", "variant: failed"}
		case "on-open":
			v[s] = []interface{}{map[string]interface{}{"operation": "channel.write", "input": "zzz"}, map[string]interface{}{"operation": "channel.return"}}
		case "on-close":
			v[s] = []interface{}{map[string]interface{}{"operation": "channel.write", "input": "qqq", "redacted": false}, map[string]interface{}{"operation": "channel.return"}}
		case "privilege-levels":
			lv, _ := deepCopy(def["privilege-levels"]).(map[string]interface{})
			for _, e := range lv {
				if m, ok := e.(map[string]interface{}); ok {
					for _, f := range []string{"escalate", "deescalate"} {
						if x := str(m[f]); x != "" {
							m[f] = x + " v"
						}
					}
				}
			}
			if style == "renamed" {
				rn := map[string]interface{}{}
				for k, e := range lv {
					if m, ok := e.(map[string]interface{}); ok {
						m["name"] = renamedPrefix + str(m["name"])
						if x := str(m["previous-priv"]); x != "" {
							m["previous-priv"] = renamedPrefix + x
						}
					}
					rn[renamedPrefix+k] = e
				}
				lv = rn
			}
			v[s] = lv
		case "default-desired-privilege-level":
			cur := str(def["default-desired-privilege-level"])
			pick := cur
			lv, _ := def["privilege-levels"].(map[string]interface{})
			var names []string
			for k := range lv {
				names = append(names, k)
			}
			sort.Strings(names)
			for _, k := range names {
				m, _ := lv[k].(map[string]interface{})
				if k != cur && (str(m["previous-priv"]) == "" || str(m["escalate"]) != "") {
					pick = k
					break
				}
			}
			if style == "renamed" && mask&(1<<4) != 0 {
				pick = renamedPrefix + pick
			}
			v[s] = pick
		case "network-on-open":
			v[s] = []interface{}{map[string]interface{}{"operation": "acquire-priv"},
				map[string]interface{}{"operation": "driver.send-command", "command": "variant open command"}}
		case "network-on-close":
			v[s] = []interface{}{map[string]interface{}{"operation": "acquire-priv"},
				map[string]interface{}{"operation": "channel.write", "input": "variant-bye"}, map[string]interface{}{"operation": "channel.return"}}
		}
	}
	raw["variants"] = map[string]interface{}{"gen": v}
	return yaml.Marshal(raw)
}

func addOptions(ab []byte, opts []interface{}) ([]byte, error) {
	var raw map[string]interface{}
	if err := yaml.Unmarshal(ab, &raw); err != nil {
		return nil, err
	}
	def, ok := raw["default"].(map[string]interface{})
	if !ok {
		return nil, fmt.Errorf("no default section")
	}
	def["options"] = opts
	return yaml.Marshal(raw)
}

// ---- static case runners -------------------------------------------------------------------------

func runStatic(name string) mon.Result {
	conn := devsim.NewConn(&devsim.CLI{}, devsim.Config{})
	defer conn.Abandon()
	ld, v := loadByName(name, conn)
	if v != nil {
		return *v
	}
	if v := pinnedFacts(name, ld.eff); v != nil {
		return *v
	}
	obs := map[string]int64{"definitions_loaded": 1, "levels_checked": int64(len(ld.eff.Levels))}
	for _, l := range ld.eff.Levels {
		if l.Auth {
			obs["authenticated_escalations_checked"]++
		}
	}
	obs["onx_steps_checked"] = int64(len(ld.eff.OnOpen) + len(ld.eff.OnClose) + len(ld.eff.NetOnOpen) + len(ld.eff.NetOnClose))
	hz := promptHazards(ld.eff, canon[name].Levels)
	return mon.Result{Verdict: mon.Held, NonTrivial: len(ld.eff.Levels) >= 2, Obs: obs, Tags: []string{"static=" + name},
		Sample: map[string]interface{}{"platform": name, "levels": sortedLevels(ld.eff.Levels), "default": ld.eff.Default, "harness_prompt_hazards": hz}}
}

func userOptKey(name, what string) string { return "c17/user-option-lost:" + name + ":" + what }

func runOptions(name string) mon.Result {
	mk := func() *devsim.Conn { return devsim.NewConn(&devsim.CLI{}, devsim.Config{}) }
	ab, v := assetBytes(name)
	if v != nil {
		return *v
	}
	ref, _, err := parseDef(ab)
	if err != nil {
		return viol("c17/definition-malformed:"+name, "%v", err)
	}
	// another level than the default, to be asked for by the user
	other := ref.Default.Default
	for _, k := range sortedLevels(ref.Default.Levels) {
		if k != ref.Default.Default {
			other = k
			break
		}
	}
	withOpts, err := addOptions(ab, []interface{}{map[string]interface{}{"option": "port", "value": 2022}})
	if err != nil {
		return mon.Result{Verdict: mon.Inconclusive, Detail: "harness: " + err.Error()}
	}
	type tc struct {
		what string
		f    interface{}
		opts []util.Option
		port int
		fail []string
		def  string
	}
	userFail := []string{"USER-FAILURE"}
	cases := []tc{
		{"by-name/no-user-option", name, nil, 22, ref.Default.Failed, ref.Default.Default},
		{"by-name/port", name, []util.Option{options.WithPort(3022)}, 3022, ref.Default.Failed, ref.Default.Default},
		{"definition-port/no-user-option", withOpts, nil, 2022, ref.Default.Failed, ref.Default.Default},
		{"definition-port/port", withOpts, []util.Option{options.WithPort(3022)}, 3022, ref.Default.Failed, ref.Default.Default},
		{"failed-when-contains", withOpts, []util.Option{options.WithFailedWhenContains(userFail)}, 2022, userFail, ref.Default.Default},
		{"default-desired-priv", withOpts, []util.Option{options.WithDefaultDesiredPriv(other)}, 2022, ref.Default.Failed, other},
		{"all-three", withOpts, []util.Option{options.WithDefaultDesiredPriv(other), options.WithFailedWhenContains(userFail), options.WithPort(3022)}, 3022, userFail, other},
	}
	obs := map[string]int64{}
	for _, c := range cases {
		conn := mk()
		opts := append([]util.Option{options.WithCustomTransport(conn)}, c.opts...)
		p, err, pnc := newPlatform(c.f, "", opts...)
		conn.Abandon()
		if pnc != nil {
			return viol("c17/load-panic:"+name, "%s: constructor panicked: %v", c.what, pnc)
		}
		if err != nil {
			return viol("c17/load-failed:"+name, "%s: constructor failed: %v", c.what, err)
		}
		d, err := p.GetNetworkDriver()
		if err != nil || d == nil {
			return viol("c17/driver-getter:"+name, "%s: GetNetworkDriver: %v", c.what, err)
		}
		if got := d.Transport.Args.Port; got != c.port {
			k := userOptKey(name, "port")
			if len(c.opts) == 0 {
				k = "c17/definition-option-lost:" + name + ":port"
			}
			return viol(k, "%s: transport port is %d, want %d", c.what, got, c.port)
		}
		if !sameStrings(d.FailedWhenContains, c.fail) {
			return viol(userOptKey(name, "failed-when-contains"), "%s: driver FailedWhenContains %q, want %q", c.what, d.FailedWhenContains, c.fail)
		}
		if d.DefaultDesiredPriv != c.def {
			return viol(userOptKey(name, "default-desired-priv"), "%s: driver DefaultDesiredPriv %q, want %q", c.what, d.DefaultDesiredPriv, c.def)
		}
		// the definition's own objects must be untouched by user options
		if !reflect.DeepEqual(levelKeys(d.PrivilegeLevels), sortedLevels(ref.Default.Levels)) {
			return viol("c17/driver-differs:"+name+":levels", "%s: driver levels %v", c.what, levelKeys(d.PrivilegeLevels))
		}
		obs["option_layerings_checked"]++
	}
	return mon.Result{Verdict: mon.Held, NonTrivial: true, Obs: obs, Tags: []string{"options=" + name},
		Sample: map[string]interface{}{"platform": name, "user_default_level": other, "layerings": len(cases)}}
}

func assetBytes(name string) ([]byte, *mon.Result) {
	s := Dyn{Source: "asset", Platform: name}
	b, _, _, v := s.source()
	return b, v
}

// checkVariantLoad loads variant `variant` of definition f (bytes b) and compares with the
// reference merge.
func checkVariantLoad(label string, b []byte, f interface{}, variant string, prompts map[string]string, invariants bool) (*refPlatform, *mon.Result) {
	r := func(x mon.Result) *mon.Result { return &x }
	ref, _, err := parseDef(b)
	if err != nil {
		return nil, r(viol("c17/definition-malformed:"+label, "%v", err))
	}
	eff := ref.Default
	if variant != "" {
		vp, ok := ref.Variants[variant]
		if !ok {
			return nil, r(viol("c17/variant-missing:"+label, "definition has no variant %q", variant))
		}
		eff = mergeRef(ref.Default, vp)
	}
	if invariants {
		if v := staticInvariants(label, eff, prompts); v != nil {
			return nil, v
		}
	}
	conn := devsim.NewConn(&devsim.CLI{}, devsim.Config{})
	defer conn.Abandon()
	p, err, pnc := newPlatform(f, variant, options.WithCustomTransport(conn))
	if pnc != nil {
		return nil, r(viol("c17/load-panic:"+label, "constructor panicked: %v", pnc))
	}
	if err != nil || p == nil {
		return nil, r(viol("c17/load-failed:"+label, "constructor failed: %v", err))
	}
	if v := compareLoaded(label, eff, p, true); v != nil {
		return nil, v
	}
	d, v := checkGetter(label, eff, p)
	if v != nil {
		return nil, v
	}
	if d != nil {
		if v := checkDriver(label, eff, d, prompts); v != nil {
			return nil, v
		}
		_, isAsset := canon[label]
		if _, isVar := variantCanon[label]; (isAsset || isVar) && prompts != nil {
			if v := checkOverlap(label, d.PrivilegeLevels, prompts); v != nil {
				return nil, v
			}
		}
	} else {
		gd, _ := p.GetGenericDriver()
		if gd != nil && !sameStrings(gd.FailedWhenContains, eff.Failed) {
			return nil, r(viol("c17/driver-differs:"+label+":failed-when-contains", "generic driver FailedWhenContains %q, definition %q", gd.FailedWhenContains, eff.Failed))
		}
		if gd != nil && ((len(eff.OnOpen) > 0) != (gd.OnOpen != nil) || (len(eff.OnClose) > 0) != (gd.OnClose != nil)) {
			return nil, r(viol("c17/driver-differs:"+label+":on-x", "generic driver on-open/on-close hooks do not mirror the definition"))
		}
	}
	return eff, nil
}

func runGenVariants(name string) mon.Result {
	ab, v := assetBytes(name)
	if v != nil {
		return *v
	}
	obs := map[string]int64{}
	for _, style := range []string{"", "renamed", "empty-onx", "generic-base", "generic-base-restated"} {
		for mask := 0; mask < 1<<len(sections); mask++ {
			gb, err := genVariantDef(ab, mask, style)
			if err != nil {
				return mon.Result{Verdict: mon.Inconclusive, Detail: "harness: " + err.Error()}
			}
			label := name + "/generated"
			if style != "" {
				label += "-" + style
			}
			if _, v := checkVariantLoad(label, gb, gb, "gen", nil, false); v != nil {
				v.Detail = fmt.Sprintf("generated variant (level names: %q) defining sections %v: %s", style, maskSections(mask), v.Detail)
				return *v
			}
			obs["generated_variants_merged"]++
			if strings.HasPrefix(style, "generic-base") {
				if mask == 0 {
					// the generic base itself, without variant
					if _, v := checkVariantLoad(label+"/base", gb, gb, "", nil, false); v != nil {
						return *v
					}
				}
				if mask&1 == 0 {
					obs["variants_of_generic_base_not_restating_driver_type"]++
				} else {
					obs["variants_of_generic_base_stating_driver_type"]++
				}
			}
			if style == "empty-onx" {
				for _, b := range []int{2, 3, 6, 7} {
					if mask&(1<<b) != 0 {
						obs["generated_variant_sections_defined_empty"]++
					}
				}
			}
			if style == "renamed" && mask&(1<<4) != 0 && mask&(1<<5) != 0 {
				obs["generated_variants_with_renamed_levels_and_default"]++
			}
		}
	}
	return mon.Result{Verdict: mon.Held, NonTrivial: true, Obs: obs, Tags: []string{"genvariants=" + name},
		Sample: map[string]interface{}{"platform": name, "section_subsets": 1 << len(sections), "level_name_styles": []string{"base names", "renamed (" + renamedPrefix + "<name>)"}}}
}

func maskSections(mask int) []string {
	var l []string
	for i, s := range sections {
		if mask&(1<<i) != 0 {
			l = append(l, s)
		}
	}
	return l
}

func runVariant(s Static) mon.Result {
	var b []byte
	var f interface{}
	var prompts map[string]string
	label := s.Platform
	if s.Variant != "" {
		label += "/" + s.Variant
	}
	invariants := true
	switch s.Kind {
	case "variant": // shipped variant of an embedded definition, loaded through its advertised name
		ab, v := assetBytes(s.Platform)
		if v != nil {
			return *v
		}
		b, f = ab, s.Platform
		prompts = variantCanon[s.Platform+"/"+s.Variant]
	case "fixture":
		fb, err := os.ReadFile(fixturePath(s.Platform))
		if err != nil {
			return mon.Result{Verdict: mon.Inconclusive, Detail: "fixture not readable: " + err.Error()}
		}
		b, f = fb, fixturePath(s.Platform)
		prompts = fixtureCanon[s.Platform] // nil for explicit_cisco_iosxe.yaml: structure and merge only
		if s.Variant != "" {
			// the fixture's variant deliberately keeps a default level its own levels do not have:
			// only the merge is judged
			prompts, invariants = nil, false
		}
	case "missing-variant":
		conn := devsim.NewConn(&devsim.CLI{}, devsim.Config{})
		defer conn.Abandon()
		p, err, pnc := newPlatform(s.Platform, "no-such-variant", options.WithCustomTransport(conn))
		if pnc != nil {
			return viol("c17/load-panic:"+s.Platform+"/no-such-variant", "NewPlatformVariant with an unknown variant panicked: %v", pnc)
		}
		if err == nil || p != nil {
			return viol("c17/unknown-variant-accepted:"+s.Platform, "NewPlatformVariant(%q, \"no-such-variant\") returned (%v, %v)", s.Platform, p, err)
		}
		return mon.Result{Verdict: mon.Held, Obs: map[string]int64{"unknown_variant_refused": 1}}
	}
	eff, v := checkVariantLoad(label, b, f, s.Variant, prompts, invariants)
	if v != nil {
		return *v
	}
	// also from bytes
	if _, v := checkVariantLoad(label, b, b, s.Variant, prompts, false); v != nil {
		return *v
	}
	return mon.Result{Verdict: mon.Held, NonTrivial: true, Obs: map[string]int64{"shipped_variants_and_fixtures_merged": 1}, Tags: []string{"variant=" + label},
		Sample: map[string]interface{}{"definition": label, "levels": sortedLevels(eff.Levels), "default": eff.Default, "sections_present": eff.Present}}
}

// ---- case list -----------------------------------------------------------------------------------

func tableNames() []string {
	var l []string
	for k := range canon {
		l = append(l, k)
	}
	sort.Strings(l)
	return l
}

func keysOf(m map[string]string) []string {
	var l []string
	for k := range m {
		l = append(l, k)
	}
	sort.Strings(l)
	return l
}

func genSeg(r *rand.Rand) (devsim.Seg, string, int) {
	mode := []string{"whole", "fixed", "fixed", "geom", "mix", "mix"}[r.Intn(6)]
	sg := devsim.Seg{Mode: mode, Size: []int{1, 2, 3, 7, 16, 100}[r.Intn(6)], Seed: r.Int63()}
	if sg.Size >= 7 || mode == "whole" {
		sg.Delay = []string{"", "gosched", "sleep"}[r.Intn(3)]
	} else {
		sg.Delay = []string{"", "gosched"}[r.Intn(2)]
	}
	nl := []string{"\r\n", "\n", "\r\n"}[r.Intn(3)]
	rs := []int{0, 0, 1, 5, 64}[r.Intn(5)]
	return sg, nl, rs
}

func rotate(l []string, k int) []string {
	if len(l) == 0 {
		return l
	}
	k %= len(l)
	return append(append([]string{}, l[k:]...), l[:k]...)
}

func gen(tier string, seed int64) []mon.Case {
	var cs []mon.Case
	add := func(id string, d interface{}) { cs = append(cs, mon.MkCase(id, d)) }
	names := tableNames()
	add("c17/assets", Static{Kind: "assets"})
	add(cwdCaseID, Static{Kind: "cwd-shadow"})
	for _, n := range names {
		add("c17/static/"+n, Static{Kind: "static", Platform: n})
		add("c17/options/"+n, Static{Kind: "options", Platform: n})
		add("c17/genvariants/"+n, Static{Kind: "genvariants", Platform: n})
		add("c17/loadorder/"+n, Static{Kind: "loadorder", Platform: n})
		add("c17/family/"+n, Static{Kind: "family", Platform: n})
	}
	add("c17/variant/cumulus_linux/root_login", Static{Kind: "variant", Platform: "cumulus_linux", Variant: "root_login"})
	add("c17/variant/cumulus_linux/no-such-variant", Static{Kind: "missing-variant", Platform: "cumulus_linux"})
	add("c17/variant/arista_eos/no-such-variant", Static{Kind: "missing-variant", Platform: "arista_eos"})
	add("c17/fixture/test-platform.yaml", Static{Kind: "fixture", Platform: "test-platform.yaml"})
	add("c17/fixture/explicit_cisco_iosxe.yaml", Static{Kind: "fixture", Platform: "explicit_cisco_iosxe.yaml"})
	add("c17/fixture/explicit_cisco_iosxe.yaml/testing1", Static{Kind: "fixture", Platform: "explicit_cisco_iosxe.yaml", Variant: "testing1"})

	rounds := 1
	if tier == "thorough" {
		rounds = 20
	}
	r := rand.New(rand.NewSource(seed*104729 + 17))
	for k := 0; k < rounds; k++ {
		dyn := func(id string, d Dyn) {
			d.Kind = "dyn"
			d.Seg, d.NL, d.ReadSize = genSeg(r)
			add(fmt.Sprintf("c17/dyn/%s#%02d", id, k), d)
		}
		sessions := func(src, plat, variant string, levels []string) {
			label := plat
			if variant != "" {
				label += "/" + variant
			}
			for i, a := range levels {
				var tg []string
				for _, b := range levels {
					if b != a {
						tg = append(tg, b)
					}
				}
				dyn(label+"/"+a, Dyn{Source: src, Platform: plat, Variant: variant, Start: a, From: a, Targets: rotate(tg, k),
					CloseAt: levels[(i+1+k)%len(levels)]})
			}
		}
		for _, n := range names {
			lv := keysOf(canon[n].Levels)
			sessions("asset", n, "", lv)
			// generated variant (every section but driver-type replaced): the merged result drives
			dyn(n+"/generated", Dyn{Source: "genvariant", Platform: n, Start: lv[k%len(lv)], From: canon[n].Default, Targets: rotate(lv, k), CloseAt: lv[(k+1)%len(lv)]})
			// generated variant whose levels carry NEW names and whose default is one of them
			rl := make([]string, len(lv))
			for i, x := range lv {
				rl[i] = renamedPrefix + x
			}
			dyn(n+"/generated-renamed", Dyn{Source: "genvariant", Renamed: true, Platform: n, Start: rl[(k+1)%len(rl)], From: renamedPrefix + canon[n].Default,
				Targets: rotate(rl, k+1), CloseAt: rl[k%len(rl)]})
			// generic base: variants that do not / do restate the driver type, short open/close session
			gms := []struct {
				style string
				mask  int
			}{{"generic-base", 1 << 1}, {"generic-base", 1<<3 | 1<<1}, {"generic-base-restated", 1<<0 | 1<<2}, {"generic-base", 0}}
			for gi, gm := range gms {
				if k > 0 && gi != (k+len(n))%len(gms) {
					continue
				}
				d := Dyn{Source: "genvariant", Platform: n, GenStyle: gm.style, GenMask: gm.mask}
				d.Kind = "generic"
				d.Seg, d.NL, d.ReadSize = genSeg(r)
				add(fmt.Sprintf("c17/generic/%s/%s.%02x#%02d", n, gm.style, gm.mask, k), d)
			}
			// generated variant that defines the four step sections as EMPTY lists over a base with steps
			dyn(n+"/generated-empty-onx", Dyn{Source: "genvariant", GenStyle: "empty-onx", GenMask: 0xCC, Platform: n, Start: lv[(k+1)%len(lv)], From: canon[n].Default,
				Targets: rotate(lv, k), CloseAt: lv[(k+1)%len(lv)]})
			// trailing blanks after every prompt, where the level's own pattern accepts them
			for bi, bm := range []string{"b0", "b1", "b2"} {
				a := lv[(bi+k)%len(lv)]
				dyn(n+"/blanks="+bm, Dyn{Source: "asset", Platform: n, Blank: bm, Start: a, From: a, Targets: rotate(lv, bi+k), CloseAt: lv[(bi+k+1)%len(lv)]})
			}
			// a user-chosen default level on top of the definition's
			for i := range lv {
				x := lv[(i+k)%len(lv)]
				if x != canon[n].Default && !startOnlyPinned[n+"/"+x] {
					dyn(n+"/user-default="+x, Dyn{Source: "asset", Platform: n, UserDefault: x, Start: canon[n].Default, From: x, Targets: rotate(lv, k), CloseAt: canon[n].Default})
					break
				}
			}
		}
		// observation only: a fresh session on a device already in a level whose prompt the default
		// desired level's pattern accepts as well (pinned overlaps)
		for _, n := range names {
			for _, pr := range overlapPinned[n] {
				i := strings.IndexByte(pr, '>')
				a, b := pr[:i], pr[i+1:]
				if b == canon[n].Default && canon[n].Levels[a] != canon[n].Levels[b] {
					d := Dyn{Source: "asset", Platform: n, Start: a}
					d.Kind = "overlap"
					d.Seg, d.NL, d.ReadSize = genSeg(r)
					add(fmt.Sprintf("c17/overlap/%s/%s-as-%s#%02d", n, a, b, k), d)
				}
			}
		}
		// the prompt family: every other host-name spelling and every alternative prompt spelling
		for _, n := range names {
			f := families[n]
			lv := keysOf(canon[n].Levels)
			others := func(a string, rot int) []string {
				var tg []string
				for _, b := range lv {
					if b != a {
						tg = append(tg, b)
					}
				}
				return rotate(tg, rot)
			}
			for hi, h := range f.Hosts[1:] {
				a := lv[(hi+k)%len(lv)]
				dyn(fmt.Sprintf("%s/host=%s", n, h), Dyn{Source: "asset", Platform: n, Host: h, Start: a, From: a, Targets: others(a, hi+k), CloseAt: lv[(hi+k+1)%len(lv)]})
			}
			for _, al := range altLevels(n) {
				for i := range f.Alt[al] {
					a := lv[(i+k)%len(lv)]
					dyn(fmt.Sprintf("%s/alt=%s.%d", n, al, i+1), Dyn{Source: "asset", Platform: n, Host: f.Hosts[(i+k)%len(f.Hosts)], AltLevel: al, AltIdx: i + 1,
						Start: a, From: a, Targets: others(a, i+k), CloseAt: al})
				}
			}
		}
		// customised levels (patterns edited in place + UpdatePrivileges / level map shared by two
		// drivers) and two drivers from one Platform object
		for i, n := range names {
			lv := keysOf(canon[n].Levels)
			for j, mode := range []string{"update", "shared"} {
				d := Dyn{Source: "asset", Platform: n, Custom: hostileHosts[(i+j+k)%len(hostileHosts)], CustomMode: mode, Start: lv[(k+j)%len(lv)],
					From: canon[n].Default, Targets: rotate(lv, k+j), CloseAt: lv[(k+1+j)%len(lv)]}
				d.Kind = "custom"
				d.Seg, d.NL, d.ReadSize = genSeg(r)
				add(fmt.Sprintf("c17/custom/%s/%s#%02d", n, mode, k), d)
			}
			modes := []string{"transport1", "transport3"}
			if k == 0 {
				modes = append(modes, "fields")
			}
			for j, mode := range modes {
				d := Dyn{Source: "asset", Platform: n, TwoMode: mode, Start: lv[(k+j+1)%len(lv)], From: canon[n].Default, Targets: rotate(lv, k+j),
					CloseAt: lv[(k+j)%len(lv)]}
				d.Kind = "two"
				d.Seg, d.NL, d.ReadSize = genSeg(r)
				add(fmt.Sprintf("c17/two-drivers/%s/%s#%02d", n, mode, k), d)
			}
		}
		// the base definition must drive its device after a variant was loaded in the same process
		dyn("cumulus_linux/after-variant-root_login", Dyn{Source: "asset", Platform: "cumulus_linux", Preload: "root_login", Start: "configuration", From: "exec",
			Targets: []string{"configuration"}, CloseAt: "configuration"})
		for _, n := range names {
			lv := keysOf(canon[n].Levels)
			dyn(n+"/after-generated-variant", Dyn{Source: "asset", Platform: n, Preload: "gen", Start: lv[(k+1)%len(lv)], From: canon[n].Default, Targets: rotate(lv, k+1),
				CloseAt: lv[k%len(lv)]})
		}
		sessions("asset", "cumulus_linux", "root_login", []string{"configuration", "exec"})
		sessions("fixture", "test-platform.yaml", "", keysOf(fixtureCanon["test-platform.yaml"]))
	}
	return cs
}

func run(c mon.Case) mon.Result {
	var k struct {
		Kind string `json:"kind"`
	}
	c.Decode(&k)
	if k.Kind == "generic" {
		var d Dyn
		c.Decode(&d)
		return RunGeneric(d)
	}
	if k.Kind == "custom" || k.Kind == "two" {
		var d Dyn
		c.Decode(&d)
		if k.Kind == "custom" {
			return RunCustom(d)
		}
		return RunTwo(d)
	}
	if k.Kind == "overlap" {
		var d Dyn
		c.Decode(&d)
		return RunOverlap(d)
	}
	if k.Kind == "dyn" {
		var d Dyn
		c.Decode(&d)
		return RunDyn(d)
	}
	var s Static
	c.Decode(&s)
	switch s.Kind {
	case "assets":
		return runAssets()
	case "cwd-shadow":
		return runCwdShadow()
	case "static":
		return runStatic(s.Platform)
	case "options":
		return runOptions(s.Platform)
	case "genvariants":
		return runGenVariants(s.Platform)
	case "loadorder":
		return runLoadOrder(s.Platform)
	case "family":
		return runFamily(s.Platform)
	case "variant", "fixture", "missing-variant":
		return runVariant(s)
	}
	return mon.Result{Verdict: mon.Inconclusive, Detail: "harness: unknown case kind " + s.Kind}
}

var _ = platform.GetPlatformNames

func init() {
	mon.Register(&mon.Property{
		ID:    "C17",
		Level: "exploration",
		Rule: "Exhaustive in the property's own dimensions: platform.GetPlatformNames() x embedded files (both ways), all levels of every definition, all ordered level pairs " +
			"(targets without escalate command excluded), all 2^8 section subsets of generated variants per platform, the shipped variant, the test-fixture definitions, " +
			"the three user options alone and together; sampled per round (quick 1, thorough 20): transport segmentation, end of line, read size, order of targets, level at Close. " +
			"Non-trivial = the definition has >= 2 levels (static: invariants over all of them; dynamic: Open from a chosen level, all pairs from one source level, Close). " +
			"Distinct = distinct descriptor hash.",
		Assumptions: []string{
			"canonical prompt table (DESIGN.md Appendix A) is the model of what each platform's device prints per level; the device model is derived from the loaded definition (modes = levels, escalate honoured only in the previous level, de-escalate only in the level itself, `Password: ` asked where escalate-auth, unknown input answered by an error line without mode change)",
			"the table also pins default level, on-open commands and on-close input of the 17 shipped definitions (a shipped definition that loses one of them is reported)",
			"levels with identical canonical prompts are one class; the device is moved between ordinary levels only through the driver (so its cached level resolves prompts that several patterns accept); levels without escalate command are entered by setting the device's mode (before Open or by a back door) and need a prompt no other class accepts",
			"generator preconditions checked by brute force with the definition's own patterns: the device's error line and every proper prefix of a canonical prompt are not accepted as a (different) prompt by the joined pattern; otherwise the session is inconclusive",
			"the relation (level A's canonical prompt, other level B accepting it) of every shipped definition is pinned (= Appendix A 'also accepted by' plus the pairs inside classes of identical prompts); any change is reported. The overlaps themselves are a limitation of the definitions, not judged: a fresh session (empty cached level) opened on a device already in such a level takes it for the default desired level (observed and recorded per pinned overlap, see fresh_session_on_overlapping_level_witnesses)",
			"load-order sequences (base-variant-base, variant-base, base-base on two hosts, variant-variant, variant-base-variant-base; by name for shipped variants, from bytes for generated ones) judge observable differences only: every result is re-compared with the independent reading after each later load, must keep its own host/transport/driver, and altering one result (levels, failure strings, steps, options, driver fields) must leave the others and fresh loads equal to the definition; a library-internal cache as such is not judged",
			"prompt family (family.go, derived once from the unchanged shipped definitions): per platform 4-7 host-name spellings (letters, digits and each punctuation character of the host class that all levels of the platform admit) and 1-5 alternative spellings per level (config sub modes, changed-config marks, context lines); every member must be accepted by its own level and the joined pattern and by no other level than the pinned overlap relation lists (static, all members x all hosts), and one full session is driven per further host name and per alternative spelling per round",
			"every session also asks, from known levels, for levels without escalate command that share their prompt with a reachable level (cumulus_linux/root_login: the empty command means 'same place'), and runs SendConfig and SendCommand twice in turn; judged by absence of errors, the driver's CurrentPriv and the device mode's class",
			"working-directory case (own worker process): cwd holding a directory / a foreign YAML file / a foreign <name>.yaml per advertised name must not change what any advertised name (and the shipped variant) loads; a name that is not embedded must still load from the file system",
			"customised-levels sessions: the definition's own level objects get an alternative appended to their patterns in place (the canonical prompt with the hostname replaced by one of 4 hostile-but-legal names), refreshed by UpdatePrivileges() on the same driver or handed to a second driver through options.WithPrivilegeLevels after a first driver used the same map; judged by the ordinary oracle (joined pattern and per-level patterns consistent, on-open/on-close seen, all pairs reached)",
			"two-drivers sessions: every option list is append(p.AsOptions(), user options) on ONE *Platform and all lists exist before any driver is built (1 or 3 user options per list; getter calls interleaved); each driver must carry its own transport / default level / failure strings / port and drive its own device; that AsOptions reflects later edits of the Platform's fields is not judged (not stated by the property)",
			"generated variants define the on-open/on-close/network-on-open/network-on-close sections either with steps or as an explicitly empty list (= defined: the base's steps must go); for the other sections only non-empty values are generated, a present-but-empty driver type / failure list / level map is outside the checked merge semantics",
			"generic base: generated definitions whose default section declares driver-type generic with own open/close steps; variants that do not state the type must stay generic, those that state generic/network get that type (all 256 section subsets, static) and a short session on the generic driver (Open with the merged on-open steps, one command, Close with the merged on-close steps)",
			"trailing blanks: per platform the device also prints each prompt with 0, 1 and 2 trailing blanks wherever the level's own pattern accepts that spelling; the joined pattern must find the prompt in it and the session must run as usual",
			"a timeout counts only if every generated byte had been delivered and the load canary is healthy",
		},
		Exhaustive:  func(string) bool { return true },
		Gen:         gen,
		Run:         run,
		Workers:     func(string) int { return 8 },
		Parallel:    func(string) int { return 4 },
		CaseTimeout: 300 * time.Second,
		Solo:        func(c mon.Case) bool { return c.ID == cwdCaseID },
		// the witnesses of the overlap observations go into the evidence (round 0 only)
		Post: func(_ string, agg *mon.Agg) {
			w := map[string]interface{}{}
			for id, r := range agg.Results {
				if strings.HasPrefix(id, "c17/overlap/") && strings.HasSuffix(id, "#00") && r.Sample != nil {
					w[id] = r.Sample
				}
			}
			if len(w) > 0 {
				agg.Extra["fresh_session_on_overlapping_level_witnesses"] = w
			}
		},
	})
}
