package c17

import (
	"fmt"
	"reflect"
	"regexp"
	"strings"
	"time"

	"github.com/scrapli/scrapligo/driver/network"
	"github.com/scrapli/scrapligo/driver/options"
	"github.com/scrapli/scrapligo/util"

	"verif/internal/devsim"
	"verif/internal/mon"
)

// customise returns the reference reading and prompt table of a definition whose level patterns
// were widened (an alternative is appended) to admit hostname host in place of the table's.
func customise(name string, eff *refPlatform, prompts map[string]string, host string) (*refPlatform, map[string]string) {
	tok := hostToken[name]
	lead := ""
	if tok != "" && strings.ContainsAny(tok[:1], ":@") {
		lead, tok = tok[:1], tok[1:]
	}
	out := *eff
	out.Levels = map[string]refLevel{}
	np := map[string]string{}
	for k, l := range eff.Levels {
		p := prompts[k]
		n := p
		if tok != "" {
			n = strings.ReplaceAll(p, lead+tok, lead+host)
		}
		np[k] = n
		if n != p {
			l.Pattern = l.Pattern + `|(?m)^` + regexp.QuoteMeta(strings.TrimRight(n, " ")) + `\s*$`
		}
		out.Levels[k] = l
	}
	return &out, np
}

func mergeObs(dst map[string]int64, src map[string]int64) {
	for k, v := range src {
		dst[k] += v
	}
}

func newNetDriver(host string, opts ...util.Option) (d *network.Driver, err error, pnc interface{}) {
	defer func() {
		if x := recover(); x != nil {
			pnc = x
		}
	}()
	d, err = network.NewDriver(host, opts...)
	return
}

// RunCustom: the definition's own level objects are edited in place (patterns widened for a
// hostile hostname) and refreshed the documented way; the driver must then drive a device that
// uses that hostname exactly as it drives the canonical one.
//   - mode "update": edit the loaded driver's levels, UpdatePrivileges(), drive.
//   - mode "shared": one level map (the definition's) given to two drivers in turn through
//     options.WithPrivilegeLevels; the first drives the canonical device, then the patterns are
//     edited in place, then the second driver is built and drives the renamed device.
func RunCustom(s Dyn) mon.Result {
	name := s.Platform
	obs := map[string]int64{}
	var tags []string
	base := []util.Option{options.WithAuthSecondary(secret), options.WithTimeoutOps(30 * time.Second)}
	prompts := canon[name].Levels

	if s.CustomMode == "update" {
		label := name + "/customised-levels"
		st := &devStats{}
		dev := &devsim.CLI{}
		conn := devsim.NewConn(dev, devsim.Config{Seg: s.Seg, KeepData: true})
		defer conn.Abandon()
		ld, v := loadByName(name, conn, base...)
		if v != nil {
			return *v
		}
		eff2, prompts2 := customise(name, ld.eff, prompts, s.Custom)
		if v := staticInvariants(label, eff2, prompts2); v != nil {
			return mon.Result{Verdict: mon.Inconclusive, Detail: "harness: the customised definition is not valid: " + v.Detail}
		}
		for k, l := range ld.d.PrivilegeLevels {
			l.Pattern = eff2.Levels[k].Pattern // in place: same level objects
		}
		ld.d.UpdatePrivileges()
		if v := checkDriver(label, eff2, ld.d, prompts2); v != nil {
			return *v
		}
		r := drive(s, label, eff2, eff2.Default, prompts2, ld.d, conn, dev, st)
		if r.Verdict != mon.Held {
			return r
		}
		mergeObs(obs, r.Obs)
		obs["customised_level_sessions"]++
		r.Obs = obs
		r.Tags = append(r.Tags, "custom-host="+s.Custom, "custom=update")
		return r
	}

	// shared level map
	label := name + "/shared-levels"
	conn0 := devsim.NewConn(&devsim.CLI{}, devsim.Config{})
	defer conn0.Abandon()
	ld0, v := loadByName(name, conn0)
	if v != nil {
		return *v
	}
	levels := ld0.p.PrivilegeLevels // the definition's own level objects, already used by one driver
	var last mon.Result
	for i, phase := range []string{"first", "second"} {
		eff, pr := ld0.eff, prompts
		if phase == "second" {
			eff, pr = customise(name, ld0.eff, prompts, s.Custom)
			if v := staticInvariants(label, eff, pr); v != nil {
				return mon.Result{Verdict: mon.Inconclusive, Detail: "harness: the customised definition is not valid: " + v.Detail}
			}
			for k, l := range levels {
				l.Pattern = eff.Levels[k].Pattern
			}
		}
		st := &devStats{}
		dev := &devsim.CLI{}
		sg := s.Seg
		sg.Seed += int64(i)
		conn := devsim.NewConn(dev, devsim.Config{Seg: sg, KeepData: true})
		defer conn.Abandon()
		opts := append([]util.Option{options.WithCustomTransport(conn), options.WithPrivilegeLevels(levels)}, base...)
		p, err, pnc := newPlatformH(name, "", "host-"+phase, opts...)
		if pnc != nil {
			return viol("c17/load-panic:"+label+":"+phase, "constructor panicked: %v", pnc)
		}
		if err != nil {
			return viol("c17/load-failed:"+label+":"+phase, "constructor failed: %v", err)
		}
		d, err := p.GetNetworkDriver()
		if err != nil || d == nil {
			return viol("c17/driver-getter:"+label, "GetNetworkDriver: %v", err)
		}
		if reflect.ValueOf(d.PrivilegeLevels).Pointer() != reflect.ValueOf(levels).Pointer() {
			return viol("c17/user-option-lost:"+label+":privilege-levels", "%s driver: options.WithPrivilegeLevels given by the user is not the driver's level map", phase)
		}
		if v := checkDriver(label+":"+phase, eff, d, pr); v != nil {
			return *v
		}
		r := drive(s, label+":"+phase, eff, eff.Default, pr, d, conn, dev, st)
		if r.Verdict != mon.Held {
			return r
		}
		mergeObs(obs, r.Obs)
		tags = append(tags, r.Tags...)
		last = r
	}
	obs["shared_level_map_sessions"]++
	last.Obs = obs
	last.Tags = append(tags, "custom-host="+s.Custom, "custom=shared")
	return last
}

// RunTwo: two (or more) drivers from ONE *Platform object. Every option list is made as
// append(p.AsOptions(), userOptions...) before any driver is built; each driver must carry its own
// user options and drive its own device. The platform's own driver, fetched through interleaved
// getter calls, must be unaffected.
func RunTwo(s Dyn) mon.Result {
	name := s.Platform
	label := name + "/two-drivers"
	prompts := canon[name].Levels
	obs := map[string]int64{}
	mk := func(i int) (*devsim.Conn, *devsim.CLI) {
		dev := &devsim.CLI{}
		sg := s.Seg
		sg.Seed += int64(i)
		return devsim.NewConn(dev, devsim.Config{Seg: sg, KeepData: true}), dev
	}
	conn0, dev0 := mk(0)
	defer conn0.Abandon()
	ld, v := loadByName(name, conn0, options.WithAuthSecondary(secret), options.WithTimeoutOps(30*time.Second))
	if v != nil {
		return *v
	}
	p, eff := ld.p, ld.eff
	d0, _ := p.GetNetworkDriver()
	_, _ = p.GetGenericDriver()

	if s.TwoMode == "fields" {
		other := eff.Default
		for _, k := range sortedLevels(eff.Levels) {
			if k != eff.Default {
				other = k
				break
			}
		}
		type want struct {
			what string
			opt  util.Option
			def  string
			fail []string
			port int
		}
		ws := []want{
			{"default-desired-priv", options.WithDefaultDesiredPriv(other), other, eff.Failed, 22},
			{"default-desired-priv", options.WithDefaultDesiredPriv(eff.Default), eff.Default, eff.Failed, 22},
			{"failed-when-contains", options.WithFailedWhenContains([]string{"A-FAILURE"}), eff.Default, []string{"A-FAILURE"}, 22},
			{"failed-when-contains", options.WithFailedWhenContains([]string{"B-FAILURE"}), eff.Default, []string{"B-FAILURE"}, 22},
			{"port", options.WithPort(1001), eff.Default, eff.Failed, 1001},
			{"port", options.WithPort(1002), eff.Default, eff.Failed, 1002},
		}
		lists := make([][]util.Option, len(ws))
		for i, w := range ws {
			lists[i] = append(p.AsOptions(), w.opt) // all lists first
			if i%2 == 1 {
				_, _ = p.GetNetworkDriver()
			}
		}
		for i, w := range ws {
			d, err, pnc := newNetDriver(fmt.Sprintf("host-%d", i), lists[i]...)
			if pnc != nil || err != nil || d == nil {
				return viol("c17/load-failed:"+label, "network.NewDriver from AsOptions()+%s failed: %v %v", w.what, err, pnc)
			}
			if d.DefaultDesiredPriv != w.def {
				return viol("c17/user-option-lost:"+label+":default-desired-priv", "driver #%d (built from append(p.AsOptions(), %s option)) has DefaultDesiredPriv %q, its own options say %q", i+1, w.what, d.DefaultDesiredPriv, w.def)
			}
			if !sameStrings(d.FailedWhenContains, w.fail) {
				return viol("c17/user-option-lost:"+label+":failed-when-contains", "driver #%d (built from append(p.AsOptions(), %s option)) has FailedWhenContains %q, its own options say %q", i+1, w.what, d.FailedWhenContains, w.fail)
			}
			if d.Transport.Args.Port != w.port {
				return viol("c17/user-option-lost:"+label+":port", "driver #%d (built from append(p.AsOptions(), %s option)) has port %d, its own options say %d", i+1, w.what, d.Transport.Args.Port, w.port)
			}
			if !reflect.DeepEqual(levelKeys(d.PrivilegeLevels), sortedLevels(eff.Levels)) {
				return viol("c17/driver-differs:"+label+":levels", "driver #%d levels %v", i+1, levelKeys(d.PrivilegeLevels))
			}
			obs["two_option_lists_field_checks"]++
		}
		return mon.Result{Verdict: mon.Held, NonTrivial: true, Obs: obs, Tags: []string{"two-drivers=fields"},
			Sample: map[string]interface{}{"platform": name, "option_lists_from_one_platform": len(ws)}}
	}

	// transport variants: each driver gets its own device
	connA, devA := mk(1)
	connB, devB := mk(2)
	defer connA.Abandon()
	defer connB.Abandon()
	extra := func() []util.Option { return nil }
	if s.TwoMode == "transport3" {
		extra = func() []util.Option {
			return []util.Option{options.WithAuthSecondary(secret), options.WithTimeoutOps(30 * time.Second)}
		}
	}
	optsA := append(p.AsOptions(), append([]util.Option{options.WithCustomTransport(connA)}, extra()...)...)
	d0b, _ := p.GetNetworkDriver() // interleaved getter call
	optsB := append(p.AsOptions(), append([]util.Option{options.WithCustomTransport(connB)}, extra()...)...)
	_, _ = p.GetGenericDriver()
	dA, errA, pncA := newNetDriver("host-a", optsA...)
	dB, errB, pncB := newNetDriver("host-b", optsB...)
	if errA != nil || errB != nil || pncA != nil || pncB != nil || dA == nil || dB == nil {
		return viol("c17/load-failed:"+label, "network.NewDriver from append(p.AsOptions(), transport): %v %v %v %v", errA, pncA, errB, pncB)
	}
	for _, x := range []struct {
		n    string
		d    *network.Driver
		conn *devsim.Conn
	}{{"A", dA, connA}, {"B", dB, connB}, {"platform's own", d0, conn0}, {"platform's own (second getter call)", d0b, conn0}} {
		if x.d == nil {
			return viol("c17/driver-getter:"+label, "%s driver is nil", x.n)
		}
		if x.d.Transport == nil || x.d.Transport.Impl != interface{}(x.conn) {
			return viol("c17/user-option-lost:"+label+":transport", "driver %s does not use the transport its own option list gave it (lists were made as append(p.AsOptions(), WithCustomTransport(dev)) on one *Platform, both before either driver was built)", x.n)
		}
		if v := checkDriver(label+":"+x.n, eff, x.d, prompts); v != nil {
			return *v
		}
	}
	dA.AuthSecondary, dB.AuthSecondary = secret, secret
	dA.Channel.TimeoutOps, dB.Channel.TimeoutOps = 30*time.Second, 30*time.Second
	var tags []string
	var last mon.Result
	for i, x := range []struct {
		n     string
		d     *network.Driver
		conn  *devsim.Conn
		dev   *devsim.CLI
		start string
	}{{"A", dA, connA, devA, s.Start}, {"B", dB, connB, devB, eff.Default}, {"own", d0b, conn0, dev0, s.From}} {
		sx := s
		sx.Start = x.start
		if i == 1 {
			sx.Targets = rotate(append([]string{}, s.Targets...), 1)
		}
		r := drive(sx, label+":"+x.n, eff, eff.Default, prompts, x.d, x.conn, x.dev, &devStats{})
		if r.Verdict != mon.Held {
			return r
		}
		mergeObs(obs, r.Obs)
		tags = append(tags, r.Tags...)
		last = r
	}
	obs["two_drivers_one_platform_sessions"]++
	last.Obs = obs
	last.Tags = append(tags, "two-drivers="+s.TwoMode)
	return last
}
