package c17

import (
	"fmt"
	"sort"
	"strings"

	"gopkg.in/yaml.v3"
)

// Independent reading of a platform definition: yaml.v3 into untyped maps, then into the
// reference structures below. Nothing here uses the library's types.

type refLevel struct {
	Name        string   `json:"name"`
	Pattern     string   `json:"pattern"`
	NotContains []string `json:"not_contains,omitempty"`
	Prev        string   `json:"prev"`
	Deesc       string   `json:"deesc"`
	Esc         string   `json:"esc"`
	Auth        bool     `json:"auth"`
	EscPrompt   string   `json:"esc_prompt"`
}

type refOption struct {
	Option string
	Value  interface{}
}

type step map[string]interface{}

// the eight sections a variant may replace, in a fixed order (bit i of a subset mask)
var sections = []string{
	"driver-type", "failed-when-contains", "on-open", "on-close", "privilege-levels",
	"default-desired-privilege-level", "network-on-open", "network-on-close",
}

type refPlatform struct {
	Present    map[string]bool
	DriverType string
	Failed     []string
	OnOpen     []step
	OnClose    []step
	Levels     map[string]refLevel
	Default    string
	NetOnOpen  []step
	NetOnClose []step
	Options    []refOption
	problems   []string // typing problems met while reading
}

type refDef struct {
	PlatformType string
	Default      *refPlatform
	Variants     map[string]*refPlatform
}

func str(v interface{}) string {
	switch t := v.(type) {
	case nil:
		return ""
	case string:
		return t
	default:
		return fmt.Sprint(t)
	}
}

func isEmpty(v interface{}) bool {
	switch t := v.(type) {
	case nil:
		return true
	case string:
		return t == ""
	case []interface{}:
		return len(t) == 0
	case map[string]interface{}:
		return len(t) == 0
	}
	return false
}

func (p *refPlatform) strList(sec string, v interface{}) []string {
	if v == nil {
		return nil
	}
	l, ok := v.([]interface{})
	if !ok {
		p.problems = append(p.problems, fmt.Sprintf("%s: not a list (%T)", sec, v))
		return nil
	}
	var out []string
	for _, e := range l {
		if _, ok := e.(string); !ok {
			p.problems = append(p.problems, fmt.Sprintf("%s: element %v is %T, not a string", sec, e, e))
		}
		out = append(out, str(e))
	}
	return out
}

func (p *refPlatform) steps(sec string, v interface{}) []step {
	if v == nil {
		return nil
	}
	l, ok := v.([]interface{})
	if !ok {
		p.problems = append(p.problems, fmt.Sprintf("%s: not a list (%T)", sec, v))
		return nil
	}
	out := []step{}
	for i, e := range l {
		m, ok := e.(map[string]interface{})
		if !ok {
			p.problems = append(p.problems, fmt.Sprintf("%s[%d]: not a mapping (%T)", sec, i, e))
			continue
		}
		out = append(out, step(m))
	}
	return out
}

func parsePlatform(m map[string]interface{}) *refPlatform {
	p := &refPlatform{Present: map[string]bool{}, Levels: map[string]refLevel{}}
	for _, s := range sections {
		v, ok := m[s]
		if !ok {
			continue
		}
		// a step list that is defined as an empty list IS defined (the flavour needs none of the
		// base's steps); only an absent / null section inherits. For the other sections an empty
		// value is outside the checked merge semantics (never generated).
		if l, isList := v.([]interface{}); isList && len(l) == 0 && strings.Contains(s, "on-") {
			p.Present[s] = true
			continue
		}
		if !isEmpty(v) {
			p.Present[s] = true
		}
	}
	p.DriverType = str(m["driver-type"])
	p.Failed = p.strList("failed-when-contains", m["failed-when-contains"])
	p.OnOpen = p.steps("on-open", m["on-open"])
	p.OnClose = p.steps("on-close", m["on-close"])
	p.NetOnOpen = p.steps("network-on-open", m["network-on-open"])
	p.NetOnClose = p.steps("network-on-close", m["network-on-close"])
	p.Default = str(m["default-desired-privilege-level"])
	if pl, ok := m["privilege-levels"]; ok && pl != nil {
		lm, ok := pl.(map[string]interface{})
		if !ok {
			p.problems = append(p.problems, fmt.Sprintf("privilege-levels: not a mapping (%T)", pl))
		}
		for k, v := range lm {
			e, ok := v.(map[string]interface{})
			if !ok {
				p.problems = append(p.problems, fmt.Sprintf("privilege-levels/%s: not a mapping (%T)", k, v))
				continue
			}
			l := refLevel{
				Name: str(e["name"]), Pattern: str(e["pattern"]), Prev: str(e["previous-priv"]),
				Deesc: str(e["deescalate"]), Esc: str(e["escalate"]), EscPrompt: str(e["escalate-prompt"]),
			}
			l.NotContains = p.strList("privilege-levels/"+k+"/not-contains", e["not-contains"])
			switch b := e["escalate-auth"].(type) {
			case nil:
			case bool:
				l.Auth = b
			default:
				p.problems = append(p.problems, fmt.Sprintf("privilege-levels/%s/escalate-auth: %T, not a bool", k, b))
			}
			p.Levels[k] = l
		}
	}
	if ov, ok := m["options"]; ok && ov != nil {
		ol, ok := ov.([]interface{})
		if !ok {
			p.problems = append(p.problems, fmt.Sprintf("options: not a list (%T)", ov))
		}
		for _, e := range ol {
			if em, ok := e.(map[string]interface{}); ok {
				p.Options = append(p.Options, refOption{str(em["option"]), em["value"]})
			}
		}
	}
	return p
}

func parseDef(b []byte) (*refDef, map[string]interface{}, error) {
	var raw map[string]interface{}
	if err := yaml.Unmarshal(b, &raw); err != nil {
		return nil, nil, err
	}
	d := &refDef{PlatformType: str(raw["platform-type"]), Variants: map[string]*refPlatform{}}
	if dm, ok := raw["default"].(map[string]interface{}); ok {
		d.Default = parsePlatform(dm)
	} else {
		return nil, raw, fmt.Errorf("no 'default' mapping in definition")
	}
	if vm, ok := raw["variants"].(map[string]interface{}); ok {
		for k, v := range vm {
			if m, ok := v.(map[string]interface{}); ok {
				d.Variants[k] = parsePlatform(m)
			}
		}
	}
	return d, raw, nil
}

// mergeRef is the reference merge: the default with exactly the sections the variant defines
// replaced (options are not among the mergeable sections and stay the default's).
func mergeRef(def, v *refPlatform) *refPlatform {
	out := *def
	out.Present = map[string]bool{}
	for k, b := range def.Present {
		out.Present[k] = b
	}
	for _, s := range sections {
		if !v.Present[s] {
			continue
		}
		out.Present[s] = true
		switch s {
		case "driver-type":
			out.DriverType = v.DriverType
		case "failed-when-contains":
			out.Failed = v.Failed
		case "on-open":
			out.OnOpen = v.OnOpen
		case "on-close":
			out.OnClose = v.OnClose
		case "privilege-levels":
			out.Levels = v.Levels
		case "default-desired-privilege-level":
			out.Default = v.Default
		case "network-on-open":
			out.NetOnOpen = v.NetOnOpen
		case "network-on-close":
			out.NetOnClose = v.NetOnClose
		}
	}
	return &out
}

func sortedLevels(m map[string]refLevel) []string {
	var l []string
	for k := range m {
		l = append(l, k)
	}
	sort.Strings(l)
	return l
}

// ---- on-open / on-close well-formedness ---------------------------------------------------------

var genericOps = map[string]bool{"channel.write": true, "channel.return": true}
var networkOps = map[string]bool{"channel.write": true, "channel.return": true, "acquire-priv": true, "driver.send-command": true}

func checkSteps(sec string, st []step, network bool, levels map[string]refLevel) []string {
	var bad []string
	allowed := genericOps
	if network {
		allowed = networkOps
	}
	for i, s := range st {
		opv, ok := s["operation"]
		op, isStr := opv.(string)
		if !ok || !isStr {
			bad = append(bad, fmt.Sprintf("%s[%d]: operation missing or not a string (%v)", sec, i, opv))
			continue
		}
		if !allowed[op] {
			bad = append(bad, fmt.Sprintf("%s[%d]: unknown operation %q", sec, i, op))
			continue
		}
		args := map[string]string{} // allowed argument -> type
		var required []string
		switch op {
		case "channel.write":
			args["input"], args["redacted"] = "string", "bool"
			required = []string{"input"}
		case "driver.send-command":
			args["command"] = "string"
			required = []string{"command"}
		case "acquire-priv":
			args["target"] = "string"
		}
		for k, v := range s {
			if k == "operation" {
				continue
			}
			ty, ok := args[k]
			if !ok {
				bad = append(bad, fmt.Sprintf("%s[%d] (%s): unknown argument %q", sec, i, op, k))
				continue
			}
			switch ty {
			case "string":
				if _, ok := v.(string); !ok {
					bad = append(bad, fmt.Sprintf("%s[%d] (%s): argument %q is %T, not a string", sec, i, op, k, v))
				}
			case "bool":
				if _, ok := v.(bool); !ok {
					bad = append(bad, fmt.Sprintf("%s[%d] (%s): argument %q is %T, not a bool", sec, i, op, k, v))
				}
			}
		}
		for _, r := range required {
			if v, ok := s[r].(string); !ok || v == "" {
				bad = append(bad, fmt.Sprintf("%s[%d] (%s): required argument %q missing or empty", sec, i, op, r))
			}
		}
		if op == "acquire-priv" {
			if t, ok := s["target"].(string); ok {
				if _, ok := levels[t]; !ok {
					bad = append(bad, fmt.Sprintf("%s[%d] (acquire-priv): target %q is not a level", sec, i, t))
				}
			}
		}
	}
	return bad
}

// ---- level tree --------------------------------------------------------------------------------

// checkTree returns the problems of a level map: key == name, every previous-priv exists, exactly
// one root, acyclic, connected.
func checkTree(levels map[string]refLevel) []string {
	var bad []string
	if len(levels) == 0 {
		return []string{"no privilege levels"}
	}
	var roots []string
	for _, k := range sortedLevels(levels) {
		l := levels[k]
		if l.Name != k {
			bad = append(bad, fmt.Sprintf("key-name: level key %q has name %q", k, l.Name))
		}
		if l.Prev == "" {
			roots = append(roots, k)
			continue
		}
		if _, ok := levels[l.Prev]; !ok {
			bad = append(bad, fmt.Sprintf("dangling-previous-priv: level %q has previous-priv %q which is not a level", k, l.Prev))
		}
	}
	if len(roots) != 1 {
		bad = append(bad, fmt.Sprintf("roots: %d levels without previous-priv %v, want exactly one", len(roots), roots))
	}
	// every level reaches a root by following previous-priv without repeating (acyclic + connected,
	// given a single root)
	for _, k := range sortedLevels(levels) {
		seen := map[string]bool{}
		cur := k
		for {
			if seen[cur] {
				bad = append(bad, fmt.Sprintf("cycle: following previous-priv from %q revisits %q", k, cur))
				break
			}
			seen[cur] = true
			l, ok := levels[cur]
			if !ok || l.Prev == "" {
				break
			}
			cur = l.Prev
		}
	}
	return bad
}

// ---- reference interpreter of what a device must see -------------------------------------------

// expLine is one non-empty input line the device must receive, with the mode it must be in.
type expLine struct {
	Mode  string `json:"mode"`
	State string `json:"state"` // cmd | hidden
	Line  string `json:"line"`
}

// refSim predicts the lines a definition-conforming device receives from a driver that executes
// on-open/on-close steps and privilege changes as documented.
type refSim struct {
	levels  map[string]refLevel
	mode    string
	pending string
	asking  string // level being entered, waiting for the secret
	out     []expLine
	// class maps a level to its prompt class: a driver cannot (and need not) tell levels with
	// indistinguishable prompts apart, so being in the target's class is being at the target
	class func(string) string
	// belief is the level the driver takes the device to be in (its cached level); "" = none
	belief string
}

func (s *refSim) write(t string) { s.pending += t }

func (s *refSim) ret() {
	line := s.pending
	s.pending = ""
	if s.asking != "" {
		s.out = append(s.out, expLine{s.mode, "hidden", line})
		if line == secret {
			s.mode = s.asking
		}
		s.asking = ""
		return
	}
	if line == "" {
		return
	}
	s.out = append(s.out, expLine{s.mode, "cmd", line})
	for _, k := range sortedLevels(s.levels) {
		c := s.levels[k]
		if c.Prev == s.mode && c.Esc != "" && c.Esc == line {
			if c.Auth {
				s.asking = k
			} else {
				s.mode = k
			}
			return
		}
	}
	if cur := s.levels[s.mode]; cur.Deesc != "" && cur.Deesc == line && cur.Prev != "" {
		s.mode = cur.Prev
	}
}

func (s *refSim) ancestors(k string) []string { // k, parent, ..., root
	var l []string
	for i := 0; k != "" && i <= len(s.levels); i++ {
		l = append(l, k)
		k = s.levels[k].Prev
	}
	return l
}

// acquire moves along the unique tree path from where the driver takes itself to be to target.
// The driver resolves a prompt that several levels accept by its cached level (belief), else by
// the requested target; levels of one class leave it the same way (generator precondition), so
// the device's actual mode and the driver's idea of it lead to the same place.
func (s *refSim) acquire(target string) {
	s.ret() // the prompt fetch (an empty line; flushes anything pending)
	cur := s.mode
	if s.class != nil {
		switch {
		case s.belief != "" && s.class(s.belief) == s.class(s.mode):
			cur = s.belief
		case s.class(target) == s.class(s.mode):
			cur = target
		}
	}
	defer func() { s.belief = target }()
	if cur == target {
		return
	}
	tgtAnc := s.ancestors(target)
	idx := func(k string) int {
		for i, a := range tgtAnc {
			if a == k {
				return i
			}
		}
		return -1
	}
	for guard := 0; idx(cur) < 0 && guard <= len(s.levels); guard++ {
		s.write(s.levels[cur].Deesc)
		s.ret()
		cur = s.levels[cur].Prev
	}
	for i := idx(cur) - 1; i >= 0; i-- {
		n := s.levels[tgtAnc[i]]
		s.write(n.Esc)
		s.ret()
		if n.Auth {
			s.write(secret)
			s.ret()
		}
	}
}

func (s *refSim) runSteps(st []step, network bool, def string) {
	for _, e := range st {
		switch str(e["operation"]) {
		case "channel.write":
			s.write(str(e["input"]))
		case "channel.return":
			s.ret()
		case "acquire-priv":
			if network {
				t := def
				if x, ok := e["target"].(string); ok {
					t = x
				}
				s.acquire(t)
			}
		case "driver.send-command":
			if network {
				s.acquire(def)
				s.write(str(e["command"]))
				s.ret()
			}
		}
	}
}

func fmtLines(l []expLine) string {
	var b strings.Builder
	for i, e := range l {
		if i > 0 {
			b.WriteString(" | ")
		}
		fmt.Fprintf(&b, "%s/%s:%q", e.Mode, e.State, e.Line)
	}
	return b.String()
}
