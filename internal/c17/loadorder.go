package c17

import (
	"fmt"
	"sort"
	"strings"

	"github.com/scrapli/scrapligo/driver/options"
	"github.com/scrapli/scrapligo/platform"

	"verif/internal/devsim"
	"verif/internal/mon"
)

// In-process load-order sequences: the library may cache definitions, but what it hands out must
// not be shared between results nor altered by later loads. Only observable differences are judged:
// every loaded object is re-compared with the independent reference after every later load, each
// result must keep its own host/transport/driver, and altering one result must leave the others
// and a fresh load untouched.

type ldObj struct {
	p       *platform.Platform
	eff     *refPlatform
	host    string
	conn    *devsim.Conn
	variant string
	step    int
}

// cmpObj compares one loaded object with its reference; returns ("", "") when equal.
func cmpObj(o *ldObj) (what, detail string) {
	conv := func(v *mon.Result) (string, string) {
		k := strings.TrimPrefix(v.Key, "c17/")
		k = strings.Replace(k, ":X", "", 1)
		k = strings.Replace(k, "X/", "", 1)
		return k, v.Detail
	}
	if v := compareLoaded("X", o.eff, o.p, true); v != nil {
		return conv(v)
	}
	d, v := checkGetter("X", o.eff, o.p)
	if v != nil {
		return conv(v)
	}
	if d != nil {
		if v := checkDriver("X", o.eff, d, nil); v != nil {
			return conv(v)
		}
		if d.Transport == nil || d.Transport.Args == nil || d.Transport.Args.Host != o.host {
			h := "<nil>"
			if d.Transport != nil && d.Transport.Args != nil {
				h = d.Transport.Args.Host
			}
			return "driver-host", fmt.Sprintf("the platform loaded for host %q now hands out a driver for host %q", o.host, h)
		}
		if d.Transport.Impl != interface{}(o.conn) {
			return "driver-transport", fmt.Sprintf("the platform loaded for host %q hands out a driver that does not use the transport given to that load", o.host)
		}
	} else if gd, _ := o.p.GetGenericDriver(); gd != nil {
		if gd.Transport == nil || gd.Transport.Args == nil || gd.Transport.Args.Host != o.host {
			return "driver-host", fmt.Sprintf("the platform loaded for host %q hands out a generic driver for another host", o.host)
		}
	}
	return "", ""
}

// mutate alters everything reachable from one result that a caller may legitimately alter.
func mutate(o *ldObj) {
	p := o.p
	for _, k := range levelKeys(p.PrivilegeLevels) {
		if l := p.PrivilegeLevels[k]; l != nil {
			l.Pattern = "MUTATED-BY-CALLER"
			l.Escalate = "mutated"
			l.NotContains = append(l.NotContains, "mutated")
		}
	}
	if ks := levelKeys(p.PrivilegeLevels); len(ks) > 0 {
		delete(p.PrivilegeLevels, ks[len(ks)-1])
	}
	for i := range p.FailedWhenContains {
		p.FailedWhenContains[i] = "MUTATED"
	}
	p.FailedWhenContains = append(p.FailedWhenContains, "appended by caller")
	p.DefaultDesiredPrivilegeLevel = "mutated"
	for _, st := range [][]map[string]interface{}{p.OnOpen, p.OnClose, p.NetworkOnOpen, p.NetworkOnClose} {
		for _, e := range st {
			e["operation"] = "mutated"
			e["extra"] = true
		}
	}
	for _, od := range p.Options {
		if od != nil {
			od.Option, od.Value = "mutated", "mutated"
		}
	}
	if d, _ := p.GetNetworkDriver(); d != nil {
		for _, k := range levelKeys(d.PrivilegeLevels) {
			delete(d.PrivilegeLevels, k)
		}
		d.DefaultDesiredPriv = "mutated"
		for i := range d.FailedWhenContains {
			d.FailedWhenContains[i] = "MUTATED"
		}
		d.FailedWhenContains = append(d.FailedWhenContains, "appended by caller")
		d.OnOpen, d.OnClose = nil, nil
		d.Driver.OnOpen, d.Driver.OnClose = nil, nil
	}
	if gd, _ := p.GetGenericDriver(); gd != nil {
		gd.FailedWhenContains = append(gd.FailedWhenContains, "appended by caller")
		gd.OnOpen, gd.OnClose = nil, nil
	}
}

var loadSequences = []struct {
	name  string
	steps []bool // true = variant
}{
	{"base-variant-base", []bool{false, true, false}},
	{"variant-base", []bool{true, false}},
	{"base-base", []bool{false, false}},
	{"variant-variant", []bool{true, true}},
	{"variant-base-variant-base", []bool{true, false, true, false}},
}

func runLoadOrder(name string) mon.Result {
	ab, v := assetBytes(name)
	if v != nil {
		return *v
	}
	refA, _, err := parseDef(ab)
	if err != nil {
		return viol("c17/definition-malformed:"+name, "%v", err)
	}
	type source struct {
		tag     string
		f       interface{}
		ref     *refDef
		variant string // "" = this source has no variant (base-base only)
	}
	var sources []source
	var vs []string
	for k := range refA.Variants {
		vs = append(vs, k)
	}
	sort.Strings(vs)
	for _, k := range vs {
		sources = append(sources, source{"by name, shipped variant " + k, name, refA, k})
	}
	if len(vs) == 0 {
		sources = append(sources, source{"by name", name, refA, ""})
	}
	for gi, mask := range []int{allButDriverType, 0xFF, 1 << 4, allButDriverType} {
		style := ""
		if gi == 3 {
			style = "renamed"
		}
		gb, err := genVariantDef(ab, mask, style)
		if err != nil {
			return mon.Result{Verdict: mon.Inconclusive, Detail: "harness: " + err.Error()}
		}
		gref, _, err := parseDef(gb)
		if err != nil {
			return mon.Result{Verdict: mon.Inconclusive, Detail: "harness: generated definition does not parse: " + err.Error()}
		}
		sources = append(sources, source{fmt.Sprintf("from bytes, generated variant (level names %q) defining %v", style, maskSections(mask)), gb, gref, "gen"})
	}
	obs := map[string]int64{}
	var conns []*devsim.Conn
	defer func() {
		for _, c := range conns {
			c.Abandon()
		}
	}()
	hostN := 0
	load := func(src source, variant string, step int) (*ldObj, *mon.Result) {
		hostN++
		o := &ldObj{host: fmt.Sprintf("host-%d.example", hostN), conn: devsim.NewConn(&devsim.CLI{}, devsim.Config{}), variant: variant, step: step}
		conns = append(conns, o.conn)
		o.eff = src.ref.Default
		if variant != "" {
			o.eff = mergeRef(src.ref.Default, src.ref.Variants[variant])
		}
		p, err, pnc := newPlatformH(src.f, variant, o.host, options.WithCustomTransport(o.conn))
		if pnc != nil {
			r := viol("c17/load-panic:"+name, "%s, variant %q: constructor panicked: %v", src.tag, variant, pnc)
			return nil, &r
		}
		if err != nil || p == nil {
			r := viol("c17/load-failed:"+name, "%s, variant %q: constructor failed: %v", src.tag, variant, err)
			return nil, &r
		}
		o.p = p
		obs["loads_in_sequences"]++
		return o, nil
	}
	kind := func(o *ldObj) string {
		if o.variant != "" {
			return "variant " + o.variant
		}
		return "base"
	}
	for _, src := range sources {
		for _, seq := range loadSequences {
			if src.variant == "" && seq.name != "base-base" {
				continue
			}
			var objs []*ldObj
			for i, isVar := range seq.steps {
				vn := ""
				if isVar {
					vn = src.variant
				}
				o, r := load(src, vn, i)
				if r != nil {
					return *r
				}
				objs = append(objs, o)
				// every object loaded so far must (still) equal its reference
				for _, q := range objs {
					if what, det := cmpObj(q); what == "driver-host" || what == "driver-transport" {
						// contents equal, but the result is not this load's own any more
						return viol("c17/shared-object:"+name, "%s; sequence %s: after load #%d (%s): %s", src.tag, seq.name, i+1, kind(o), det)
					} else if what != "" {
						return viol(fmt.Sprintf("c17/load-order:%s:%s:%s", name, seq.name, what),
							"%s; sequence %s: after load #%d (%s), the object returned by load #%d (%s, host %s) differs from the independent reading of the definition: %s",
							src.tag, seq.name, i+1, kind(o), q.step+1, kind(q), q.host, det)
					}
					obs["objects_compared_after_later_loads"]++
				}
				// distinct results: no two loads may hand out the same platform or driver
				for _, q := range objs[:len(objs)-1] {
					if q.p == o.p {
						return viol("c17/shared-object:"+name, "%s; sequence %s: loads #%d (%s, host %s) and #%d (%s, host %s) returned the same *Platform",
							src.tag, seq.name, q.step+1, kind(q), q.host, i+1, kind(o), o.host)
					}
					dq, _ := q.p.GetNetworkDriver()
					do, _ := o.p.GetNetworkDriver()
					if dq != nil && dq == do {
						return viol("c17/shared-object:"+name, "%s; sequence %s: loads #%d and #%d hand out the same network driver", src.tag, seq.name, q.step+1, i+1)
					}
				}
			}
			// independence: alter the first result, the others and fresh loads must not notice
			mutate(objs[0])
			fresh := []*ldObj{}
			for _, vn := range []string{"", src.variant} {
				if vn == "" && len(fresh) == 1 {
					continue
				}
				o, r := load(src, vn, len(objs)+len(fresh))
				if r != nil {
					return *r
				}
				fresh = append(fresh, o)
			}
			for _, q := range append(append([]*ldObj{}, objs[1:]...), fresh...) {
				if what, det := cmpObj(q); what != "" {
					return viol("c17/shared-object:"+name,
						"%s; sequence %s: after the caller altered the result of load #1 (%s), the result of load #%d (%s) differs from the definition (%s): %s",
						src.tag, seq.name, kind(objs[0]), q.step+1, kind(q), what, det)
				}
				obs["objects_compared_after_mutation_of_another"]++
			}
			obs["load_order_sequences"]++
		}
	}
	return mon.Result{Verdict: mon.Held, NonTrivial: true, Obs: obs, Tags: []string{"loadorder=" + name},
		Sample: map[string]interface{}{"platform": name, "sources": len(sources), "shipped_variants": vs,
			"sequences": []string{"base-variant-base", "variant-base", "base-base", "variant-variant", "variant-base-variant-base"}}}
}
