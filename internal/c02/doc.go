// Package c02 holds the runtime monitor for property C02 (see DESIGN.md §3 C02).
package c02
