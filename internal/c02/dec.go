package c02

import (
	"bytes"
	"fmt"
	"math/rand"
	"regexp"
	"runtime"
	"sort"
	"strconv"
	"strings"

	"github.com/scrapli/scrapligo/response"

	"verif/internal/mon"
	"verif/internal/ncwire"
)

// ---- calling the library ------------------------------------------------------------------------

// Out is what one Record call produced.
type Out struct {
	Result   string
	Failed   error
	Errs     []string
	Warns    []string
	Panicked bool
	PanicKey string
	PanicMsg string
}

var frameRe = regexp.MustCompile(`github\.com/scrapli/scrapligo/([\w/]+)\.((?:\(\*?\w+\)\.)?[\w.]+)`)

// record runs the library's decoder (public API) on raw under recover().
func record(version string, raw []byte) (o Out) {
	defer func() {
		if x := recover(); x != nil {
			buf := make([]byte, 8192)
			n := runtime.Stack(buf, false)
			site := "harness"
			if m := frameRe.FindStringSubmatch(string(buf[:n])); m != nil {
				site = m[1] + "." + m[2]
			}
			o.Panicked = true
			o.PanicKey = "panic:caller:" + site
			o.PanicMsg = fmt.Sprint(x)
		}
	}()
	// the library keeps the slice it is given; hand it a private copy so that it cannot alias ours
	in := append([]byte(nil), raw...)
	r := response.NewNetconfResponse([]byte("<in/>"), []byte("<in/>"), "h", 830, version)
	r.Record(in)
	return Out{Result: r.Result, Failed: r.Failed, Errs: r.ErrorMessages, Warns: r.WarningErrorMessages}
}

// ---- violation bookkeeping of a batch -----------------------------------------------------------

// Witness is one failing input of a batch.
type Witness struct {
	Key     string `json:"key"`
	Version string `json:"version"`
	Raw     string `json:"raw_quoted"`
	What    string `json:"what"`
	Extra   string `json:"extra,omitempty"`
}

type batch struct {
	obs   map[string]int64
	tags  map[string]bool
	wit   []Witness
	byKey map[string]int
}

func newBatch() *batch {
	return &batch{obs: map[string]int64{}, tags: map[string]bool{}, byKey: map[string]int{}}
}

func (b *batch) bad(key, version string, raw []byte, extra string, f string, a ...interface{}) {
	b.byKey[key]++
	if b.byKey[key] <= 3 && len(b.wit) < 24 {
		b.wit = append(b.wit, Witness{Key: key, Version: version, Raw: clipQ(raw), What: fmt.Sprintf(f, a...), Extra: extra})
	}
}

func clipQ(raw []byte) string {
	if len(raw) > 600 {
		return strconv.Quote(string(raw[:300])) + " … " + strconv.Quote(string(raw[len(raw)-300:])) + fmt.Sprintf(" (%d bytes)", len(raw))
	}
	return strconv.Quote(string(raw))
}

// keyRank orders class keys: keys of the predicted finding classes come last so that anything new
// decides the case's key.
func keyRank(k string) int {
	switch {
	case strings.HasPrefix(k, "c02/harness"):
		return 0
	case strings.HasPrefix(k, "panic:"):
		return 1
	case strings.Contains(k, ":markers-split-by-chunk-headers"), strings.Contains(k, ":chunk-header-inside"),
		strings.Contains(k, ":plus-sign"), strings.Contains(k, ":no-literal-marker:"), strings.Contains(k, ":literal-marker-in-cdata-or-comment"),
		strings.HasPrefix(k, "c02/frame-boundary-regex:"):
		return 9
	}
	return 5
}

func (b *batch) result(nontrivial bool, sample interface{}) mon.Result {
	tags := make([]string, 0, len(b.tags))
	for t := range b.tags {
		tags = append(tags, t)
	}
	sort.Strings(tags)
	res := mon.Result{Verdict: mon.Held, Obs: b.obs, Tags: tags, NonTrivial: nontrivial, Sample: sample}
	if len(b.byKey) == 0 {
		return res
	}
	keys := make([]string, 0, len(b.byKey))
	for k := range b.byKey {
		keys = append(keys, k)
	}
	sort.Slice(keys, func(i, j int) bool {
		if keyRank(keys[i]) != keyRank(keys[j]) {
			return keyRank(keys[i]) < keyRank(keys[j])
		}
		return keys[i] < keys[j]
	})
	var d strings.Builder
	for _, k := range keys {
		fmt.Fprintf(&d, "%s: %d input(s)\n", k, b.byKey[k])
	}
	for _, w := range b.wit {
		if w.Key == keys[0] {
			fmt.Fprintf(&d, "witness [%s] version=%s raw=%s\n  %s\n", w.Key, w.Version, w.Raw, w.What)
			if w.Extra != "" {
				fmt.Fprintf(&d, "  %s\n", w.Extra)
			}
		}
	}
	for _, w := range b.wit {
		if w.Key != keys[0] {
			fmt.Fprintf(&d, "also [%s] version=%s raw=%s\n  %s\n", w.Key, w.Version, w.Raw, w.What)
		}
	}
	res.Verdict = mon.Violated
	res.Key = keys[0]
	res.Detail = d.String()
	res.Events = b.wit
	res.NonTrivial = true
	return res
}

// ---- oracles --------------------------------------------------------------------------------------

// judgeArbitrary11 judges the 1.1 decoder on arbitrary bytes against the tolerant reference.
func (b *batch) judgeArbitrary11(raw []byte, name string) (accepted bool) {
	o := record("1.1", raw)
	b.obs["decoder_calls_1.1"]++
	if o.Panicked {
		b.bad(o.PanicKey, "1.1", raw, name, "decoder panicked: %s", o.PanicMsg)
		return false
	}
	ref, ok, why := RefDecode(raw)
	carries := anyMarkerIn(raw) // classification keys on the raw bytes; arbitrary inputs rarely have markers
	if !ok {
		b.obs["ref_reject"]++
		b.tags["reject:"+why] = true
		switch {
		case o.Failed == nil && plusSignOnly(raw, o.Result):
			b.bad("c02/accepted-malformed-size:plus-sign", "1.1", raw, name, "reference rejects (%s) but the frame was accepted, Result=%q", why, clipS(o.Result))
		case o.Result != "":
			k := "c02/result-from-rejected-frame"
			if why == "end-of-chunks marker missing" {
				k = "c02/accepted-without-terminator"
			}
			b.bad(k, "1.1", raw, name, "reference rejects (%s) but Result=%q Failed=%v", why, clipS(o.Result), o.Failed)
		case o.Failed == nil:
			k := "c02/accepted-malformed:" + strings.ReplaceAll(why, " ", "-")
			if why == "end-of-chunks marker missing" {
				k = "c02/accepted-without-terminator"
			}
			b.bad(k, "1.1", raw, name, "reference rejects (%s) but Failed is nil (Result %q)", why, o.Result)
		}
		return false
	}
	b.obs["ref_accept"]++
	want := TrimPayload(ref)
	if o.Failed != nil && !carries {
		b.bad("c02/rejected-wellformed", "1.1", raw, name, "reference accepts (payload %q) but Failed=%v", clipS(string(ref)), o.Failed)
		return true
	}
	if o.Failed == nil && anyMarkerIn(ref) {
		b.bad("c02/failed-unset:accepted-frame", "1.1", raw, name, "reference payload %q has an rpc-error marker but Failed is nil", clipS(string(ref)))
	}
	if o.Result != want {
		b.bad("c02/result-mismatch:1.1", "1.1", raw, name, "Result %q, reference payload (trimmed) %q", clipS(o.Result), clipS(want))
	}
	return true
}

// judgeArbitrary10 runs the 1.0 decoder on arbitrary bytes: no panic, Result is a piece of the input.
func (b *batch) judgeArbitrary10(raw []byte, name string) {
	o := record("1.0", raw)
	b.obs["decoder_calls_1.0"]++
	if o.Panicked {
		b.bad(o.PanicKey, "1.0", raw, name, "decoder panicked: %s", o.PanicMsg)
		return
	}
	if !bytes.Contains(raw, []byte(o.Result)) {
		b.bad("c02/result-not-in-input:1.0", "1.0", raw, name, "Result %q is not a contiguous piece of the input", clipS(o.Result))
	}
	if (o.Failed != nil) != anyMarkerIn(raw) {
		b.bad("c02/failed-mismatch:1.0", "1.0", raw, name, "Failed=%v but input has rpc-error marker: %v", o.Failed, anyMarkerIn(raw))
	}
}

// judgeLegal judges one legal frame of payload p.
func (b *batch) judgeLegal(version string, raw []byte, p string, extra string) {
	o := record(version, raw)
	b.obs["decoder_calls_"+version]++
	if o.Panicked {
		b.bad(o.PanicKey, version, raw, extra, "decoder panicked on a legal frame: %s", o.PanicMsg)
		return
	}
	want := TrimPayload([]byte(p))
	carries := CarriesError([]byte(p))
	if carries {
		b.obs["legal_frames_with_rpc_error"]++
	}
	if i := strings.Index(extra, "xml:"); i >= 0 {
		v := extra[i:]
		if j := strings.IndexByte(v, ' '); j > 0 {
			v = v[:j]
		}
		errObs(b.obs, b.tags, []byte(p), v, "")
	}
	if o.Failed != nil && !carries {
		k := "c02/failed-set-on-legal-frame:"
		if o.Result == want {
			k = "c02/failed-set-without-rpc-error" + decoyClass([]byte(p)) + ":"
		}
		b.bad(k+version, version, raw, extra, "payload carries no rpc-error but Failed=%v", o.Failed)
		return
	}
	if o.Result != want {
		b.bad("c02/result-mismatch:"+version, version, raw, extra, "Result %q, want trimmed payload %q", clipS(o.Result), clipS(want))
	}
	if carries && o.Failed == nil {
		k := "c02/failed-unset" + errFormClass([]byte(p))
		if !anyMarkerIn(raw) && anyMarkerIn([]byte(p)) {
			k = "c02/failed-unset:markers-split-by-chunk-headers"
			b.obs["frames_with_every_marker_split"]++
		}
		b.bad(k+":"+version, version, raw, extra, "payload carries an rpc-error but Failed is nil")
	}
	for _, m := range append(append([]string(nil), o.Errs...), o.Warns...) {
		b.obs["error_messages_checked"]++
		if !strings.Contains(p, m) {
			k := "c02/error-message-not-in-payload"
			if chunkHeaderRe.MatchString(m) && version == "1.1" {
				k = "c02/error-message-not-in-payload:chunk-header-inside"
			}
			b.bad(k+":"+version, version, raw, extra, "error message %q is not a substring of the payload", clipS(m))
			break
		}
	}
}

var (
	errOpenTagRe   = regexp.MustCompile(`<(?:([\w.-]+):)?rpc-errors?(?:\s[^>]*)?>`)
	errCloseWSRe   = regexp.MustCompile(`</(?:[\w.-]+:)?rpc-errors?\s+>`)
	errSelfCloseRe = regexp.MustCompile(`<(?:[\w.-]+:)?rpc-errors?(?:\s[^>]*)?/>`)
)

// errFormClass is the input class of an error reply none of whose tags is one of the six literal
// markers (<rpc-error>, </rpc-error>, <rpc-errors>, </rpc-errors>, <nc:rpc-error>, </nc:rpc-error>).
func errFormClass(p []byte) string {
	if anyMarkerIn(p) {
		return ""
	}
	other := false
	for _, m := range errOpenTagRe.FindAllSubmatch(p, -1) {
		if len(m[1]) > 0 && string(m[1]) != "nc" {
			other = true
		}
	}
	// one class per input: the prefix decides first, then the self-closing form, then the end tag
	switch {
	case other:
		return ":no-literal-marker:prefix-other-than-nc"
	case errSelfCloseRe.Match(p):
		return ":no-literal-marker:self-closing"
	case errCloseWSRe.Match(p):
		return ":no-literal-marker:closing-tag-whitespace"
	}
	return ":no-literal-marker:other"
}

// errObs records what kind of error reply a payload is (evidence counters for the rpc-error dimension).
func errObs(obs map[string]int64, tags map[string]bool, p []byte, variant, pre string) {
	n, wf := xmlErrorElements(p)
	if !wf {
		return
	}
	obs[pre+"wellformed_xml_payloads"]++
	if n == 0 {
		return
	}
	obs[pre+"wellformed_xml_payloads_with_rpc_error"]++
	obs[pre+"rpc_error_elements"] += int64(n)
	for _, m := range errOpenTagRe.FindAll(p, -1) {
		if !bytes.Contains(m, []byte("rpc-error>")) || bytes.Contains(m, []byte(":")) {
			obs[pre+"rpc_error_open_tags_with_attributes_prefix_or_whitespace"]++
		}
	}
	if !bytes.Contains(p, []byte("<rpc-error>")) && !bytes.Contains(p, []byte("<nc:rpc-error>")) {
		obs[pre+"error_replies_without_any_bare_opening_tag"]++
	}
	if strings.HasPrefix(variant, "xml:") {
		for _, f := range strings.Split(variant[4:], "+") {
			tags["errform="+f] = true
		}
	}
}

func variantTag(v string) string {
	if strings.HasPrefix(v, "xml:") {
		if v == "xml:none" {
			return v
		}
		return "xml:rpc-error-forms"
	}
	return v
}

// decoyClass: a payload without rpc-error element that holds a literal marker (CDATA / comment).
func decoyClass(p []byte) string {
	if _, wf := xmlErrorElements(p); wf && anyMarkerIn(p) {
		return ":literal-marker-in-cdata-or-comment"
	}
	return ""
}

var chunkHeaderRe = regexp.MustCompile(`\n#\d+\n`)

var plusSizeRe = regexp.MustCompile(`#\+(\d)`)

// plusSignOnly: the input class "a chunk size written with a '+' sign": with the sign(s) removed the
// reference accepts the frame and yields exactly what the library returned.
func plusSignOnly(raw []byte, result string) bool {
	if !plusSizeRe.Match(raw) {
		return false
	}
	p, ok, _ := RefDecode(plusSizeRe.ReplaceAll(raw, []byte("#$1")))
	return ok && TrimPayload(p) == result
}

func clipS(s string) string {
	if len(s) > 240 {
		return s[:120] + "…" + s[len(s)-120:]
	}
	return s
}

// ---- exhaustive enumeration -----------------------------------------------------------------------

// EnumAlphabet is the alphabet of the exhaustive enumeration.
const EnumAlphabet = "#\n19-x "

// EnumTotal is the number of strings over EnumAlphabet of length 0..maxLen.
func EnumTotal(maxLen int) int64 {
	var t, p int64 = 0, 1
	for k := 0; k <= maxLen; k++ {
		t += p
		p *= int64(len(EnumAlphabet))
	}
	return t
}

// enumAt returns the idx-th string (lengths ascending, then base-7 order) as digit vector.
func enumAt(idx int64) []int {
	p := int64(1)
	k := 0
	for idx >= p {
		idx -= p
		p *= int64(len(EnumAlphabet))
		k++
	}
	d := make([]int, k)
	for i := k - 1; i >= 0; i-- {
		d[i] = int(idx % int64(len(EnumAlphabet)))
		idx /= int64(len(EnumAlphabet))
	}
	return d
}

func enumNext(d []int) []int {
	for i := len(d) - 1; i >= 0; i-- {
		d[i]++
		if d[i] < len(EnumAlphabet) {
			return d
		}
		d[i] = 0
	}
	return make([]int, len(d)+1)
}

func runEnum(start, count int64) mon.Result {
	b := newBatch()
	d := enumAt(start)
	buf := make([]byte, 0, 16)
	var acc, rej int64
	for i := int64(0); i < count; i++ {
		buf = buf[:0]
		for _, x := range d {
			buf = append(buf, EnumAlphabet[x])
		}
		if b.judgeArbitrary11(buf, "enum") {
			acc++
		} else {
			rej++
		}
		b.judgeArbitrary10(buf, "enum")
		d = enumNext(d)
	}
	b.obs["enum_strings"] = count
	b.obs["enum_accepted_by_reference"] = acc
	b.obs["enum_rejected_by_reference"] = rej
	return b.result(acc > 0 && rej > 0, map[string]interface{}{"first": strconv.Quote(enumString(enumAt(start))), "count": count, "accepted": acc, "rejected": rej})
}

func enumString(d []int) string {
	s := make([]byte, len(d))
	for i, x := range d {
		s[i] = EnumAlphabet[x]
	}
	return string(s)
}

// ---- legal frames -----------------------------------------------------------------------------------

func bodyLen(r *rand.Rand, big bool) int {
	if big {
		return []int{12000, 70000, 120000, 1100000}[r.Intn(4)]
	}
	switch r.Intn(10) {
	case 0:
		return 0
	case 1:
		return 1 + r.Intn(4)
	case 2:
		return 800 + r.Intn(3000)
	}
	return 5 + r.Intn(300)
}

func runLegal(seed int64, n int, big bool) mon.Result {
	r := rand.New(rand.NewSource(seed))
	b := newBatch()
	forced := 0
	for i := 0; i < n; i++ {
		id := 0
		if r.Intn(5) != 0 {
			id = 101 + r.Intn(900)
		}
		v10 := r.Intn(4) == 0
		p, variant := GenPayload(r, PayloadCfg{ID: id, BodyLen: bodyLen(r, big), HashLines: true, V10: v10, Pretty: !big && r.Intn(5) == 0, Collide: r.Intn(4) == 0})
		b.tags["variant="+variantTag(variant)] = true
		b.obs["legal_frames"]++
		if v10 {
			raw := ncwire.EncodeEOM([]byte(p))
			switch r.Intn(3) {
			case 0:
				raw = append(raw, '\n')
			case 1:
				raw = append(raw, "\n \n"...)
			}
			b.tags["framing=eom"] = true
			b.judgeLegal("1.0", raw, p, "variant="+variant)
			continue
		}
		mode := chunkModes[r.Intn(len(chunkModes))]
		if big && mode == "ones" {
			mode = "many"
		}
		sizes := GenSizes(r, p, mode, false)
		raw := ncwire.EncodeChunked([]byte(p), sizes)
		// the read loop hands the decoder the frame with or without the outer LFs
		switch r.Intn(4) {
		case 0:
			raw = raw[1:]
		case 1:
			raw = raw[1 : len(raw)-1]
		case 2:
			raw = append([]byte("\n"), raw...)
		}
		b.tags["chunking="+mode] = true
		b.obs["chunks"] += int64(len(sizes))
		var digs [12]bool
		for _, s := range sizes {
			digs[len(strconv.Itoa(s))] = true
		}
		for dg, seen := range digs {
			if seen {
				b.tags[fmt.Sprintf("size-digits=%d", dg)] = true
			}
		}
		if len(sizes) > 1 {
			forced++
		}
		off := 0
		for _, s := range sizes[:len(sizes)-1] {
			off += s
			c := p[off]
			switch {
			case c&0xC0 == 0x80:
				b.obs["chunk_edges_inside_rune"]++
			case c == '#' || p[off-1] == '#':
				b.obs["chunk_edges_at_hash"]++
			case c == '\n' || p[off-1] == '\n':
				b.obs["chunk_edges_at_lf"]++
			case (c >= '0' && c <= '9') || (p[off-1] >= '0' && p[off-1] <= '9'):
				b.obs["chunk_edges_at_digit"]++
			}
		}
		extra := fmt.Sprintf("variant=%s chunking=%s sizes=%s", variant, mode, clipInts(sizes))
		b.judgeLegal("1.1", raw, p, extra)
		// the strict codec must agree that this is the payload (harness self-check)
		if sp, _, err := ncwire.DecodeChunkedStrict(ncwire.EncodeChunked([]byte(p), sizes)); err != nil || string(sp) != p {
			b.bad("c02/harness-selfcheck", "1.1", raw, extra, "strict codec does not round-trip: %v", err)
		}
		if rp, ok, why := RefDecode(raw); !ok || string(rp) != p {
			b.bad("c02/harness-selfcheck", "1.1", raw, extra, "tolerant reference does not round-trip: %v %s", ok, why)
		}
	}
	return b.result(forced > 0, map[string]interface{}{"frames": n, "seed": seed, "big": big})
}

func clipInts(s []int) string {
	if len(s) > 40 {
		return fmt.Sprintf("%v…(%d chunks)", s[:40], len(s))
	}
	return fmt.Sprint(s)
}

// ---- mutated frames -----------------------------------------------------------------------------------

var mustAccept = map[string]bool{"legal": true, "legal-trimmed": true, "extra-lfs-before-header": true, "extra-lfs-before-end-marker": true,
	"leading-whitespace": true, "trailing-whitespace": true, "end-marker-then-garbage": true, "size-10-digits-zero-padded": true,
	"size-leading-zero": true}

var mustReject = map[string]bool{"size-11-digits": true, "size-11-digits-zero-padded": true, "size-negative": true, "size-negative-5": true,
	"size-zero": true, "size-empty": true, "size-nonnumeric-x": true, "size-nonnumeric-1x": true, "size-blank-before": true,
	"size-blank-after": true, "size-plus-sign": true, "missing-end-marker": true, "missing-end-marker-keep-lf": true,
	"end-marker-single-hash": true, "zero-size-chunk-inserted": true, "size-huge-4294967295": true, "size-huge-9999999999": true,
	"size-huge-18446744073709551616": true, "header-only": true, "size-nonnumeric-arabic-digit": true}

func runMut(seed int64, n int) mon.Result {
	r := rand.New(rand.NewSource(seed))
	b := newBatch()
	var acc, rej int64
	for int(b.obs["mutated_frames"]) < n {
		id := 0
		if r.Intn(3) != 0 {
			id = 101 + r.Intn(900)
		}
		// payloads without rpc-error markers: the classification is judged on legal frames
		var p string
		for {
			var v string
			p, v = GenPayload(r, PayloadCfg{ID: id, BodyLen: r.Intn(60), HashLines: true})
			if v == "none" {
				break
			}
		}
		sizes := GenSizes(r, p, chunkModes[r.Intn(len(chunkModes))], false)
		all := r.Intn(4) == 0 && len(p) < 200
		for _, m := range Mutate(r, p, sizes, all) {
			b.obs["mutated_frames"]++
			b.tags["mutation="+m.Name] = true
			ok := b.judgeArbitrary11(m.Raw, m.Name)
			if ok {
				acc++
			} else {
				rej++
			}
			b.judgeArbitrary10(m.Raw, m.Name)
			// harness self-checks: the reference itself must classify the named mutations as intended
			if rp, rok, why := RefDecode(m.Raw); mustAccept[m.Name] && (!rok || string(rp) != p) {
				b.bad("c02/harness-selfcheck", "1.1", m.Raw, m.Name, "reference should accept %s with the original payload: ok=%v %s", m.Name, rok, why)
			} else if mustReject[m.Name] && rok {
				b.bad("c02/harness-selfcheck", "1.1", m.Raw, m.Name, "reference should reject %s", m.Name)
			}
		}
	}
	b.obs["mutants_accepted_by_reference"] = acc
	b.obs["mutants_rejected_by_reference"] = rej
	return b.result(acc > 0 && rej > 0, map[string]interface{}{"seed": seed, "mutants": b.obs["mutated_frames"], "accepted": acc, "rejected": rej})
}

// ---- rpc-error lexical forms, enumerated ---------------------------------------------------------------

// runErrForms enumerates every opening form x prefix x closing form of an rpc-error element (one and
// two per reply) plus the decoys, in 1.0 framing and in 1.1 framing as one chunk, 7-byte chunks and
// 1-byte chunks.
func runErrForms(part string) mon.Result {
	r := rand.New(rand.NewSource(7))
	b := newBatch()
	judge := func(p, variant string) {
		b.tags["errform="+variant] = true
		b.obs["errform_payloads"]++
		if n, wf := xmlErrorElements([]byte(p)); !wf {
			b.bad("c02/harness-selfcheck", "-", []byte(p), variant, "generated error reply is not well-formed XML")
			return
		} else if n > 0 {
			b.obs["errform_payloads_with_rpc_error"]++
		}
		raw10 := append(ncwire.EncodeEOM([]byte(p)), '\n')
		b.judgeLegal("1.0", raw10, p, variant)
		for _, step := range []int{0, 7, 1} {
			var cuts []int
			for c := step; step > 0 && c < len(p); c += step {
				cuts = append(cuts, c)
			}
			b.judgeLegal("1.1", ncwire.EncodeChunked([]byte(p), ncwire.Partition(len(p), cuts)), p, fmt.Sprintf("%s chunks-of=%d", variant, step))
		}
	}
	wrap := func(root string, elems ...string) string {
		return Decl + "\n" + `<rpc-reply xmlns="` + baseNS + `" message-id="101"` + root + ">\n<ok-so-far>1</ok-so-far>\n" + strings.Join(elems, "\n") + "\n<more>2</more>\n</rpc-reply>\n"
	}
	seenOpen := map[string]bool{}
	for _, o := range errOpenForms {
		if seenOpen[o.name] {
			continue
		}
		seenOpen[o.name] = true
		for _, pfx := range []string{"", "nc", "ns0", "netconf"} {
			for _, cw := range []string{"", " "} {
				if (part == "end-tag-plain") != (cw == "") || (part != "end-tag-plain" && part != "end-tag-whitespace") {
					continue
				}
				f := ErrForm{Prefix: pfx, Open: o.text, OpenName: o.name, CloseWS: cw, Severity: "error"}
				if pfx != "" {
					f.Open = strings.ReplaceAll(strings.ReplaceAll(f.Open, `xmlns="`, "xmlns:"+pfx+`="`), `xmlns='`, "xmlns:"+pfx+`='`)
				}
				e, need := f.Render(r, "bad value # 1")
				root := ""
				if need {
					root = " xmlns:" + pfx + `="` + baseNS + `"`
				}
				judge(wrap(root, e), f.String())
				f2 := f
				f2.Severity = "warning"
				e2, _ := f2.Render(r, "second")
				judge(wrap(root, e, e2), "two:"+f.String())
			}
		}
	}
	for _, dcy := range decoys {
		if part == "decoys" {
			judge(wrap("", dcy.text), "decoy="+dcy.name)
		}
	}
	for _, dcy := range literalDecoys {
		if part == "literal-decoys" {
			judge(wrap("", dcy.text), "literal-decoy="+dcy.name)
		}
	}
	if part == "self-closing" {
		judge(wrap("", "<rpc-error/>"), "self-closing-rpc-error")
		judge(wrap("", `<rpc-error xmlns="`+baseNS+`"/>`), "self-closing-rpc-error-with-xmlns")
	}
	return b.result(true, map[string]interface{}{"payloads": b.obs["errform_payloads"]})
}

// ---- explicit witness -----------------------------------------------------------------------------------

func runWitness(version, rawQ, payloadQ string) mon.Result {
	raw, err := strconv.Unquote(rawQ)
	if err != nil {
		return mon.Result{Verdict: mon.Violated, Key: "c02/harness-selfcheck", Detail: "bad witness descriptor: " + err.Error()}
	}
	b := newBatch()
	if payloadQ != "" {
		p, _ := strconv.Unquote(payloadQ)
		b.judgeLegal(version, []byte(raw), p, "witness")
	} else if version == "1.1" {
		b.judgeArbitrary11([]byte(raw), "witness")
	} else {
		b.judgeArbitrary10([]byte(raw), "witness")
	}
	b.obs["witness_frames"]++
	return b.result(true, map[string]interface{}{"raw": rawQ})
}
