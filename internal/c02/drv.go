package c02

import (
	"bytes"
	"errors"
	"fmt"
	"math/rand"
	"sort"
	"strconv"
	"strings"
	"time"

	"github.com/scrapli/scrapligo/driver/netconf"
	"github.com/scrapli/scrapligo/driver/opoptions"
	"github.com/scrapli/scrapligo/driver/options"
	"github.com/scrapli/scrapligo/response"
	"github.com/scrapli/scrapligo/util"

	"verif/internal/devsim"
	"verif/internal/mon"
	"verif/internal/ncsim"
	"verif/internal/ncwire"
)

// Reply is one server reply of a driver-level session.
type Reply struct {
	API     string `json:"api"` // get | rpc | getconfig
	Payload string `json:"payload"`
	Variant string `json:"variant"`
	Mode    string `json:"chunking,omitempty"`
	Sizes   []int  `json:"sizes,omitempty"`        // 1.1 chunk sizes
	LFAfter bool   `json:"lf_after_eom,omitempty"` // 1.0: the server sends a LF after the delimiter
	Cuts    []int  `json:"cuts,omitempty"`         // forced read boundaries (offsets into the framed reply)
	// big replies ('bigbuf' family) are not spelled out: payload and chunk sizes are a pure function of
	// (BigSeed, BigLen, Plan, message-id, version), see materialize
	BigLen  int    `json:"big_len,omitempty"`
	BigSeed int64  `json:"big_seed,omitempty"`
	Plan    string `json:"chunk_plan,omitempty"` // one | 4k | few | many | edges | mixed
	// Defect (1.1, 'defect' family): the chunk header of chunk DefectAt (>= 1, so that the message-id stays
	// readable) is made defective: non-numeric | zero | too-small | too-large | negative | empty. The
	// message still ends in the end-of-chunks marker.
	Defect   string `json:"defect,omitempty"`
	DefectAt int    `json:"defect_at,omitempty"`
	// Trailer is the payload of a further server message (no message-id, or an old one) that follows
	// the reply at once as a separate, marked server message
	Trailer string `json:"trailer,omitempty"`
}

// DrvSession is the descriptor of a driver-level case.
type DrvSession struct {
	Family  string `json:"family"` // random | hash
	Version string `json:"version"`
	Caps    string `json:"caps"` // only | both (server advertises both, client prefers Version)
	Echo    bool   `json:"echo"`
	// EchoJoin (echoing sessions only): "" = the echoed request is delivered apart from the reply
	// (ncsim's default mark); "nomark" = ncsim.NoEchoMark, the reply is sent right after the request's
	// last write; "held" = additionally the echo is withheld until the reply is sent, so that the read
	// that completes the echo carries the first bytes of the reply (up to the reply's first cut / the
	// segmentation's choice)
	EchoJoin string `json:"echo_join,omitempty"`
	// request-shaping driver options
	ExcludeHeader bool       `json:"exclude_header,omitempty"` // options.WithNetconfExcludeHeader
	SelfClosing   bool       `json:"self_closing,omitempty"`   // options.WithNetconfForceSelfClosingTags
	Seg           devsim.Seg `json:"seg"`
	ReadDelayUS   int        `json:"read_delay_us"`
	ReadSize      int        `json:"read_size"`
	Replies       []Reply    `json:"replies"`
	Note          string     `json:"note,omitempty"`
}

const firstMsgID = 101

// callTimeout is the per-call timeout. A call that times out is judged lost only if the whole reply
// had been delivered and the transport has been idle for half of it (no wall-clock verdict under load:
// a slow library - race detector, loaded machine - is still reading or has returned by then).
const callTimeout = 60 * time.Second

// materialize fills Payload and Sizes of a big reply.
func (rp *Reply) materialize(version string, id int) {
	if rp.BigLen == 0 || rp.Payload != "" {
		return
	}
	for k := int64(0); ; k++ {
		r := rand.New(rand.NewSource(rp.BigSeed + k))
		rp.Payload, rp.Variant = GenPayload(r, PayloadCfg{ID: id, BodyLen: rp.BigLen, HashLines: false, V10: version == "1.0"})
		rp.Mode = rp.Plan
		if version == "1.0" {
			return
		}
		p := rp.Payload
		switch rp.Plan {
		case "one":
			rp.Sizes = []int{len(p)}
		case "4k":
			var cuts []int
			for c := 4096; c < len(p); c += 4096 {
				x := c
				for x+1 < len(p) && p[x] == '#' && p[x+1] == '#' {
					x--
				}
				cuts = append(cuts, x)
			}
			rp.Sizes = ncwire.Partition(len(p), cuts)
		default:
			rp.Sizes = GenSizes(r, p, rp.Plan, true)
		}
		if wireOK11(rp.frame("1.1")) {
			return
		}
	}
}

func frameTrailer(version, payload string, lf bool) []byte {
	if version == "1.1" {
		return ncwire.EncodeChunked([]byte(payload), nil)
	}
	raw := ncwire.EncodeEOM([]byte(payload))
	if lf {
		raw = append(raw, '\n')
	}
	return raw
}

var defects = []string{"non-numeric", "zero", "too-small", "too-large", "negative", "empty"}

// GenDefectSession draws a 1.1 session in which some replies have a defective chunk header (but end
// in the end-of-chunks marker) and are followed by legal replies: the defective ones must come back
// marked failed with an empty result (not as a time-out), the later ones must decode.
func GenDefectSession(r *rand.Rand, k int) DrvSession {
	s := DrvSession{Family: "defect", Version: "1.1", Caps: []string{"only", "both"}[r.Intn(2)]}
	s.Echo = r.Intn(3) == 0
	if s.Echo {
		s.EchoJoin = []string{"", "nomark", "held"}[r.Intn(3)]
	}
	s.ReadDelayUS = []int{50, 250}[r.Intn(2)]
	s.ReadSize = []int{64, 8192, 65535}[r.Intn(3)]
	s.Seg = devsim.Seg{Mode: []string{"fixed", "whole", "geom", "mix"}[r.Intn(4)], Size: []int{1, 3, 7, 16, 100, 1000}[r.Intn(6)], Seed: r.Int63()}
	n := 4 + r.Intn(4)
	for i := 0; i < n; i++ {
		rp := Reply{API: []string{"get", "rpc", "getconfig"}[r.Intn(3)]}
		defective := i == 1 || (i > 1 && i < n-1 && r.Intn(3) == 0) // never the last: a legal reply always follows
		for {
			rp.Payload, rp.Variant = GenPayload(r, PayloadCfg{ID: firstMsgID + i, BodyLen: 20 + r.Intn(400), HashLines: false})
			rp.Mode = []string{"two", "few", "many", "edges", "mixed"}[r.Intn(5)]
			rp.Sizes = GenSizes(r, rp.Payload, rp.Mode, true)
			rp.Defect, rp.DefectAt = "", 0
			if !wireOK11(rp.frame("1.1")) {
				continue
			}
			if !defective {
				break
			}
			// the first chunk must hold the whole opening tag (message-id readable), the defect sits later
			open := strings.Index(rp.Payload, "<rpc-reply")
			end := open + strings.IndexByte(rp.Payload[open:], '>')
			if len(rp.Sizes) < 2 || rp.Sizes[0] <= end {
				continue
			}
			rp.Defect = defects[(k+i)%len(defects)]
			rp.DefectAt = 1 + r.Intn(len(rp.Sizes)-1)
			raw := rp.frame("1.1")
			// the defective message still ends in the marker, has no other "##" line, and the reference rejects it
			if _, ok, _ := RefDecode(raw); !ok && wireOK11(raw) {
				break
			}
		}
		s.Replies = append(s.Replies, rp)
	}
	return s
}

// GenBigSession draws one session of the 'bigbuf' family: replies of 64 KiB … 300 KiB, each followed
// at once by another server message, so that a receive buffer that is reused after a reply was filed
// is overwritten while the caller still decodes.
func GenBigSession(r *rand.Rand, k int) DrvSession {
	s := DrvSession{Family: "bigbuf", Version: []string{"1.0", "1.1"}[k%2], Caps: []string{"only", "both"}[r.Intn(2)]}
	s.Echo = r.Intn(4) == 0
	s.ReadDelayUS = []int{0, 50, 250}[(k/2)%3]
	s.ReadSize = []int{8192, 65535}[r.Intn(2)]
	s.Seg = []devsim.Seg{{Mode: "whole"}, {Mode: "fixed", Size: 4096}, {Mode: "fixed", Size: 1000}, {Mode: "mix", Size: 1000}, {Mode: "geom", Size: 16000}}[r.Intn(5)]
	s.Seg.Seed = r.Int63()
	n := 5 + r.Intn(6)
	for i := 0; i < n; i++ {
		rp := Reply{API: []string{"get", "rpc", "getconfig"}[r.Intn(3)], BigSeed: r.Int63(), LFAfter: r.Intn(2) == 0}
		switch {
		case i > 0 && r.Intn(5) == 0:
			rp.BigLen = 50 + r.Intn(2000) // a small reply in a buffer that has been big before
		case r.Intn(4) == 0:
			rp.BigLen = 120000 + r.Intn(180000)
		default:
			rp.BigLen = 66000 + r.Intn(54000)
		}
		rp.Plan = []string{"one", "4k", "one", "4k", "few", "many", "edges", "mixed"}[r.Intn(8)]
		body := genText(r, 200+r.Intn(3000), false)
		if r.Intn(2) == 0 {
			rp.Trailer = `<notification xmlns="urn:ietf:params:xml:ns:netconf:notification:1.0"><eventTime>2026-10-04T00:00:00Z</eventTime><event>` + body + `</event></notification>`
		} else {
			// an unsolicited reply with an id that is not waited for (any more)
			rp.Trailer = `<rpc-reply xmlns="urn:ietf:params:xml:ns:netconf:base:1.0" ` + fmt.Sprintf(`message-id="%d">`, firstMsgID-1-r.Intn(50)) + body + `</rpc-reply>`
		}
		if strings.Contains(rp.Trailer, "\n##") {
			rp.Trailer = strings.ReplaceAll(rp.Trailer, "\n##", "\n#.#")
		}
		s.Replies = append(s.Replies, rp)
	}
	return s
}

func (rp Reply) frame(version string) []byte {
	if version == "1.1" {
		raw := ncwire.EncodeChunked([]byte(rp.Payload), rp.Sizes)
		if rp.Defect == "" {
			return raw
		}
		spans, _ := headerSpans(len(rp.Payload), rp.Sizes)
		sp, size := spans[rp.DefectAt], rp.Sizes[rp.DefectAt]
		switch rp.Defect {
		case "non-numeric":
			return splice(raw, sp[0], sp[1], strconv.Itoa(size)+"x")
		case "zero":
			return splice(raw, sp[0]-2, sp[0]-2, "\n#0\n")
		case "too-small":
			d := 3
			if size <= 3 {
				d = size - 1
			}
			return splice(raw, sp[0], sp[1], strconv.Itoa(size-d))
		case "too-large":
			return splice(raw, sp[0], sp[1], strconv.Itoa(size+5))
		case "negative":
			return splice(raw, sp[0], sp[1], "-"+strconv.Itoa(size))
		case "empty":
			return splice(raw, sp[0], sp[1], "")
		}
		panic("unknown defect " + rp.Defect)
	}
	raw := ncwire.EncodeEOM([]byte(rp.Payload))
	if rp.LFAfter {
		raw = append(raw, '\n')
	}
	return raw
}

// framingSpans returns the [start,end) spans of framing bytes inside the framed reply: chunk
// headers (LF # size LF) and the end-of-chunks marker, or the end-of-message delimiter.
func (rp Reply) framingSpans(version string) (hdr [][2]int, term [2]int) {
	if version == "1.1" {
		off := 0
		for _, s := range rp.Sizes {
			d := len(strconv.Itoa(s))
			hdr = append(hdr, [2]int{off, off + 2 + d + 1})
			off += 2 + d + 1 + s
		}
		return hdr, [2]int{off, off + 4}
	}
	return nil, [2]int{len(rp.Payload), len(rp.Payload) + len(ncwire.EOM)}
}

// interestingWireCuts proposes forced read boundaries: inside chunk headers, inside the
// terminator/delimiter, right after a '#', inside a multi-byte rune.
func interestingWireCuts(r *rand.Rand, rp Reply, version string, k int) []int {
	raw := rp.frame(version)
	var cand []int
	hdr, term := rp.framingSpans(version)
	for _, h := range hdr {
		for i := h[0] + 1; i < h[1]; i++ {
			cand = append(cand, i)
		}
	}
	for i := term[0] + 1; i < term[1] && i < len(raw); i++ {
		cand = append(cand, i, i, i)
	}
	if term[1] < len(raw) {
		cand = append(cand, term[1], term[1]) // between the delimiter and the LF that follows it
	}
	for i := 1; i < len(raw); i++ {
		if raw[i-1] == '#' || raw[i]&0xC0 == 0x80 {
			cand = append(cand, i)
		}
	}
	set := map[int]bool{}
	for ; k > 0 && len(cand) > 0; k-- {
		set[cand[r.Intn(len(cand))]] = true
	}
	var cuts []int
	for c := range set {
		cuts = append(cuts, c)
	}
	sort.Ints(cuts)
	return cuts
}

// GenDrvSession draws one ordinary driver-level session.
func GenDrvSession(r *rand.Rand, big bool) DrvSession {
	s := DrvSession{Family: "random", Version: []string{"1.0", "1.1", "1.1"}[r.Intn(3)], Caps: []string{"only", "both"}[r.Intn(2)]}
	s.Echo = r.Intn(3) == 0
	if s.Echo {
		s.EchoJoin = []string{"", "nomark", "held", "held"}[r.Intn(4)]
	}
	s.ExcludeHeader = r.Intn(3) == 0
	s.SelfClosing = r.Intn(3) == 0
	s.ReadDelayUS = []int{50, 250}[r.Intn(2)]
	s.ReadSize = []int{7, 64, 8192, 65535}[r.Intn(4)]
	mode := []string{"fixed", "whole", "geom", "mix", "mix"}[r.Intn(5)]
	s.Seg = devsim.Seg{Mode: mode, Size: []int{1, 2, 3, 7, 16, 100, 1000}[r.Intn(7)], Seed: r.Int63()}
	if s.Seg.Size >= 16 || mode == "whole" {
		s.Seg.Delay = []string{"", "gosched", "sleep"}[r.Intn(3)]
	} else {
		s.Seg.Delay = []string{"", "gosched"}[r.Intn(2)]
	}
	n := 1 + r.Intn(5)
	if big {
		n = 2
		s.Seg.Mode, s.Seg.Size, s.ReadSize = "mix", 1000, 65535
	}
	for i := 0; i < n; i++ {
		rp := Reply{API: []string{"get", "rpc", "getconfig"}[r.Intn(3)]}
		bl := bodyLen(r, false)
		if bl > 1500 && s.Seg.Size < 7 && s.Seg.Mode != "whole" {
			bl = 100 + r.Intn(400)
		}
		if big && i == 0 {
			bl = 30000 + r.Intn(60000)
		}
		pretty := r.Intn(4) == 0 || (s.EchoJoin != "" && r.Intn(2) == 0)
		for {
			rp.Payload, rp.Variant = GenPayload(r, PayloadCfg{ID: firstMsgID + i, BodyLen: bl, HashLines: false, V10: s.Version == "1.0",
				Pretty: pretty, Collide: r.Intn(3) == 0})
			if s.Version == "1.0" {
				rp.LFAfter = r.Intn(2) == 0
				break
			}
			rp.Mode = chunkModes[r.Intn(len(chunkModes))]
			if r.Intn(4) == 0 {
				rp.Mode = "attr" // chunk edges inside message-id="…"
			}
			if big && rp.Mode == "ones" {
				rp.Mode = "many"
			}
			rp.Sizes = GenSizes(r, rp.Payload, rp.Mode, true)
			// precondition, by brute force on the framed bytes
			if wireOK11(rp.frame("1.1")) {
				break
			}
		}
		if r.Intn(2) == 0 {
			rp.Cuts = interestingWireCuts(r, rp, s.Version, 1+r.Intn(6))
		}
		s.Replies = append(s.Replies, rp)
	}
	return s
}

// HashSessions is the dedicated sub-family: legal 1.1 replies whose wire form has a data line that
// starts with (or equals) "##". Each comes with the read boundary placed on purpose.
func HashSessions() []DrvSession {
	mk := func(note, body string, sizesOf func(p string) []int, cutAfter string, seg devsim.Seg) DrvSession {
		p := string(ncsim.Reply(firstMsgID, body))
		rp := Reply{API: "get", Payload: p, Variant: "none", Mode: "explicit", Sizes: sizesOf(p)}
		if cutAfter != "" {
			raw := rp.frame("1.1")
			k := bytes.Index(raw, []byte(cutAfter))
			if k < 0 {
				panic("hash family: cut anchor not found")
			}
			rp.Cuts = []int{k + len(cutAfter)}
		}
		// a second, ordinary reply shows whether the session recovers
		p2 := string(ncsim.Reply(firstMsgID+1, "<ok/>"))
		return DrvSession{Family: "hash", Version: "1.1", Caps: "only", Seg: seg, ReadDelayUS: 250, ReadSize: 65535, Note: note,
			Replies: []Reply{rp, {API: "get", Payload: p2, Variant: "none", Mode: "one", Sizes: []int{len(p2)}}}}
	}
	one := func(p string) []int { return []int{len(p)} }
	whole := devsim.Seg{Mode: "whole", Seed: 1}
	var out []DrvSession
	// (a) a data line that starts with "##": read boundary right after the two bytes
	out = append(out, mk("line '##abc', one read boundary right after '\\n##'", "<data>x\n##abc\ny</data>", one, "x\n##", whole))
	// (b) same payload, no read boundary there (control: must decode)
	out = append(out, mk("line '##abc', whole-message reads (control)", "<data>x\n##abc\ny</data>", one, "", whole))
	out = append(out, mk("line '##abc', read boundary one byte later (control)", "<data>x\n##abc\ny</data>", one, "x\n##a", whole))
	out = append(out, mk("line '##abc', read boundary one byte earlier (control)", "<data>x\n##abc\ny</data>", one, "x\n#", whole))
	// (c) one-byte reads: every boundary occurs
	out = append(out, mk("line '##abc', one-byte reads", "<data>x\n##abc\ny</data>", one, "", devsim.Seg{Mode: "fixed", Size: 1, Seed: 1}))
	// (d) a data line equal to "##": any segmentation
	out = append(out, mk("line equal to '##', whole-message reads (control)", "<data>x\n##\ny</data>", one, "", whole))
	out = append(out, mk("line equal to '##', one read boundary much later (inside </rpc-reply>)", "<data>x\n##\ny</data>", one, "</rpc-rep", whole))
	out = append(out, mk("line equal to '##', one read boundary before it (control)", "<data>x\n##\ny</data>", one, "<data>x", whole))
	out = append(out, mk("line equal to '##', one-byte reads", "<data>x\n##\ny</data>", one, "", devsim.Seg{Mode: "fixed", Size: 1, Seed: 1}))
	// (e) "##" in the middle of a payload line, but a chunk starts right there
	split := func(p string) []int { k := strings.Index(p, "##"); return []int{k, len(p) - k} }
	out = append(out, mk("chunk data starts with '##cd' (payload line is 'ab##cd'), boundary right after '\\n##'", "<data>ab##cd</data>", split, "\n##", whole))
	out = append(out, mk("chunk data starts with '##cd', whole-message reads (control)", "<data>ab##cd</data>", split, "", whole))
	split3 := func(p string) []int { k := strings.Index(p, "##"); return []int{k, 2, len(p) - k - 2} }
	out = append(out, mk("chunk data equal to '##' (payload line is 'ab##cd'), whole-message reads (control)", "<data>ab##cd</data>", split3, "", whole))
	out = append(out, mk("chunk data equal to '##' (payload line is 'ab##cd'), one read boundary later", "<data>ab##cd</data>", split3, "cd</da", whole))
	return out
}

// DeclSessions is a second dedicated sub-family (1.0): the server sends a LF after the delimiter
// (as the library's own comments say servers usually do) and that LF is delivered by a read of its
// own, so that it is still in the receive buffer when the next reply arrives.
func DeclSessions() []DrvSession {
	mk := func(note string, cut bool, decl string, echo bool) DrvSession {
		p1 := decl + string(ncsim.Reply(firstMsgID, "<data>one</data>"))
		p2 := decl + string(ncsim.Reply(firstMsgID+1, "<data>two</data>"))
		r1 := Reply{API: "get", Payload: p1, Variant: "none", LFAfter: true}
		if cut {
			r1.Cuts = []int{len(p1) + len(ncwire.EOM)}
		}
		return DrvSession{Family: "decl", Version: "1.0", Caps: "only", Echo: echo, Seg: devsim.Seg{Mode: "whole", Seed: 1}, ReadDelayUS: 250, ReadSize: 65535,
			Note: note, Replies: []Reply{r1, {API: "get", Payload: p2, Variant: "none", LFAfter: true}}}
	}
	return []DrvSession{
		mk("1.0, LF after ]]>]]> delivered by its own read; second reply starts with the XML declaration", true, Decl, false),
		mk("1.0, LF after ]]>]]> in the same read as the delimiter (control)", false, Decl, false),
		mk("1.0, LF after ]]>]]> delivered by its own read; replies without declaration (control)", true, "", false),
		mk("1.0, LF after ]]>]]> delivered by its own read; echo on (control: the echo resets the buffer)", true, Decl, true),
	}
}

// joinDev wraps the server model for the echo-joined families: the reply is sent right after the
// request's last write (the return that follows the framed request; in 1.1 the second return), and
// with held the echo of the request is withheld until then, without any mark between echo and reply.
type joinDev struct {
	*ncsim.Server
	held, late bool
	echoBuf    []byte
	pending    func(c *devsim.Conn)
}

func (j *joinDev) send(c *devsim.Conn, emit func(c *devsim.Conn)) {
	if j.late {
		j.pending = emit
		return
	}
	emit(c)
}

// Input implements devsim.Device.
func (j *joinDev) Input(c *devsim.Conn, b []byte) {
	if j.held {
		if len(j.Server.Msgs) == 0 {
			c.Emit(b) // the hello's echo is not withheld
		} else {
			j.echoBuf = append(j.echoBuf, b...)
		}
	}
	had := j.pending != nil
	j.Server.Input(c, b)
	if had && j.pending != nil {
		// the write after the one that completed the request: its last one
		if j.held {
			c.Emit(j.echoBuf)
			j.echoBuf = nil
		}
		p := j.pending
		j.pending = nil
		p(c)
	}
}

// ReqOptSessions is the full factorial of the request-shaping driver options (exclude header, force
// self-closing tags, preferred version) x NETCONF version x echo mode (off, marked, nomark, held),
// three calls (get, rpc, get-config) each.
func ReqOptSessions() []DrvSession {
	var out []DrvSession
	for _, v := range []string{"1.0", "1.1"} {
		for _, xh := range []bool{false, true} {
			for _, sc := range []bool{false, true} {
				for _, caps := range []string{"only", "both"} {
					for ei, em := range []string{"off", "", "nomark", "held"} {
						s := DrvSession{Family: "reqopts", Version: v, Caps: caps, Echo: em != "off", ExcludeHeader: xh, SelfClosing: sc,
							Seg: devsim.Seg{Mode: []string{"whole", "fixed", "mix"}[(ei+len(out))%3], Size: 16, Seed: int64(len(out) + 1)}, ReadDelayUS: 250, ReadSize: 65535}
						if s.Echo {
							s.EchoJoin = em
						}
						for i, api := range []string{"get", "rpc", "getconfig"} {
							p := Decl + string(ncsim.Reply(firstMsgID+i, fmt.Sprintf("<data><n>%d</n>\n <t>é # 12</t></data>", i)))
							rp := Reply{API: api, Payload: p, Variant: "none", LFAfter: i%2 == 0}
							if v == "1.1" {
								rp.Mode, rp.Sizes = "explicit", ncwire.Partition(len(p), []int{40 + i, 90})
							}
							if em == "held" {
								rp.Cuts = []int{5 + 20*i}
							}
							s.Replies = append(s.Replies, rp)
						}
						out = append(out, s)
					}
				}
			}
		}
	}
	return out
}

// EchoWalkSessions is the dedicated sub-family that walks k over every position of one framed,
// whitespace-rich reply: the read that completes the echo of the request ends after k bytes of the
// reply (k = len: the whole reply rides with the echo).
func EchoWalkSessions() []DrvSession {
	const perSession = 30
	body := "\n  <data>\n    <interfaces>  \n      <interface>\n\t<name>eth0</name> \n\t<mtu> 1500 </mtu>\n      </interface>\n\n    </interfaces>\t\n  </data>  \n"
	var out []DrvSession
	for _, v := range []string{"1.0", "1.1"} {
		mk := func(id int) Reply {
			p := Decl + "\n" + string(ncsim.Reply(id, body)) + "\n"
			rp := Reply{API: "get", Payload: p, Variant: "none", LFAfter: true}
			if v == "1.1" {
				var cuts []int
				for c := 37; c < len(p); c += 37 {
					cuts = append(cuts, c)
				}
				rp.Mode, rp.Sizes = "explicit", ncwire.Partition(len(p), cuts)
			}
			return rp
		}
		total := len(mk(firstMsgID).frame(v))
		for k0 := 1; k0 <= total; k0 += perSession {
			s := DrvSession{Family: "echowalk", Version: v, Caps: "only", Echo: true, EchoJoin: "held", Seg: devsim.Seg{Mode: "whole", Seed: 1},
				ReadDelayUS: 50, ReadSize: 65535, Note: fmt.Sprintf("read completing the echo ends after k=%d… bytes of the framed reply", k0)}
			for i := 0; i < perSession && k0+i <= total; i++ {
				rp := mk(firstMsgID + i)
				rp.Cuts = []int{k0 + i}
				s.Replies = append(s.Replies, rp)
			}
			out = append(out, s)
		}
	}
	return out
}

// ---- running ------------------------------------------------------------------------------------------

type span struct{ start, end int }

// RunDrv drives the real NETCONF driver through the session and judges every reply.
func RunDrv(s DrvSession) mon.Result {
	s.Replies = append([]Reply(nil), s.Replies...)
	for i := range s.Replies {
		s.Replies[i].materialize(s.Version, firstMsgID+i)
	}
	caps := []string{ncsim.Cap10}
	if s.Version == "1.1" {
		caps = []string{ncsim.Cap11}
	}
	if s.Caps == "both" {
		caps = []string{ncsim.Cap10, ncsim.Cap11}
	}
	srv := &ncsim.Server{HelloBytes: ncsim.Hello(caps, "7"), Echo: s.Echo && s.EchoJoin != "held", NoEchoMark: s.EchoJoin == "nomark"}
	jd := &joinDev{Server: srv, held: s.Echo && s.EchoJoin == "held", late: s.Echo && s.EchoJoin != ""}
	spans := make([]span, 0, len(s.Replies))
	harness := ""
	srv.OnMsg = func(sv *ncsim.Server, c *devsim.Conn, m *ncsim.Msg) {
		if m.Hello {
			return
		}
		i := len(spans)
		if i >= len(s.Replies) {
			return
		}
		if m.ID != firstMsgID+i {
			harness = fmt.Sprintf("request %d carries message-id %d, expected %d", i, m.ID, firstMsgID+i)
		}
		if sv.Version != s.Version {
			harness = fmt.Sprintf("negotiated version %s, expected %s", sv.Version, s.Version)
		}
		raw := s.Replies[i].frame(s.Version)
		jd.send(c, func(c *devsim.Conn) {
			start := c.Generated()
			prev := 0
			for _, k := range s.Replies[i].Cuts {
				if k > prev && k < len(raw) {
					c.Emit(raw[prev:k])
					c.Mark() // forced read boundary
					prev = k
				}
			}
			c.Emit(raw[prev:])
			c.Mark() // no read carries bytes of two server messages
			spans = append(spans, span{start, start + len(raw)})
			if t := s.Replies[i].Trailer; t != "" {
				c.Emit(frameTrailer(s.Version, t, s.Replies[i].LFAfter))
				c.Mark()
			}
		})
	}
	conn := devsim.NewConn(jd, devsim.Config{Seg: s.Seg, KeepData: true})
	lastRead := time.Now()
	conn.OnEvent = func(e devsim.Event) { // called with the conn mutex held
		if e.Kind == "read" {
			lastRead = time.Now()
		}
	}
	defer conn.Abandon()
	opts := []util.Option{
		options.WithCustomTransport(conn),
		options.WithTimeoutOps(20 * time.Second),
		options.WithReadDelay(time.Duration(s.ReadDelayUS) * time.Microsecond),
		options.WithTransportReadSize(s.ReadSize),
	}
	if s.Caps == "both" {
		opts = append(opts, options.WithNetconfPreferredVersion(s.Version))
	}
	if s.ExcludeHeader {
		opts = append(opts, options.WithNetconfExcludeHeader())
	}
	if s.SelfClosing {
		opts = append(opts, options.WithNetconfForceSelfClosingTags())
	}
	d, err := netconf.NewDriver("dev", opts...)
	if err != nil {
		return mon.Result{Verdict: mon.Violated, Key: "c02/driver-new-failed", Detail: err.Error()}
	}
	if err := d.Open(); err != nil {
		return mon.Result{Verdict: mon.Violated, Key: "c02/driver-open-failed", Detail: err.Error(), Events: tail(conn.Log(), 40)}
	}
	defer func() {
		done := make(chan struct{})
		go func() { defer func() { recover(); close(done) }(); d.Close() }()
		select {
		case <-done:
		case <-time.After(5 * time.Second):
		}
	}()
	if d.SelectedVersion != s.Version {
		return mon.Result{Verdict: mon.Violated, Key: "c02/harness-selfcheck", Detail: "driver selected version " + d.SelectedVersion}
	}
	obs := map[string]int64{"driver_sessions": 1}
	tags := map[string]bool{}
	nontrivial := false
	// violations of the classification clauses leave the session intact: the remaining replies are still judged
	var soft []mon.Result
	defectSeen := false
	for i, rp := range s.Replies {
		var r *response.NetconfResponse
		var err error
		to := opoptions.WithTimeoutOps(callTimeout)
		switch rp.API {
		case "rpc":
			r, err = d.RPC(opoptions.WithFilter("<get><x/></get>"), to)
		case "getconfig":
			r, err = d.GetConfig("running", to)
		default:
			r, err = d.Get("<a/>", to)
		}
		if harness != "" {
			return mon.Result{Verdict: mon.Violated, Key: "c02/harness-selfcheck", Detail: harness}
		}
		if srv.ProtoErr != "" {
			return mon.Result{Verdict: mon.Inconclusive, Detail: "client stream did not decode strictly (C03's subject): " + srv.ProtoErr}
		}
		log := conn.Log()
		var sp span
		sent := false
		conn.Do(func() {
			if i < len(spans) {
				sp, sent = spans[i], true
			}
		})
		class := inputClass(s, i, sp, log)
		symptom := ""
		bad := func(key, f string, a ...interface{}) mon.Result {
			if class != "" && !strings.HasPrefix(key, "c02/failed-unset") && !strings.HasPrefix(key, "c02/error-message") {
				// the predicted classes come with a predicted symptom; anything else is not folded into them
				pred := "failed-with-empty-result"
				if strings.HasPrefix(class, "c02/xml-declaration-kept") {
					pred = "declaration-kept"
				}
				if symptom == pred {
					key = class
				} else {
					key = class + ":unexpected-symptom:" + key
				}
			}
			det := fmt.Sprintf("session %s v=%s echo=%v seg=%s/%d readsize=%d; reply %d (api %s, chunking %s %s, cuts %v):\n", s.Family, s.Version, s.Echo,
				s.Seg.Mode, s.Seg.Size, s.ReadSize, i, rp.API, rp.Mode, clipInts(rp.Sizes), rp.Cuts) + fmt.Sprintf(f, a...) +
				"\nwire: " + clipQ(rp.frame(s.Version)) + "\nreads of this reply: " + readsOf(log, sp)
			if s.Note != "" {
				det = s.Note + "\n" + det
			}
			return mon.Result{Verdict: mon.Violated, Key: key, Detail: det, Events: tail(log, 60), NonTrivial: true}
		}
		if err != nil {
			if errors.Is(err, util.ErrTimeoutError) {
				if !sent {
					return mon.Result{Verdict: mon.Inconclusive, Detail: "request never completed at the server model"}
				}
				var idle time.Duration
				conn.Do(func() { idle = time.Since(lastRead) })
				if conn.Delivered() < sp.end || idle < callTimeout/2 {
					return mon.Result{Verdict: mon.Inconclusive, Detail: fmt.Sprintf("timeout with %d of %d bytes delivered, last transport read %s ago", conn.Delivered(), sp.end, idle.Round(time.Second))}
				}
				if rp.Defect != "" {
					return bad("c02/malformed-reply-lost:"+s.Version, "a reply with a defective chunk header (%s at chunk %d) that ends in the end-of-chunks marker was delivered completely %s ago, but the call timed out instead of returning a response marked failed: %v",
						rp.Defect, rp.DefectAt, idle.Round(time.Second), err)
				}
				return bad("c02/reply-lost:"+s.Version, "the whole reply was delivered (%d bytes) but the call timed out: %v", sp.end-sp.start, err)
			}
			return bad("c02/driver-error:"+errClass(err), "call returned %v", err)
		}
		if rp.Defect != "" {
			// malformed framing: must be marked failed with a parse error, nothing returned
			if r.Failed == nil {
				return bad("c02/malformed-reply-not-failed:"+s.Version, "defective chunk header (%s at chunk %d) but Failed is nil, Result %q", rp.Defect, rp.DefectAt, clipS(r.Result))
			}
			if r.Result != "" {
				return bad("c02/malformed-reply-result-nonempty:"+s.Version, "defective chunk header (%s at chunk %d), Failed=%v but Result %q", rp.Defect, rp.DefectAt, r.Failed, clipS(r.Result))
			}
			if !strings.Contains(r.Failed.Error(), "unable to parse netconf 1.1 response") {
				return bad("c02/malformed-reply-not-a-parse-error:"+s.Version, "defective chunk header (%s), Failed=%v", rp.Defect, r.Failed)
			}
			obs["driver_replies"]++
			obs["driver_replies_with_defective_chunk_header_returned_failed"]++
			tags["defect="+rp.Defect] = true
			defectSeen = true
			continue
		}
		if defectSeen {
			obs["legal_replies_after_a_defective_one"]++
			nontrivial = true
		}
		want := TrimPayload([]byte(rp.Payload))
		carries := CarriesError([]byte(rp.Payload))
		if r.Failed != nil && r.Result == "" {
			symptom = "failed-with-empty-result"
		} else if strings.HasPrefix(r.Result, Decl) && TrimPayload([]byte(r.Result)) == want {
			symptom = "declaration-kept"
		}
		if r.Failed != nil && !carries {
			return bad("c02/failed-set-on-legal-reply:"+s.Version, "payload carries no rpc-error but Failed=%v\n got Result %q\nwant        %q", r.Failed, clipS(r.Result), clipS(want))
		}
		if r.Result != want {
			return bad("c02/driver-result-mismatch:"+s.Version, " got Result %q\nwant        %q\nraw handed to the decoder: %s", clipS(r.Result), clipS(want), clipQ(r.RawResult))
		}
		if carries && r.Failed == nil {
			k := "c02/failed-unset" + errFormClass([]byte(rp.Payload))
			if !anyMarkerIn(rp.frame(s.Version)) && anyMarkerIn([]byte(rp.Payload)) {
				k = "c02/failed-unset:markers-split-by-chunk-headers"
			}
			soft = append(soft, bad(k+":"+s.Version, "payload carries an rpc-error (%s) but Failed is nil", rp.Variant))
		}
		for _, m := range append(append([]string(nil), r.ErrorMessages...), r.WarningErrorMessages...) {
			if !strings.Contains(rp.Payload, m) {
				k := "c02/error-message-not-in-payload"
				if chunkHeaderRe.MatchString(m) && s.Version == "1.1" {
					k = "c02/error-message-not-in-payload:chunk-header-inside"
				}
				soft = append(soft, bad(k+":"+s.Version, "error message %q is not a substring of the payload", clipS(m)))
				break
			}
		}
		// observations
		obs["driver_replies"]++
		if rp.Trailer != "" {
			obs["replies_followed_at_once_by_another_server_message"]++
			if sp.end-sp.start >= 65536 {
				obs["replies_of_64KiB_or_more_followed_by_another_message"]++
				nontrivial = true
			}
		}
		if carries {
			obs["driver_replies_with_rpc_error"]++
		}
		errObs(obs, tags, []byte(rp.Payload), rp.Variant, "driver_")
		obs["driver_chunks"] += int64(len(rp.Sizes))
		hdr, term := rp.framingSpans(s.Version)
		for _, e := range log {
			if e.Kind != "read" || e.Delivered <= sp.start || e.Delivered > sp.end {
				continue
			}
			obs["driver_reads_of_replies"]++
			if s.Echo && e.Delivered-e.N < sp.start {
				obs["read_completing_echo_carries_reply_bytes"]++
				nontrivial = true
				if c := conn.Stream()[e.Delivered-1]; isWS(c) {
					obs["read_completing_echo_ends_in_reply_whitespace"]++
				}
			}
			b := e.Delivered - sp.start // boundary after this read, relative to the reply
			if b > term[0] && b < term[1] {
				if s.Version == "1.1" {
					obs["read_boundary_inside_end_marker"]++
				} else {
					obs["read_boundary_inside_eom_delimiter"]++
				}
				nontrivial = true
			}
			if s.Version == "1.0" && rp.LFAfter && b == term[1] {
				obs["read_boundary_between_eom_and_lf"]++
			}
			for _, h := range hdr {
				if b > h[0] && b < h[1] {
					obs["read_boundary_inside_chunk_header"]++
					nontrivial = true
				}
			}
			raw := rp.frame(s.Version)
			if b < len(raw) && raw[b]&0xC0 == 0x80 {
				obs["read_boundary_inside_rune"]++
			}
		}
		if k := strings.Index(rp.Payload, `message-id="`); k >= 0 && len(rp.Sizes) > 1 {
			e := k + len(`message-id="`) + 4
			off := 0
			for _, sz := range rp.Sizes[:len(rp.Sizes)-1] {
				off += sz
				if off > k && off < e {
					obs["chunk_edge_inside_message_id"]++
					break
				}
			}
		}
		tags["api="+rp.API] = true
		tags["variant="+variantTag(rp.Variant)] = true
		if rp.Mode != "" {
			tags["chunking="+rp.Mode] = true
		}
	}
	tags["version="+s.Version] = true
	tags["seg="+s.Seg.Mode] = true
	tags[fmt.Sprintf("echo=%v", s.Echo)] = true
	tags[fmt.Sprintf("readsize=%d", s.ReadSize)] = true
	tags["caps="+s.Caps] = true
	echoMode := "off"
	if s.Echo {
		echoMode = map[string]string{"": "marked", "nomark": "nomark", "held": "held"}[s.EchoJoin]
	}
	tags[fmt.Sprintf("reqopts: exclude-header=%v self-closing=%v preferred-version=%v echo=%s", s.ExcludeHeader, s.SelfClosing, s.Caps == "both", echoMode)] = true
	if s.ExcludeHeader && s.Echo {
		obs["sessions_exclude_header_on_echoing_transport"]++
	}
	if s.SelfClosing && s.Echo {
		obs["sessions_self_closing_tags_on_echoing_transport"]++
	}
	tags["family="+s.Family] = true
	tl := make([]string, 0, len(tags))
	for t := range tags {
		tl = append(tl, t)
	}
	sort.Strings(tl)
	if len(soft) > 0 {
		sort.SliceStable(soft, func(i, j int) bool {
			if keyRank(soft[i].Key) != keyRank(soft[j].Key) {
				return keyRank(soft[i].Key) < keyRank(soft[j].Key)
			}
			return soft[i].Key < soft[j].Key
		})
		res := soft[0]
		for _, o := range soft[1:] {
			if o.Key != res.Key {
				res.Detail += "\nalso in this session: " + o.Key
			}
		}
		res.Obs, res.Tags = obs, tl
		return res
	}
	return mon.Result{Verdict: mon.Held, NonTrivial: nontrivial, Obs: obs, Tags: tl,
		Sample: map[string]interface{}{"version": s.Version, "replies": len(s.Replies), "transport": devsim.Summary(conn.Log()),
			"first_result": clipS(TrimPayload([]byte(s.Replies[0].Payload))), "note": s.Note}}
}

// inputClass computes, from the input and the segmentation only, the class key of the predicted
// finding classes; "" for ordinary inputs.
func inputClass(s DrvSession, i int, sp span, log []devsim.Event) string {
	rp := s.Replies[i]
	raw := rp.frame(s.Version)
	if s.Version == "1.1" && !wireOK11(raw) {
		// the receive buffer is searched for (?m)^##$ after every read: a read that ends while the
		// buffer holds a line equal to "##" (up to a LF or up to the end of the buffer) cuts the reply
		boundary := func(lo, hi int) bool {
			for _, e := range log {
				if e.Kind == "read" && e.Delivered >= sp.start+lo && e.Delivered <= sp.start+hi {
					return true
				}
			}
			return false
		}
		body := raw[:len(raw)-4]
		off := 0
		for {
			k := bytes.Index(body[off:], []byte("\n##"))
			if k < 0 {
				break
			}
			b := off + k + 3
			if b < len(raw) && raw[b] == '\n' {
				// a data line equal to "##": any read boundary from here up to 2 bytes before the end
				if boundary(b, len(raw)-2) {
					return "c02/frame-boundary-regex:line-equals-##"
				}
			} else if boundary(b, b) {
				return "c02/frame-boundary-regex:read-ends-after-##"
			}
			off = b
		}
		return ""
	}
	if s.Version == "1.0" && i > 0 && s.Replies[i-1].LFAfter && strings.HasPrefix(rp.Payload, Decl) {
		// was the LF that follows the previous delimiter delivered by a read of its own?
		for _, e := range log {
			if e.Kind == "read" && e.Delivered == sp.start-1 {
				// and nothing (no echo) lies between the two replies
				if !s.Echo {
					return "c02/xml-declaration-kept:1.0-lf-after-delimiter-read-separately"
				}
			}
		}
	}
	return ""
}

func readsOf(log []devsim.Event, sp span) string {
	var parts []string
	for _, e := range log {
		if e.Kind == "read" && e.Delivered > sp.start && e.Delivered <= sp.end {
			parts = append(parts, strconv.Itoa(e.N))
		}
	}
	if len(parts) > 60 {
		return fmt.Sprintf("%d reads, sizes %s …", len(parts), strings.Join(parts[:60], ","))
	}
	return fmt.Sprintf("%d reads, sizes %s", len(parts), strings.Join(parts, ","))
}

func tail(l []devsim.Event, n int) []devsim.Event {
	if len(l) > n {
		l = l[len(l)-n:]
	}
	for i := range l {
		if len(l[i].Data) > 120 {
			l[i].Data = l[i].Data[:120] + "…"
		}
	}
	return l
}

func errClass(err error) string {
	s := err.Error()
	if i := strings.IndexByte(s, ':'); i > 0 {
		return s[:i]
	}
	if len(s) > 40 {
		return s[:40]
	}
	return s
}
