package c02

import (
	"bytes"
	"encoding/xml"
	"io"
	"strings"
)

// This file is the trusted base of the C02 decoder-level oracle: a tolerant reference decoder for
// RFC 6242 chunked framing and the "trimmed payload" function. It shares no code with the library
// and deliberately does not use bytes.TrimSpace / strconv.

// Decl is the only spelling of the XML declaration that is explored (the library's own).
const Decl = `<?xml version="1.0" encoding="UTF-8"?>`

// requireLFBeforeHeader selects how strict the reference is about the LF that RFC 6242 puts in
// front of every "#": false = zero or more LFs (the size-driven structure alone decides; this is
// the setting used, see the report), true = at least one LF in front of every header but the first.
const requireLFBeforeHeader = false

func isWS(c byte) bool {
	return c == ' ' || c == '\t' || c == '\n' || c == '\v' || c == '\f' || c == '\r'
}

func trimWS(b []byte) []byte {
	i, j := 0, len(b)
	for i < j && isWS(b[i]) {
		i++
	}
	for j > i && isWS(b[j-1]) {
		j--
	}
	return b[i:j]
}

// TrimPayload is what Result must be for a reply payload: declaration (only at the very start)
// removed, then surrounding whitespace removed.
func TrimPayload(p []byte) string {
	if len(p) >= len(Decl) && string(p[:len(Decl)]) == Decl {
		p = p[len(Decl):]
	}
	return string(trimWS(p))
}

// RefDecode is the tolerant reference decoder:
//
//	input   = *WS *LF frame            (surrounding whitespace is the caller's to trim)
//	frame   = *( *LF "#" size LF data ) *LF "##" anything
//	size    = 1*10 DIGIT, value > 0    (leading zeros tolerated, no sign, no blanks)
//	data    = exactly size bytes, all present
//
// It returns the concatenated chunk data, or ok=false with the reason.
func RefDecode(raw []byte) (payload []byte, ok bool, why string) {
	i := 0
	for i < len(raw) && isWS(raw[i]) {
		i++
	}
	if i >= len(raw) || raw[i] != '#' {
		return nil, false, "no chunk marker at start"
	}
	first := true
	for {
		lf := 0
		for i < len(raw) && raw[i] == '\n' {
			i++
			lf++
		}
		if requireLFBeforeHeader && !first && lf == 0 {
			return nil, false, "no LF before chunk header"
		}
		first = false
		if i >= len(raw) {
			return nil, false, "end-of-chunks marker missing"
		}
		if raw[i] != '#' {
			return nil, false, "chunk marker missing"
		}
		i++
		if i >= len(raw) {
			return nil, false, "data ends inside a chunk header"
		}
		if raw[i] == '#' {
			return payload, true, ""
		}
		j := i
		var size uint64
		for j < len(raw) && raw[j] >= '0' && raw[j] <= '9' && j-i <= 10 {
			size = size*10 + uint64(raw[j]-'0')
			j++
		}
		nd := j - i
		if nd == 0 || nd > 10 {
			return nil, false, "chunk size is not 1-10 decimal digits"
		}
		if j >= len(raw) || raw[j] != '\n' {
			return nil, false, "chunk size not terminated by LF"
		}
		if size == 0 {
			return nil, false, "chunk size zero"
		}
		i = j + 1
		if size > uint64(len(raw)-i) {
			return nil, false, "chunk data missing"
		}
		payload = append(payload, raw[i:i+int(size)]...)
		i += int(size)
	}
}

// errorOpeners are the three exact spellings used for payloads that are not well-formed XML.
var errorOpeners = []string{"<rpc-error>", "<rpc-errors>", "<nc:rpc-error>"}

// errorMarkers is every byte string whose presence the classification may legitimately key on.
var errorMarkers = []string{"<rpc-error>", "<rpc-errors>", "<nc:rpc-error>", "</rpc-error>", "</rpc-errors>", "</nc:rpc-error>"}

// CarriesError reports whether the payload carries an rpc-error. For a payload that is well-formed
// XML a real tokenizer (encoding/xml) decides: some element's local name is rpc-error (any prefix,
// any attributes, any white space in the tags; text, CDATA and comments do not count). The PRNG text
// payloads are not well-formed; for them the three exact opening spellings decide.
func CarriesError(p []byte) bool {
	if n, wf := xmlErrorElements(p); wf {
		return n > 0
	}
	for _, m := range errorOpeners {
		if bytes.Contains(p, []byte(m)) {
			return true
		}
	}
	return false
}

// xmlErrorElements tokenizes p; wellFormed is false if p is not a well-formed XML document.
func xmlErrorElements(p []byte) (n int, wellFormed bool) {
	d := xml.NewDecoder(bytes.NewReader(p))
	d.Strict = true
	roots, depth := 0, 0
	for {
		tok, err := d.Token()
		if err == io.EOF {
			return n, roots == 1 && depth == 0
		}
		if err != nil {
			return 0, false
		}
		switch t := tok.(type) {
		case xml.StartElement:
			if depth == 0 {
				roots++
			}
			depth++
			if t.Name.Local == "rpc-error" || t.Name.Local == "rpc-errors" {
				n++
			}
		case xml.EndElement:
			depth--
		}
	}
}

// anyMarkerIn reports whether any opening or closing marker occurs contiguously in b.
func anyMarkerIn(b []byte) bool {
	for _, m := range errorMarkers {
		if bytes.Contains(b, []byte(m)) {
			return true
		}
	}
	return false
}

func containsAny(s string, subs ...string) bool {
	for _, x := range subs {
		if strings.Contains(s, x) {
			return true
		}
	}
	return false
}
