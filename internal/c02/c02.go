// Package c02: NETCONF replies decode to exactly the payload, or are explicitly failed.
//
// Two levels: the public decoder API (response.NetconfResponse.Record) on legal frames, on an
// exhaustive enumeration of short byte strings and on mutated frames, judged against an independent
// tolerant reference decoder (ref.go); and the real netconf.Driver over the devsim transport model
// with the ncsim server model, all segmentation policies and forced read boundaries (drv.go).
package c02

import (
	"fmt"
	"math/rand"
	"strconv"
	"strings"
	"time"

	"verif/internal/mon"
	"verif/internal/ncwire"
)

// Desc is the case descriptor (one of the kinds).
type Desc struct {
	Kind string `json:"kind"` // enum | legal | mut | drv | witness
	// enum: strings number Start … Start+Count-1 of the enumeration of all strings over EnumAlphabet
	// with length <= MaxLen (lengths ascending)
	MaxLen int   `json:"max_len,omitempty"`
	Start  int64 `json:"start,omitempty"`
	Count  int64 `json:"count,omitempty"`
	// legal / mut: a batch that is a pure function of Seed and N
	Seed int64 `json:"seed,omitempty"`
	N    int   `json:"n,omitempty"`
	Big  bool  `json:"big,omitempty"`
	// witness: one explicit input (Go-quoted), optionally with the payload it legally frames
	Version  string `json:"version,omitempty"`
	RawQ     string `json:"raw_quoted,omitempty"`
	PayloadQ string `json:"payload_quoted,omitempty"`
	// errforms: which part of the enumerated rpc-error form list
	Part string `json:"part,omitempty"`
	// drv
	Drv *DrvSession `json:"drv,omitempty"`
}

type bounds struct {
	enumLen, enumBatch      int
	legal, legalBatch, bigs int
	mut, mutBatch           int
	bigSessions             int
	defectSessions          int
	drvReplies, drvBig      int
}

func boundsOf(tier string) bounds {
	if tier == "thorough" {
		return bounds{enumLen: 7, enumBatch: 8000, legal: 200000, legalBatch: 400, bigs: 24, mut: 200000, mutBatch: 2000, drvReplies: 20000, drvBig: 60, bigSessions: 150, defectSessions: 400}
	}
	return bounds{enumLen: 6, enumBatch: 4000, legal: 8000, legalBatch: 100, bigs: 3, mut: 6000, mutBatch: 250, drvReplies: 1000, drvBig: 4, bigSessions: 24, defectSessions: 36}
}

// fixed witnesses: the inputs named in KNOWN_FINDINGS (repaired by 2ef9ad1) and a few boundary ones.
var rawWitnesses = []struct{ v, raw string }{
	{"1.1", "#"}, {"1.1", "#12"}, {"1.1", "#100\nabc"}, {"1.1", "#-5\nabc\n##"}, {"1.1", "#3\nabc\n#"}, {"1.1", "#3\nabc"},
	{"1.1", ""}, {"1.1", "\n"}, {"1.1", "##"}, {"1.1", "#3\nabc\n##"}, {"1.1", "\n#3\nabc\n##\n"}, {"1.1", "#4294967295\nabc\n##"},
	{"1.1", "#9223372036854775807\nabc\n##"}, {"1.1", "#0000000003\nabc\n##"}, {"1.1", "#00000000003\nabc\n##"},
	{"1.1", "#+3\nabc\n##"}, {"1.1", "#3\nabc##"}, {"1.1", "#1\na#2\nbc\n##"},
	{"1.0", ""}, {"1.0", "]]>]]>"}, {"1.0", "]]>"}, {"1.0", Decl}, {"1.0", Decl + "]]>]]>"},
}

// legalWitnesses: minimal legal 1.1 frames for the classification clauses (cut positions relative to
// the named anchor text).
func legalWitnesses() (out []Desc) {
	p := `<rpc-reply message-id="101"><rpc-error><error-severity>error</error-severity><error-message>no</error-message></rpc-error></rpc-reply>`
	at := func(anchor string, d int) int { return strings.Index(p, anchor) + d }
	for _, cuts := range [][]int{
		{at("<rpc-error>", 4), at("</rpc-error>", 4)}, // every marker split by a chunk header
		{at("<error-message>", 16)},                   // markers intact, a chunk edge inside the element
		{at("<rpc-error>", 4)},                        // opening marker split only
		nil,
	} {
		raw := ncwire.EncodeChunked([]byte(p), ncwire.Partition(len(p), cuts))
		out = append(out, Desc{Kind: "witness", Version: "1.1", RawQ: strconv.Quote(string(raw)), PayloadQ: strconv.Quote(p)})
	}
	return out
}

func gen(tier string, seed int64) []mon.Case {
	b := boundsOf(tier)
	r := rand.New(rand.NewSource(seed*104729 + 2))
	var cs []mon.Case
	// driver level first (longest cases)
	for k := 0; k < b.bigSessions; k++ {
		s := GenBigSession(r, k)
		cs = append(cs, mon.MkCase(fmt.Sprintf("c02/bigbuf/%04d", k), Desc{Kind: "drv", Drv: &s}))
	}
	for k := 0; k < b.defectSessions; k++ {
		s := GenDefectSession(r, k)
		cs = append(cs, mon.MkCase(fmt.Sprintf("c02/defect/%04d", k), Desc{Kind: "drv", Drv: &s}))
	}
	for k, hs := range HashSessions() {
		hs := hs
		cs = append(cs, mon.MkCase(fmt.Sprintf("c02/hash/%02d", k), Desc{Kind: "drv", Drv: &hs}))
	}
	for k, rs := range ReqOptSessions() {
		rs := rs
		cs = append(cs, mon.MkCase(fmt.Sprintf("c02/reqopts/%02d", k), Desc{Kind: "drv", Drv: &rs}))
	}
	for k, es := range EchoWalkSessions() {
		es := es
		cs = append(cs, mon.MkCase(fmt.Sprintf("c02/echowalk/%02d", k), Desc{Kind: "drv", Drv: &es}))
	}
	for k, ds := range DeclSessions() {
		ds := ds
		cs = append(cs, mon.MkCase(fmt.Sprintf("c02/decl/%02d", k), Desc{Kind: "drv", Drv: &ds}))
	}
	replies, i, bigs := 0, 0, 0
	for replies < b.drvReplies {
		s := GenDrvSession(r, bigs < b.drvBig && i%7 == 3)
		if i%7 == 3 {
			bigs++
		}
		replies += len(s.Replies)
		cs = append(cs, mon.MkCase(fmt.Sprintf("c02/drv/%05d", i), Desc{Kind: "drv", Drv: &s}))
		i++
	}
	for k, w := range rawWitnesses {
		cs = append(cs, mon.MkCase(fmt.Sprintf("c02/witness/%02d", k), Desc{Kind: "witness", Version: w.v, RawQ: strconv.Quote(w.raw)}))
	}
	for k, w := range legalWitnesses() {
		cs = append(cs, mon.MkCase(fmt.Sprintf("c02/witness-legal/%02d", k), w))
	}
	for _, part := range []string{"end-tag-plain", "end-tag-whitespace", "self-closing", "decoys", "literal-decoys"} {
		cs = append(cs, mon.MkCase("c02/errforms/"+part, Desc{Kind: "errforms", Part: part}))
	}
	total := EnumTotal(b.enumLen)
	for k, st := 0, int64(0); st < total; k, st = k+1, st+int64(b.enumBatch) {
		n := int64(b.enumBatch)
		if st+n > total {
			n = total - st
		}
		cs = append(cs, mon.MkCase(fmt.Sprintf("c02/enum/%04d", k), Desc{Kind: "enum", MaxLen: b.enumLen, Start: st, Count: n}))
	}
	for k := 0; k*b.legalBatch < b.legal; k++ {
		cs = append(cs, mon.MkCase(fmt.Sprintf("c02/legal/%04d", k), Desc{Kind: "legal", Seed: r.Int63(), N: b.legalBatch}))
	}
	for k := 0; k < b.bigs; k++ {
		cs = append(cs, mon.MkCase(fmt.Sprintf("c02/legal-big/%03d", k), Desc{Kind: "legal", Seed: r.Int63(), N: 2, Big: true}))
	}
	for k := 0; k*b.mutBatch < b.mut; k++ {
		cs = append(cs, mon.MkCase(fmt.Sprintf("c02/mut/%04d", k), Desc{Kind: "mut", Seed: r.Int63(), N: b.mutBatch}))
	}
	return cs
}

func run(c mon.Case) mon.Result {
	var d Desc
	c.Decode(&d)
	switch d.Kind {
	case "enum":
		return runEnum(d.Start, d.Count)
	case "legal":
		return runLegal(d.Seed, d.N, d.Big)
	case "mut":
		return runMut(d.Seed, d.N)
	case "errforms":
		return runErrForms(d.Part)
	case "witness":
		return runWitness(d.Version, d.RawQ, d.PayloadQ)
	case "drv":
		return RunDrv(*d.Drv)
	}
	return mon.Result{Verdict: mon.Violated, Key: "c02/harness-selfcheck", Detail: "unknown case kind " + d.Kind}
}

func init() {
	mon.Register(&mon.Property{
		ID:    "C02",
		Level: "exploration",
		Rule: "Decoder level (response.NetconfResponse.Record, public API, versions 1.0 and 1.1): (1) every string over {'#',LF,'1','9','-','x',' '} up to length 6 (quick) / 7 (thorough), " +
			"in batches; (2) PRNG legal frames: payloads with multi-byte UTF-8, '#', digits, LFs, chunk-header look-alikes, XML declaration present/absent, rpc-error variants, " +
			"encoded by the strict ncwire codec under PRNG chunk partitions (1 chunk … all chunks of size 1; edges forced onto '#', digits, LF, into runes, into message-id=\"…\", into rpc-error markers); " +
			"(3) mutated frames (truncation at every byte, size ±1/huge/negative/non-numeric/11 digits/zero, missing/doubled '#', missing LF, missing end marker, garbage after it). " +
			"Driver level: real netconf.Driver over devsim.Conn + ncsim server, 1.0 and 1.1, Get/RPC/GetConfig, all segmentation policies plus forced read boundaries inside chunk headers, " +
			"end markers and delimiters and between ]]>]]> and the LF that follows it; no read carries bytes of two server messages. Dedicated sub-families with placed read boundaries and controls: " +
			"'bigbuf' (5-10 replies of 64-300 KiB per session, one huge chunk / 4 KiB chunks / PRNG chunkings, each followed at once by a notification or an unsolicited old-id reply, read delay 0/50/250 us), " +
			"'defect' (1.1 sessions of 4-7 replies in which some replies have a defective chunk header - non-numeric, zero, too small, too large, negative, empty size - but end in the end-of-chunks marker, " +
			"each followed by legal replies: the defective one must return Failed with a parse error and empty Result, not a time-out, and the later ones must decode), " +
			"'reqopts' (full factorial exclude-header x force-self-closing-tags x preferred-version x version x echo off/marked/nomark/held; PRNG sessions draw the same options), " +
			"'errforms' (every rpc-error opening-tag form x prefix x closing form, decoys; 1.0 and 1.1 in 1/7/all-byte chunks), " +
			"'echowalk' (echoing server, no mark between echo and reply, whitespace-rich reply sent right after the request's last write; the read that completes the echo ends after k bytes of the framed reply, for every k, 1.0 and 1.1), " +
			"'hash' (1.1 data lines / chunks starting with or equal to '##') and 'decl' (1.0, LF after the delimiter in a read of its own, next reply with declaration); fixed witness inputs. " +
			"Non-trivial = (enum/mutation batch) the reference accepted at least one and rejected at least one input; (legal batch) at least one multi-chunk frame; " +
			"(driver session) a read that carries echo bytes and reply bytes, a read boundary strictly inside a chunk header, the end-of-chunks marker or the 1.0 delimiter, a reply >= 64 KiB followed at once by another server message, or a legal reply decoded after a defective one on the same session. Distinct = distinct descriptor hash.",
		Assumptions: []string{
			"payload alphabet excludes CR and ESC (the channel strips them by design); payloads are valid UTF-8",
			"the XML declaration, when present, is spelled exactly <?xml version=\"1.0\" encoding=\"UTF-8\"?> and is the first bytes of the payload",
			"1.0 payloads never contain ]]>]]> and payload+delimiter contains the delimiter only at the end; payloads never contain </rpc>; the reply's own message-id attribute is the first message-id=\"…\" text of the payload; about a third of the payloads hold <hello>…</hello>, <capability>, <session-id>7</session-id>, <subscription-id>5</subscription-id>, message-id=\"9\" as data",
			"driver level, ordinary families: the framed 1.1 reply contains LF## only as the end-of-chunks marker (checked by brute force on the wire bytes; violating inputs are generated only in the dedicated 'hash' family)",
			"driver level: a read never carries bytes of two server messages (devsim marks); the LF some servers send after ]]>]]> belongs to the message it follows",
			"tolerant reference (trusted base, ref.go ~70 lines) defines 'malformed' for arbitrary bytes: leading whitespace skipped; ZERO or more LFs before each '#' (loosened from RFC 6242's exactly one: " +
				"`#1\\nx##` and `#1\\nx#1\\ny\\n##` are accepted, the data returned is exactly the chunk data); size = 1-10 decimal digits, > 0, no sign, leading zeros tolerated; all chunk data present; " +
				"'##' required, bytes after it ignored; zero chunks tolerated (`##` alone decodes to the empty result, not failed)",
			"'carries an rpc-error': for payloads that are well-formed XML (a third of all payloads; rpc-error elements with attributes, namespace declarations, prefixes, white space in tags, 0-3 per reply) an encoding/xml tokenizer decides (some element's local name is rpc-error); the PRNG text payloads are not well-formed, for them the exact spellings <rpc-error>, <rpc-errors>, <nc:rpc-error> decide",
			"'bigbuf' replies are a pure function of (big_seed, big_len, chunk_plan, message-id, version) in the descriptor, not spelled out",
			"decoder-level legal/mutation batches are a pure function of the (seed, n) in the descriptor; failing inputs are written out in full in the replay file",
		},
		Gen: gen,
		Run: run,
		Workers: func(tier string) int {
			if tier == "thorough" {
				return 12
			}
			return 8
		},
		Parallel:    func(string) int { return 4 },
		CaseTimeout: 300 * time.Second,
	})
}
