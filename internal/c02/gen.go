package c02

import (
	"bytes"
	"fmt"
	"math/rand"
	"sort"
	"strings"

	"verif/internal/ncwire"
)

// ---- payloads -----------------------------------------------------------------------------------

const asciiAlpha = "abcdefghijklmnopqrstuvwxyzABCDEFXYZ0123456789 #<>/=\"'_-.:;,()[]{}&!?*+|~@$%^\\\t"

var mbRunes = []string{"é", "→", "日", "😀", "ü", "Ж"}

// forbidden never occurs in a generated payload body (brute-force checked; resampled otherwise).
var forbidden = []string{"]]>]]>", "</rpc>", "message-id", "</subscription-id>", "\r", "\x1b", "<?xml",
	"<rpc-error>", "<rpc-errors>", "<nc:rpc-error>", "</rpc-error>", "</rpc-errors>", "</nc:rpc-error>"}

func randASCII(r *rand.Rand, n int) string {
	b := make([]byte, n)
	for i := range b {
		b[i] = asciiAlpha[r.Intn(len(asciiAlpha))]
	}
	return string(b)
}

// genText draws about n bytes of text rich in '#', digits, newlines and multi-byte runes.
// hashLines: lines may start with "##" (decoder level only).
func genText(r *rand.Rand, n int, hashLines bool) string {
	buf := make([]byte, 0, n+64)
	for len(buf) < n {
		var f string
		switch r.Intn(12) {
		case 0, 1, 2:
			f = randASCII(r, 1+r.Intn(40))
		case 3:
			for k := 1 + r.Intn(3); k > 0; k-- {
				f += mbRunes[r.Intn(len(mbRunes))]
			}
		case 4:
			f = []string{"#", "##", "###", "#1", "#12\n", "\n#5\n", "\n#", "#\n", "x##", "\n #", "##\n"}[r.Intn(11)]
		case 5:
			f = fmt.Sprint(r.Intn(100000))
		case 6:
			f = strings.Repeat("\n", 1+r.Intn(3))
		case 7:
			f = []string{"<x>", "</x>", `<leaf a="1">`, "<a/>", "<b:c>", "</b:c>", "&lt;", "]]>"}[r.Intn(8)]
		case 8:
			f = "\n" + strings.Repeat(" ", r.Intn(6))
		case 9:
			f = randASCII(r, 1+r.Intn(3))
		case 10:
			f = "\n" + fmt.Sprint(r.Intn(1000)) + "\n"
		default:
			f = mbRunes[r.Intn(len(mbRunes))] + "\n" + mbRunes[r.Intn(len(mbRunes))]
		}
		old := len(buf)
		buf = append(buf, f...)
		from := old - 20
		if from < 0 {
			from = 0
		}
		// preconditions by brute force on the seam: no forbidden text; no line starting with "##"
		tail := string(buf[from:])
		if containsAny(tail, forbidden...) ||
			(!hashLines && (strings.Contains(tail, "\n##") || (from == 0 && strings.HasPrefix(tail, "##")))) {
			buf = buf[:old]
		}
	}
	return string(buf)
}

// fixHashLines makes sure no line starts with "##".
func fixHashLines(s string) string {
	for strings.HasPrefix(s, "##") {
		s = "." + s
	}
	for strings.Contains(s, "\n##") {
		s = strings.ReplaceAll(s, "\n##", "\n#.#")
	}
	return s
}

// collisions are element names / texts the library's read loop and open sequence scan for.
var collisions = []string{
	"<hello>x</hello>", "<hello/>", "</hello>", "<nc:hello>y</nc:hello>",
	`<hello xmlns="urn:ietf:params:xml:ns:netconf:base:1.0"><capabilities><capability>urn:ietf:params:netconf:base:1.1</capability></capabilities><session-id>7</session-id></hello>`,
	"<capability>urn:ietf:params:netconf:base:1.0</capability>", "<capabilities>", "<session-id>7</session-id>", "<nc:session-id>8</nc:session-id>",
	"<subscription-id>5</subscription-id>", `message-id="9"`, ` message-id="1" `, "<rpc>", "<rpc-reply>", "</rpc-reply>", "</hello>\n", "<hello>\n]]>",
}

// genPretty draws a pretty-printed, whitespace-rich body of about n bytes.
func genPretty(r *rand.Rand, n int) string {
	var b strings.Builder
	depth := 1
	for b.Len() < n {
		ind := strings.Repeat([]string{"  ", "\t", "    "}[r.Intn(3)], depth)
		switch r.Intn(7) {
		case 0:
			b.WriteString(ind + "<c" + fmt.Sprint(r.Intn(9)) + ">")
			if depth < 6 {
				depth++
			}
		case 1:
			if depth > 1 {
				depth--
			}
			b.WriteString(ind + "</c>")
		case 2:
			// blank / whitespace-only line
			b.WriteString(strings.Repeat(" ", r.Intn(5)))
		default:
			b.WriteString(ind + "<leaf> " + randASCIIWord(r) + " </leaf>")
		}
		b.WriteString([]string{"", "", " ", "  ", "\t", " \t "}[r.Intn(6)]) // trailing blanks
		b.WriteString([]string{"\n", "\n", "\n\n"}[r.Intn(3)])
	}
	return "\n" + b.String()
}

func randASCIIWord(r *rand.Rand) string {
	const a = "abcdefghijklmnopqrstuvwxyz0123456789-_./ "
	b := make([]byte, 1+r.Intn(20))
	for i := range b {
		b[i] = a[r.Intn(len(a))]
	}
	return string(b)
}

// ---- well-formed XML replies with rpc-error elements in every lexical form ----------------------------

const baseNS = "urn:ietf:params:xml:ns:netconf:base:1.0"

func xmlEscape(s string) string {
	s = strings.ReplaceAll(s, "&", "&amp;")
	s = strings.ReplaceAll(s, "<", "&lt;")
	return strings.ReplaceAll(s, ">", "&gt;")
}

// ErrForm is the lexical form of one rpc-error element.
type ErrForm struct {
	Prefix   string // "", "nc", "ns0", "netconf"
	Open     string // what stands between the element name and '>' of the opening tag
	OpenName string // short name of Open for tags/keys
	CloseWS  string // white space before '>' of the closing tag
	Severity string
}

func (f ErrForm) String() string {
	s := "open=" + f.OpenName
	if f.Prefix != "" {
		s += ",prefix=" + f.Prefix
	}
	if f.CloseWS != "" {
		s += ",close=ws"
	}
	return s
}

var errOpenForms = []struct{ name, text string }{
	{"bare", ""}, {"bare", ""},
	{"xmlns", ` xmlns="` + baseNS + `"`},
	{"xmlns-prefix-decl", ` xmlns:acme="http://acme.example/ns"`},
	{"ws", " "}, {"ws-lf", "\n"}, {"ws-lf-indent", "\n    "},
	{"xmlns-ws", "\n  xmlns=\"" + baseNS + "\"\n"},
	{"attr-single-quotes", ` xmlns='` + baseNS + `'`},
	{"two-attrs", ` xmlns="` + baseNS + `" xmlns:acme="http://acme.example/ns"`},
}

// GenErrForm draws a lexical form.
func GenErrForm(r *rand.Rand) ErrForm {
	f := ErrForm{Severity: []string{"error", "error", "warning"}[r.Intn(3)]}
	f.Prefix = []string{"", "", "", "nc", "nc", "ns0", "netconf"}[r.Intn(7)]
	o := errOpenForms[r.Intn(len(errOpenForms))]
	f.Open, f.OpenName = o.text, o.name
	if f.Prefix != "" && strings.Contains(f.Open, `xmlns="`) {
		f.Open = strings.ReplaceAll(f.Open, `xmlns="`, "xmlns:"+f.Prefix+`="`)
	}
	if f.Prefix != "" && strings.Contains(f.Open, `xmlns='`) {
		f.Open = strings.ReplaceAll(f.Open, `xmlns='`, "xmlns:"+f.Prefix+`='`)
	}
	// white space in END tags (known finding c02/failed-unset:no-literal-marker:closing-tag-whitespace) is
	// explored by the enumerated witness list (runErrForms) only
	return f
}

// Render writes the element; the prefix, if any, is declared on the element itself unless its
// opening form already declares it (then rootDecl tells the caller nothing is needed).
func (f ErrForm) Render(r *rand.Rand, msg string) (elem string, needsRootDecl bool) {
	q := func(n string) string {
		if f.Prefix != "" {
			return f.Prefix + ":" + n
		}
		return n
	}
	needsRootDecl = f.Prefix != "" && !strings.Contains(f.Open, "xmlns:"+f.Prefix+"=")
	var b strings.Builder
	b.WriteString("<" + q("rpc-error") + f.Open + ">")
	nl := []string{"", "\n", "\n  "}[r.Intn(3)]
	b.WriteString(nl + "<" + q("error-type") + ">" + []string{"application", "protocol", "rpc", "transport"}[r.Intn(4)] + "</" + q("error-type") + ">")
	b.WriteString(nl + "<" + q("error-tag") + ">invalid-value</" + q("error-tag") + ">")
	b.WriteString(nl + "<" + q("error-severity") + ">" + f.Severity + "</" + q("error-severity") + ">")
	if r.Intn(3) == 0 {
		b.WriteString(nl + "<" + q("error-path") + ` xmlns:if="urn:example:if">/if:interfaces/if:interface[if:name='eth0']</` + q("error-path") + ">")
	}
	b.WriteString(nl + "<" + q("error-message") + []string{"", ` xml:lang="en"`}[r.Intn(2)] + ">" + xmlEscape(msg) + "</" + q("error-message") + ">")
	switch r.Intn(4) {
	case 0:
		b.WriteString(nl + "<" + q("error-info") + "/>")
	case 1:
		b.WriteString(nl + "<" + q("error-info") + "><bad-element>mtu</bad-element></" + q("error-info") + ">")
	}
	b.WriteString(nl + "</" + q("rpc-error") + f.CloseWS + ">")
	return b.String(), needsRootDecl
}

// decoys look like rpc-error markers to a substring search but are not rpc-error elements.
var decoys = []struct{ name, text string }{
	{"escaped-text", "<note>&lt;rpc-error&gt; &lt;/rpc-error&gt;</note>"},
	{"longer-element-name", "<rpc-error-count>3</rpc-error-count>"},
	{"other-element-name", "<my-rpc-error>x</my-rpc-error>"},
	{"attribute-value", `<note about="rpc-error">y</note>`},
}

// literalDecoys carry a literal marker inside CDATA / a comment (legal XML, not an element).
var literalDecoys = []struct{ name, text string }{
	{"cdata", "<note><![CDATA[<rpc-error>]]></note>"},
	{"comment", "<!-- </rpc-error> -->"},
}

// genXMLReply draws a well-formed rpc-reply of about n bytes with nErr rpc-error elements.
func genXMLReply(r *rand.Rand, id, n, nErr int, hashLines, literal bool) (payload string, variant string) {
	var forms []string
	rootDecl := map[string]bool{}
	var parts []string
	size := 0
	for size < n {
		name := "leaf" + fmt.Sprint(r.Intn(9))
		p := "<" + name + ">" + xmlEscape(genText(r, 1+r.Intn(60), hashLines)) + "</" + name + ">"
		parts = append(parts, p)
		size += len(p)
	}
	for i := 0; i < nErr; i++ {
		f := GenErrForm(r)
		e, need := f.Render(r, genText(r, r.Intn(40), hashLines))
		if need {
			rootDecl[f.Prefix] = true
		}
		forms = append(forms, f.String())
		k := r.Intn(len(parts) + 1)
		parts = append(parts[:k], append([]string{e}, parts[k:]...)...)
	}
	if r.Intn(3) == 0 {
		dcy := decoys[r.Intn(len(decoys))]
		forms = append(forms, "decoy="+dcy.name)
		k := r.Intn(len(parts) + 1)
		parts = append(parts[:k], append([]string{dcy.text}, parts[k:]...)...)
	}
	if literal {
		dcy := literalDecoys[r.Intn(len(literalDecoys))]
		forms = append(forms, "literal-decoy="+dcy.name)
		k := r.Intn(len(parts) + 1)
		parts = append(parts[:k], append([]string{dcy.text}, parts[k:]...)...)
	}
	sep := []string{"", "\n", "\n  "}[r.Intn(3)]
	open := `<rpc-reply xmlns="` + baseNS + `" ` + fmt.Sprintf(`message-id="%d"`, id)
	if r.Intn(4) == 0 {
		open = fmt.Sprintf(`<rpc-reply message-id="%d" xmlns="`, id) + baseNS + `"`
	}
	var pfx []string
	for p := range rootDecl {
		pfx = append(pfx, p)
	}
	sort.Strings(pfx)
	for _, p := range pfx {
		open += " xmlns:" + p + `="` + baseNS + `"`
	}
	body := sep + strings.Join(parts, sep) + sep
	if !hashLines {
		body = fixHashLines(body)
	}
	variant = "xml:none"
	if len(forms) > 0 {
		variant = "xml:" + strings.Join(forms, "+")
	}
	return open + ">" + body + "</rpc-reply>", variant
}

var errVariants = []string{"none", "none", "none", "rpc-error/error", "rpc-error/warning", "rpc-errors", "nc:rpc-error", "two"}

func errElem(r *rand.Rand, variant string, hashLines bool) string {
	msg := genText(r, r.Intn(40), hashLines)
	body := func(sev string) string {
		return "<error-type>application</error-type><error-tag>invalid-value</error-tag><error-severity>" + sev +
			"</error-severity><error-message>" + msg + "</error-message>"
	}
	switch variant {
	case "rpc-error/error":
		return "<rpc-error>" + body("error") + "</rpc-error>"
	case "rpc-error/warning":
		return "<rpc-error>" + body("warning") + "</rpc-error>"
	case "rpc-errors":
		return "<rpc-errors>" + body("error") + "</rpc-errors>"
	case "nc:rpc-error":
		return "<nc:rpc-error>" + body("error") + "</nc:rpc-error>"
	case "two":
		return "<rpc-error>" + body("error") + "</rpc-error>\n<rpc-error>" + body("warning") + "</rpc-error>"
	}
	return ""
}

// PayloadCfg selects the shape of a payload.
type PayloadCfg struct {
	ID        int  // message-id (0: no rpc-reply wrapper, bare text)
	BodyLen   int  // approximate
	HashLines bool // lines may start with "##"
	V10       bool // will be framed with the end-of-message delimiter
	XML       bool // force a well-formed XML reply (rpc-error elements in every lexical form)
	XMLErrs   int  // with XML: exactly this many rpc-error elements (0: PRNG 0..3)
	// XMLLiteralDecoy adds a literal rpc-error marker inside CDATA / a comment (dedicated witnesses only)
	XMLLiteralDecoy bool
	Pretty          bool // whitespace-rich body: pretty-printed, indented, trailing blanks, blank lines
	Collide         bool // body holds elements/texts that collide with tokens the library scans for
}

// GenPayload draws a payload: [declaration] ws <rpc-reply message-id> body [rpc-error variant] </rpc-reply> ws.
func GenPayload(r *rand.Rand, cfg PayloadCfg) (p string, variant string) {
	for {
		var b strings.Builder
		hasDecl := r.Intn(2) == 0
		if hasDecl {
			b.WriteString(Decl)
			b.WriteString([]string{"", "\n", "\n  ", " "}[r.Intn(4)])
		} else {
			b.WriteString([]string{"", "", "\n", "  ", "\n\t "}[r.Intn(5)])
		}
		if cfg.ID > 0 && !cfg.Pretty && !cfg.Collide && (cfg.XML || r.Intn(3) == 0) {
			nErr := []int{0, 0, 1, 1, 1, 2, 3}[r.Intn(7)]
			if cfg.XMLErrs > 0 {
				nErr = cfg.XMLErrs
			}
			var x string
			x, variant = genXMLReply(r, cfg.ID, cfg.BodyLen, nErr, cfg.HashLines, cfg.XMLLiteralDecoy)
			b.WriteString(x)
			b.WriteString([]string{"", "\n", " \n\t ", "\n\n", " "}[r.Intn(5)])
			p = b.String()
			if !cfg.HashLines && (strings.Contains(p, "\n##") || strings.HasPrefix(p, "##")) {
				continue
			}
			if cfg.V10 && strings.Index(p+ncwire.EOM, ncwire.EOM) != len(p) {
				continue
			}
			return p, variant
		}
		variant = errVariants[r.Intn(len(errVariants))]
		body := genText(r, cfg.BodyLen, cfg.HashLines)
		if cfg.Pretty {
			body = genPretty(r, cfg.BodyLen)
		}
		if cfg.Collide {
			for n := 1 + r.Intn(3); n > 0; n-- {
				k := r.Intn(len(body) + 1)
				for k > 0 && k < len(body) && body[k]&0xC0 == 0x80 {
					k--
				}
				body = body[:k] + collisions[r.Intn(len(collisions))] + body[k:]
			}
		}
		if variant != "none" {
			k := r.Intn(len(body) + 1)
			for k > 0 && k < len(body) && body[k]&0xC0 == 0x80 { // not inside a rune
				k--
			}
			body = body[:k] + errElem(r, variant, cfg.HashLines) + body[k:]
			if !cfg.HashLines {
				body = fixHashLines(body)
			}
		}
		if cfg.ID > 0 {
			open := fmt.Sprintf(`<rpc-reply xmlns="urn:ietf:params:xml:ns:netconf:base:1.0" message-id="%d">`, cfg.ID)
			if r.Intn(4) == 0 {
				open = fmt.Sprintf(`<rpc-reply message-id="%d" xmlns="urn:ietf:params:xml:ns:netconf:base:1.0">`, cfg.ID)
			}
			b.WriteString(open)
			b.WriteString([]string{"", "\n", "\n  "}[r.Intn(3)])
			b.WriteString(body)
			b.WriteString([]string{"", "\n"}[r.Intn(2)])
			b.WriteString("</rpc-reply>")
		} else {
			b.WriteString(body)
		}
		b.WriteString([]string{"", "\n", " \n\t ", "\n\n", " "}[r.Intn(5)])
		p = b.String()
		if len(p) == 0 {
			continue // an empty payload cannot be chunked (chunk sizes are positive)
		}
		if !cfg.HashLines && (strings.Contains(p, "\n##") || strings.HasPrefix(p, "##")) {
			continue
		}
		if cfg.V10 && strings.Index(p+ncwire.EOM, ncwire.EOM) != len(p) {
			continue // the delimiter must occur only at the very end
		}
		if strings.Contains(p, "]]>]]>") {
			continue
		}
		return p, variant
	}
}

// ---- chunk partitions ---------------------------------------------------------------------------

// interesting returns the cut positions that put a chunk edge next to '#', a digit, a LF, inside a
// multi-byte rune, inside message-id="…", inside an rpc-error marker, or inside the declaration.
func interesting(p string) (edge, rune_, attr, marker []int) {
	n := len(p)
	for i := 1; i < n; i++ {
		a, c := p[i-1], p[i]
		if a == '#' || c == '#' || a == '\n' || c == '\n' || (a >= '0' && a <= '9') || (c >= '0' && c <= '9') {
			edge = append(edge, i)
		}
		if c&0xC0 == 0x80 {
			rune_ = append(rune_, i)
		}
	}
	if k := strings.Index(p, `message-id="`); k >= 0 {
		e := k + len(`message-id="`)
		for e < n && p[e] != '"' {
			e++
		}
		for i := k + 1; i <= e && i < n; i++ {
			attr = append(attr, i)
		}
	}
	for _, m := range errorMarkers {
		off := 0
		for {
			k := strings.Index(p[off:], m)
			if k < 0 {
				break
			}
			k += off
			for i := k + 1; i < k+len(m); i++ {
				marker = append(marker, i)
			}
			off = k + len(m)
		}
	}
	for off := 0; ; {
		k := strings.Index(p[off:], "rpc-error")
		if k < 0 {
			break
		}
		k += off
		for i := k - 4; i < k+len("rpc-error")+3; i++ {
			if i > 0 && i < n {
				marker = append(marker, i)
			}
		}
		off = k + len("rpc-error")
	}
	if strings.HasPrefix(p, Decl) {
		for i := 1; i < len(Decl); i++ {
			marker = append(marker, i)
		}
	}
	return
}

var chunkModes = []string{"one", "two", "few", "many", "ones", "edges", "runes", "attr", "markers", "mixed", "mixed"}

// GenSizes draws a chunk partition of p. noHashStart: no chunk may begin with "##" (driver-level
// precondition: the wire carries "\n##" only as the end-of-chunks marker).
func GenSizes(r *rand.Rand, p string, mode string, noHashStart bool) []int {
	n := len(p)
	if n <= 1 || mode == "one" {
		return []int{n}
	}
	cutSet := map[int]bool{}
	pick := func(from []int, k int) {
		for ; k > 0 && len(from) > 0; k-- {
			cutSet[from[r.Intn(len(from))]] = true
		}
	}
	rnd := func(k int) {
		for ; k > 0; k-- {
			cutSet[1+r.Intn(n-1)] = true
		}
	}
	edge, rn, attr, marker := interesting(p)
	switch mode {
	case "two":
		rnd(1)
	case "few":
		rnd(1 + r.Intn(8))
	case "many":
		rnd(n/(2+r.Intn(40)) + 1)
	case "ones":
		if n <= 4000 {
			for i := 1; i < n; i++ {
				cutSet[i] = true
			}
		} else {
			rnd(n / 3)
		}
	case "edges":
		pick(edge, 1+r.Intn(64))
	case "runes":
		pick(rn, 1+r.Intn(16))
		rnd(r.Intn(3))
	case "attr":
		pick(attr, 1+r.Intn(4))
		rnd(r.Intn(3))
	case "markers":
		if r.Intn(2) == 0 {
			// split every marker occurrence
			for _, i := range marker {
				if r.Intn(3) == 0 {
					cutSet[i] = true
				}
			}
		}
		pick(marker, 1+r.Intn(8))
	default:
		pick(edge, r.Intn(20))
		pick(rn, r.Intn(5))
		pick(attr, r.Intn(2))
		pick(marker, r.Intn(3))
		rnd(r.Intn(6))
	}
	cuts := make([]int, 0, len(cutSet))
	for c := range cutSet {
		if noHashStart && c+1 < n && p[c] == '#' && p[c+1] == '#' {
			continue
		}
		cuts = append(cuts, c)
	}
	sort.Ints(cuts)
	return ncwire.Partition(n, cuts)
}

// wireOK11 is the driver-level precondition for the ordinary families, checked by brute force on
// the framed bytes: "\n##" occurs only as the end-of-chunks marker.
func wireOK11(wire []byte) bool {
	return bytes.Count(wire, []byte("\n##")) == 1 && bytes.HasSuffix(wire, []byte("\n##\n"))
}

// ---- mutations ----------------------------------------------------------------------------------

// Mutant is one malformed (or still well-formed) variation of a legal 1.1 frame.
type Mutant struct {
	Name string
	Raw  []byte
}

// headerSpans returns, for a frame produced by ncwire.EncodeChunked, the [start,end) spans of the
// size digits of every chunk header and the offset of the end-of-chunks marker's first '#'.
func headerSpans(plen int, sizes []int) (spans [][2]int, term int) {
	off := 0
	for _, s := range sizes {
		d := len(fmt.Sprint(s))
		spans = append(spans, [2]int{off + 2, off + 2 + d})
		off += 2 + d + 1 + s
	}
	return spans, off + 1
}

func splice(raw []byte, s, e int, repl string) []byte {
	out := make([]byte, 0, len(raw)+len(repl))
	out = append(out, raw[:s]...)
	out = append(out, repl...)
	return append(out, raw[e:]...)
}

// Mutate returns the mutation family of one legal frame. Truncations at every byte are included
// when allTrunc is set (else a PRNG sample of 8).
func Mutate(r *rand.Rand, p string, sizes []int, allTrunc bool) []Mutant {
	raw := ncwire.EncodeChunked([]byte(p), sizes)
	spans, term := headerSpans(len(p), sizes)
	var ms []Mutant
	add := func(name string, b []byte) { ms = append(ms, Mutant{name, b}) }
	add("legal", raw)
	add("legal-trimmed", raw[1:len(raw)-1])
	if allTrunc {
		for i := 0; i < len(raw); i++ {
			add("truncate", raw[:i])
		}
	} else {
		for k := 0; k < 8; k++ {
			add("truncate", raw[:r.Intn(len(raw))])
		}
	}
	k := r.Intn(len(spans))
	sp := spans[k]
	size := sizes[k]
	for _, m := range []struct{ name, repl string }{
		{"size+1", fmt.Sprint(size + 1)}, {"size-1", fmt.Sprint(size - 1)},
		{"size-huge-4294967295", "4294967295"}, {"size-huge-9999999999", "9999999999"}, {"size-huge-18446744073709551616", "18446744073709551616"},
		{"size-11-digits", "99999999999"}, {"size-11-digits-zero-padded", fmt.Sprintf("%011d", size)},
		{"size-10-digits-zero-padded", fmt.Sprintf("%010d", size)}, {"size-leading-zero", "0" + fmt.Sprint(size)},
		{"size-negative", "-" + fmt.Sprint(size)}, {"size-negative-5", "-5"}, {"size-zero", "0"}, {"size-empty", ""},
		{"size-nonnumeric-x", "x"}, {"size-nonnumeric-1x", fmt.Sprint(size) + "x"}, {"size-nonnumeric-hex", "0x10"},
		{"size-blank-before", " " + fmt.Sprint(size)}, {"size-blank-after", fmt.Sprint(size) + " "},
		{"size-nonnumeric-arabic-digit", "٣"}, {"size-float", fmt.Sprint(size) + ".0"}, {"size-exp", "1e1"},
		{"size-underscore", "1_0"},
		{"size-plus-sign", "+" + fmt.Sprint(size)},
	} {
		add(m.name, splice(raw, sp[0], sp[1], m.repl))
	}
	// structure
	add("missing-end-marker", raw[:term-1])
	add("missing-end-marker-keep-lf", raw[:term])
	add("end-marker-single-hash", splice(raw, term, term+2, "#"))
	add("end-marker-then-garbage", append(append([]byte(nil), raw...), "garbage #9\nxx"...))
	add("doubled-hash-at-header", splice(raw, sp[0]-1, sp[0], "##"))
	add("missing-lf-after-size", splice(raw, sp[1], sp[1]+1, ""))
	add("missing-hash-at-header", splice(raw, sp[0]-1, sp[0], ""))
	add("missing-lf-before-header", splice(raw, sp[0]-2, sp[0]-1, ""))
	add("missing-lf-before-end-marker", splice(raw, term-1, term, ""))
	add("extra-lfs-before-header", splice(raw, sp[0]-2, sp[0]-1, "\n\n\n"))
	add("extra-lfs-before-end-marker", splice(raw, term-1, term, "\n\n"))
	add("blank-before-header", splice(raw, sp[0]-2, sp[0]-1, "\n "))
	add("zero-size-chunk-inserted", splice(raw, sp[0]-2, sp[0]-2, "\n#0\n"))
	add("data-one-byte-short", splice(raw, sp[1]+1, sp[1]+2, ""))
	add("data-one-byte-long", splice(raw, sp[1]+1, sp[1]+1, "Z"))
	add("leading-whitespace", append([]byte(" \n\t \n"), raw...))
	add("trailing-whitespace", append(append([]byte(nil), raw...), " \n\t "...))
	add("only-end-marker", []byte("\n##\n"))
	add("eom-framed", ncwire.EncodeEOM([]byte(p)))
	add("no-framing", []byte(p))
	add("header-only", raw[:sp[1]+1])
	return ms
}
