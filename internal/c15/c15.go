// Package c15: telnet option negotiation is answered exactly once and kept out of the data stream.
//
// Every case runs the real telnet transport against a loopback TCP server that sends a generated
// opening (negotiations, two-byte commands, escaped IAC, banner text) cut into PRNG segments, and
// collects every byte the client sends back. An independent RFC 854 reference parser over the
// opening gives the expected replies and the expected data.
package c15

import (
	"bytes"
	"encoding/binary"
	"encoding/hex"
	"errors"
	"fmt"
	"io"
	"math/rand"
	"net"
	"os"
	"strconv"
	"strings"
	"sync/atomic"
	"syscall"
	"time"
	"unsafe"

	"github.com/scrapli/scrapligo/driver/options"
	"github.com/scrapli/scrapligo/logging"
	"github.com/scrapli/scrapligo/transport"
	"github.com/scrapli/scrapligo/util"

	"verif/internal/mon"
)

const (
	bIAC  = 255
	bDONT = 254
	bDO   = 253
	bWONT = 252
	bWILL = 251
	bSB   = 250
	bSGA  = 3
)

// Item is one element of an opening.
type Item struct {
	K string `json:"k"`           // neg | cmd | esc | text
	V int    `json:"v,omitempty"` // neg: verb byte 251..254
	O int    `json:"o"`           // neg: option code 0..255
	C int    `json:"c,omitempty"` // cmd: command byte 241..249
	X string `json:"x,omitempty"` // text: hex of the data bytes (never 0xff)
}

// Desc is the complete case descriptor.
type Desc struct {
	Items     []Item `json:"items"`
	SegMode   string `json:"seg_mode"`
	Segs      []int  `json:"segs"`    // segment lengths, sum = length of the wire form
	GapsUs    []int  `json:"gaps_us"` // sleep before each segment, <= 2000
	TimeoutMs int    `json:"timeout_socket_ms"`
	ReadSize  int    `json:"read_size"`
	Tail      string `json:"tail,omitempty"`   // hex: plain bytes the server sends after Open has returned
	Family    string `json:"family,omitempty"` // "" dense (gaps <= 2 ms) | "paced" (bursts separated by pauses below the per-read window) | "reactive"
	// reactive: indices of the segments that end a round; the server sends the next round only when it
	// has received every answer byte the rounds so far call for (bounded wait: timeout/4 after the kernel's acknowledgement)
	RoundEnds []int `json:"round_ends,omitempty"`
	// long-timeout family: the library default socket timeout (no option given; TimeoutMs then states the
	// default, 30 000, for the window arithmetic) and/or the server hanging up (half-close) after the last
	// byte instead of sitting out the idle window ("eof": Open returns the EOF error, the data is read from
	// what Open buffered)
	DefaultTimeout bool   `json:"default_timeout,omitempty"`
	End            string `json:"end,omitempty"`
}

// gapLimit: up to which fraction of the read window an observed (acknowledged) server pause counts as
// "well inside the window". 0.6 for the sub-second windows; for windows of 4 s and more 0.75 still
// leaves more than a second of margin.
func gapLimit(T time.Duration) float64 {
	if T/2 >= 4*time.Second {
		return 0.75
	}
	return 0.6
}

// GenLong draws a long-socket-timeout opening: TimeoutSocket 10 s or the library default (30 s), a
// server pause of 2.5-3.5 s (inside the window: TimeoutSocket/2 between bytes, TimeoutSocket/4 before
// the first byte) before a further round of requests; scripted, paced and reactive variants.
func GenLong(r *rand.Rand, idx int) Desc {
	d := Desc{Family: "long", SegMode: "long", TimeoutMs: 10000, End: "eof"}
	variant := idx % 6
	switch variant {
	case 1, 2, 5:
		d.DefaultTimeout, d.TimeoutMs = true, 30000
	}
	if variant == 0 {
		d.End = "" // sit out the idle window (5 s)
	}
	rounds := 2
	if variant == 3 {
		rounds = 3 // paced: two pauses
	}
	pause := func() int { return 2500000 + r.Intn(1000001) }
	for k := 0; k < rounds; k++ {
		var items []Item
		if r.Intn(2) == 0 {
			items = append(items, Item{K: "text", X: hex.EncodeToString(genText(r))})
		}
		for i, nn := 0, 1+r.Intn(3); i < nn; i++ {
			items = append(items, Item{K: "neg", V: verbs[r.Intn(4)], O: genOpt(r)})
		}
		if r.Intn(2) == 0 {
			items = append(items, genItem(r, [4]int{0, 1, 1, 3}))
		}
		g := r.Intn(400)
		if k > 0 {
			g = pause()
		} else if variant == 2 {
			g = pause() // late first byte: inside TimeoutSocket/4 = 7.5 s of the default
		}
		L := len(wireOf(items))
		if L > 1 && r.Intn(2) == 0 {
			x := 1 + r.Intn(L-1)
			d.Segs = append(d.Segs, x, L-x)
			d.GapsUs = append(d.GapsUs, g, r.Intn(400))
		} else {
			d.Segs = append(d.Segs, L)
			d.GapsUs = append(d.GapsUs, g)
		}
		if variant >= 4 { // reactive: the next round (after its pause) only once this one has been answered
			d.RoundEnds = append(d.RoundEnds, len(d.Segs)-1)
		}
		d.Items = append(d.Items, items...)
	}
	d.ReadSize = []int{7, 8192, 65535}[r.Intn(3)]
	return d
}

func wireOf(items []Item) []byte {
	var w []byte
	for _, it := range items {
		switch it.K {
		case "neg":
			w = append(w, bIAC, byte(it.V), byte(it.O))
		case "cmd":
			w = append(w, bIAC, byte(it.C))
		case "esc":
			w = append(w, bIAC, bIAC)
		case "text":
			b, err := hex.DecodeString(it.X)
			if err != nil {
				panic("bad text item: " + err.Error())
			}
			w = append(w, b...)
		default:
			panic("bad item kind " + it.K)
		}
	}
	return w
}

// ---------------------------------------------------------------------------------------------
// reference (trusted base): the receiver the property describes, over the wire bytes. IAC followed by
// any byte that is neither a verb nor IAC - the command codes 240..250, SE and SB included - is a
// two-byte command; what follows it is data ("data that follows other telnet commands is delivered").
// No RFC 855 subnegotiation semantics: the property makes no exception for IAC SB ... IAC SE.

type dtok struct {
	b   byte
	esc bool // an escaped IAC IAC: the data byte 0xff
	off int  // offset in the wire form of the byte that completed it
}

type refOut struct {
	replies []byte
	reqs    [][2]byte // (verb, option) of every request in order
	data    []dtok
	state   []int // parser state before every wire byte: 0 data, 1 after IAC, 2 after IAC verb
}

func refParse(w []byte) refOut {
	var o refOut
	st := 0
	var verb byte
	for i, c := range w {
		o.state = append(o.state, st)
		switch st {
		case 0:
			if c == bIAC {
				st = 1
			} else {
				o.data = append(o.data, dtok{b: c, off: i})
			}
		case 1:
			switch {
			case c == bIAC:
				o.data = append(o.data, dtok{b: bIAC, esc: true, off: i})
				st = 0
			case c == bDO || c == bDONT || c == bWILL || c == bWONT:
				verb, st = c, 2
			default: // NOP, DM, BRK, IP, AO, AYT, EC, EL, GA: two bytes, nothing to answer
				st = 0
			}
		case 2:
			var r byte
			switch verb {
			case bDO:
				r = bWONT
				if c == bSGA {
					r = bWILL
				}
			case bDONT:
				r = bWONT
			case bWILL:
				r = bDO
			case bWONT:
				r = bDONT
			}
			o.replies = append(o.replies, bIAC, r, c)
			o.reqs = append(o.reqs, [2]byte{verb, c})
			st = 0
		}
	}
	return o
}

// dataBytes renders the data tokens; double: an escaped IAC stays two 0xff bytes.
func dataBytes(d []dtok, double bool) []byte {
	var b []byte
	for _, t := range d {
		b = append(b, t.b)
		if t.esc && double {
			b = append(b, t.b)
		}
	}
	return b
}

// ---------------------------------------------------------------------------------------------
// generator

var verbs = []int{bDO, bDONT, bWILL, bWONT}
var verbName = map[byte]string{bDO: "do", bDONT: "dont", bWILL: "will", bWONT: "wont"}
var banners = []string{"login: ", "Username: ", "\r\n", "User Access Verification\r\n\r\n", "Password: ", "\r\n\r\nrouter1 console\r\n", "\x00", "\r\x00", "#", ">"}

func optClass(o byte) string {
	switch {
	case o == bSGA:
		return "sga"
	case o == 255:
		return "255"
	case o >= 240:
		return "cmdcode"
	}
	return "other"
}

func genOpt(r *rand.Rand) int {
	switch r.Intn(10) {
	case 0, 1, 2:
		return bSGA
	case 3:
		return []int{1, 24, 31, 32, 33, 34, 39, 5, 0}[r.Intn(9)]
	case 4:
		return 255
	case 5:
		return 240 + r.Intn(15) // option codes equal to command / verb bytes
	case 6:
		return []int{2, 4}[r.Intn(2)] // neighbours of SGA
	}
	return r.Intn(256)
}

func genText(r *rand.Rand) []byte {
	switch r.Intn(5) {
	case 0, 1:
		return []byte(banners[r.Intn(len(banners))])
	case 2:
		n := 1 + r.Intn(12)
		b := make([]byte, n)
		for i := range b {
			b[i] = byte(32 + r.Intn(95))
		}
		return b
	case 3: // bytes that are verbs / commands when they follow an IAC, here plain data
		n := 1 + r.Intn(4)
		b := make([]byte, n)
		for i := range b {
			b[i] = byte(240 + r.Intn(15))
		}
		return b
	}
	n := 1 + r.Intn(8)
	b := make([]byte, n)
	for i := range b {
		b[i] = byte(r.Intn(255)) // never 0xff
	}
	return b
}

func genItem(r *rand.Rand, w [4]int) Item {
	x := r.Intn(w[0] + w[1] + w[2] + w[3])
	switch {
	case x < w[0]:
		return Item{K: "neg", V: verbs[r.Intn(4)], O: genOpt(r)}
	case x < w[0]+w[1]:
		return Item{K: "cmd", C: 240 + r.Intn(11)}
	case x < w[0]+w[1]+w[2]:
		return Item{K: "esc"}
	}
	return Item{K: "text", X: hex.EncodeToString(genText(r))}
}

// GenDesc draws one opening with its segmentation.
func GenDesc(r *rand.Rand) Desc {
	var d Desc
	n := r.Intn(13)
	switch r.Intn(8) {
	case 0:
		n = r.Intn(3)
	case 1:
		n = 13 + r.Intn(18)
	}
	w := [][4]int{{4, 2, 1, 3}, {6, 1, 1, 2}, {2, 3, 3, 4}, {1, 0, 0, 1}, {3, 2, 2, 0}}[r.Intn(5)]
	for i := 0; i < n; i++ {
		d.Items = append(d.Items, genItem(r, w))
	}
	// now and then something shaped like a subnegotiation: IAC SB <option> <parameters> [IAC SE]. To the
	// property these are two two-byte commands with data in between, all of which is delivered.
	if r.Intn(6) == 0 {
		pay := []byte{byte([]int{24, 31, 32, 39, 3, 1}[r.Intn(6)])}
		for i, n := 0, r.Intn(5); i < n; i++ {
			pay = append(pay, byte(r.Intn(255)))
		}
		sub := []Item{{K: "cmd", C: bSB}, {K: "text", X: hex.EncodeToString(pay)}}
		if r.Intn(3) != 0 {
			sub = append(sub, Item{K: "cmd", C: 240})
		}
		k := r.Intn(len(d.Items) + 1)
		d.Items = append(d.Items[:k], append(sub, d.Items[k:]...)...)
	}
	// the end of the opening: force the interesting last bytes now and then
	switch r.Intn(8) {
	case 0:
		d.Items = append(d.Items, Item{K: "esc"}) // last byte of the opening is an IAC
	case 1:
		d.Items = append(d.Items, Item{K: "neg", V: verbs[r.Intn(4)], O: 255})
	case 2:
		d.Items = append(d.Items, Item{K: "cmd", C: 240 + r.Intn(11)})
	case 3:
		d.Items = append(d.Items, Item{K: "cmd", C: 240 + r.Intn(11)}, Item{K: "text", X: hex.EncodeToString(genText(r))})
	}
	wire := wireOf(d.Items)
	st := refParse(wire).state
	L := len(wire)
	// segmentation: a set of cut offsets 0 < c < L
	cut := make([]bool, L+1)
	d.SegMode = []string{"whole", "bytes", "geom", "iac", "mix", "mix"}[r.Intn(6)]
	switch d.SegMode {
	case "bytes":
		for i := 1; i < L; i++ {
			cut[i] = true
		}
	case "geom":
		m := []int{2, 3, 8, 20}[r.Intn(4)]
		for i := 1 + r.Intn(m); i < L; i += 1 + r.Intn(m) {
			cut[i] = true
		}
	case "iac": // exactly between IAC and the next byte, and between verb and option
		for i := 1; i < L; i++ {
			if st[i] != 0 {
				cut[i] = true
			}
		}
	case "mix":
		p := []int{3, 6, 12}[r.Intn(3)]
		for i := 1; i < L; i++ {
			if r.Intn(p) == 0 || (st[i] != 0 && r.Intn(2) == 0) {
				cut[i] = true
			}
		}
	}
	prev := 0
	for i := 1; i <= L; i++ {
		if i == L || cut[i] {
			if i > prev {
				d.Segs = append(d.Segs, i-prev)
			}
			prev = i
		}
	}
	gapMode := r.Intn(4) // 0 none, 1 tiny, 2 up to 2 ms, 3 mixed
	maxGap := 2000
	if len(d.Segs) > 60 {
		maxGap = 500 // keeps the longest openings well below a second of sending
	}
	for range d.Segs {
		g := 0
		switch gapMode {
		case 1:
			g = r.Intn(100)
		case 2:
			g = r.Intn(maxGap + 1)
		case 3:
			if r.Intn(3) == 0 {
				g = r.Intn(maxGap + 1)
			}
		}
		d.GapsUs = append(d.GapsUs, g)
	}
	d.TimeoutMs = []int{800, 800, 800, 600, 1000, 1600}[r.Intn(6)]
	d.ReadSize = []int{1, 2, 7, 64, 8192, 65535}[r.Intn(6)]
	if r.Intn(2) == 0 {
		t := genText(r)
		if r.Intn(3) == 0 {
			t = append(t, genText(r)...)
		}
		d.Tail = hex.EncodeToString(t)
	}
	return d
}

// GenPaced draws a paced opening: 4-8 bursts, the first sent at once, separated by pauses of 25-45 %
// of the per-read window (TimeoutSocket/2), total span 0.6-1.5 x TimeoutSocket, a request in every
// burst including the last. The negotiation phase must survive: its window is re-armed per byte.
func GenPaced(r *rand.Rand) Desc {
	d := Desc{Family: "paced", SegMode: "paced"}
	d.TimeoutMs = []int{800, 1200}[r.Intn(2)]
	winUs := d.TimeoutMs * 1000 / 2
	var pauses []int
	for {
		pauses = pauses[:0]
		nb := 4 + r.Intn(5)
		sum := 0
		for i := 1; i < nb; i++ {
			p := winUs/4 + r.Intn(winUs*20/100+1) // 25-45 % of the window
			pauses = append(pauses, p)
			sum += p
		}
		if sum >= d.TimeoutMs*600 && sum <= d.TimeoutMs*1500 {
			break
		}
	}
	for b := 0; b <= len(pauses); b++ {
		var items []Item
		n := 1 + r.Intn(4)
		w := [][4]int{{4, 2, 1, 3}, {2, 1, 1, 3}, {1, 0, 0, 1}}[r.Intn(3)]
		for i := 0; i < n; i++ {
			items = append(items, genItem(r, w))
		}
		// a request in every burst, at a random position
		k := r.Intn(len(items) + 1)
		items = append(items[:k], append([]Item{{K: "neg", V: verbs[r.Intn(4)], O: genOpt(r)}}, items[k:]...)...)
		if r.Intn(2) == 0 {
			items = append(items, Item{K: "text", X: hex.EncodeToString(genText(r))})
		}
		L := len(wireOf(items))
		// the burst in 1-3 segments with tiny gaps
		var segs []int
		rest := L
		for c := r.Intn(3); c > 0 && rest > 1; c-- {
			x := 1 + r.Intn(rest-1)
			segs = append(segs, x)
			rest -= x
		}
		segs = append(segs, rest)
		for i, x := range segs {
			g := r.Intn(400)
			if i == 0 {
				g = 0
				if b > 0 {
					g = pauses[b-1]
				}
			}
			d.Segs = append(d.Segs, x)
			d.GapsUs = append(d.GapsUs, g)
		}
		d.Items = append(d.Items, items...)
	}
	d.ReadSize = []int{1, 7, 8192, 65535}[r.Intn(4)]
	if r.Intn(2) == 0 {
		d.Tail = hex.EncodeToString(genText(r))
	}
	return d
}

// GenReactive draws a reactive opening: 2-4 rounds, each with 1-4 requests, with or without trailing
// banner text; the server waits for the answers to a round before it sends the next one.
func GenReactive(r *rand.Rand) Desc {
	d := Desc{Family: "reactive", SegMode: "reactive"}
	d.TimeoutMs = []int{800, 1200}[r.Intn(2)]
	nr := 2 + r.Intn(3)
	for k := 0; k < nr; k++ {
		var items []Item
		nn := 1 + r.Intn(4)
		for i := 0; i < nn; i++ {
			items = append(items, Item{K: "neg", V: verbs[r.Intn(4)], O: genOpt(r)})
			if r.Intn(5) == 0 { // something between the requests of a round
				items = append(items, genItem(r, [4]int{0, 2, 1, 2}))
			}
		}
		if k > 0 && r.Intn(4) == 0 { // a round may start with text (the reaction to the answers is a banner + requests)
			items = append([]Item{{K: "text", X: hex.EncodeToString(genText(r))}}, items...)
		}
		switch r.Intn(4) {
		case 0: // trailing banner text
			items = append(items, Item{K: "text", X: hex.EncodeToString(genText(r))})
		case 1: // trailing two-byte command / escaped IAC
			items = append(items, genItem(r, [4]int{0, 1, 1, 0}))
		default: // the round ends with the option code of its last request
			if last := items[len(items)-1]; last.K != "neg" {
				items = append(items, Item{K: "neg", V: verbs[r.Intn(4)], O: genOpt(r)})
			}
		}
		L := len(wireOf(items))
		rest := L
		for c := r.Intn(3); c > 0 && rest > 1; c-- {
			x := 1 + r.Intn(rest-1)
			d.Segs = append(d.Segs, x)
			d.GapsUs = append(d.GapsUs, r.Intn(400))
			rest -= x
		}
		d.Segs = append(d.Segs, rest)
		d.GapsUs = append(d.GapsUs, r.Intn(400))
		d.RoundEnds = append(d.RoundEnds, len(d.Segs)-1)
		d.Items = append(d.Items, items...)
	}
	d.ReadSize = []int{1, 7, 8192, 65535}[r.Intn(4)]
	if r.Intn(2) == 0 {
		d.Tail = hex.EncodeToString(genText(r))
	}
	return d
}

// ---------------------------------------------------------------------------------------------
// loopback server

type server struct {
	ln       net.Listener
	wire     []byte
	segs     []int
	gaps     []int
	tail     []byte
	seq      *atomic.Int64
	t0       time.Time     // just before the client dials
	window   time.Duration // socket timeout
	openDone chan struct{} // closed by the harness when Open has returned
	done     chan struct{}
	// re-open family: how the opening ends ("" / "idle": stay silent, half-close after Open returned;
	// "eof": half-close right after the last byte; "reset": abort the connection right after the last
	// byte) and a signal that the harness has moved on without necessarily closing the client side
	end     string
	release chan struct{}
	// reactive family: after segment i the server waits (at most bound, counted from the kernel's
	// acknowledgement of the round) until it has received roundNeed[i] answer bytes in total
	roundNeed     map[int]int
	bound         time.Duration
	recvN         atomic.Int64
	roundsDone    int
	gaveUp        bool
	sent          int // bytes of the opening actually written
	recvAtGiveUp  int
	maxAnswerWait time.Duration

	// results, valid after done is closed
	err          error
	lastWriteSeq int64
	lastWriteT   time.Time
	deliveredSeq int64 // event number at which the kernel reported the whole opening sent and acknowledged (0: never seen)
	deliveredT   time.Time
	retrans      uint32 // TCP retransmissions on the server's socket
	lastAckT     time.Time
	bursts       int
	// pacedGap: worst upper bound of a wait the client can have seen, as a fraction of its window:
	// (burst acknowledged - burst started) and (burst acknowledged - previous burst's last write started)
	pacedGap float64
	worstGap float64 // worst (gap between write completions) / (the client's read window for that byte)
	recv     []byte
	recvErr  error
	log      []string
}

// tcpStat reads the kernel's view of the server socket (TCP_INFO): segments sent but not yet
// acknowledged, bytes written but not yet sent, retransmissions. "Everything acknowledged" means the
// bytes are in the client's receive queue - the loopback analogue of devsim's Delivered().
type tcpStat struct {
	unacked, notsent, retrans uint32
	ok                        bool
}

func tcpInfo(tc *net.TCPConn) tcpStat {
	var st tcpStat
	rc, err := tc.SyscallConn()
	if err != nil {
		return st
	}
	var buf [256]byte
	l := uint32(len(buf))
	rc.Control(func(fd uintptr) {
		_, _, e := syscall.Syscall6(syscall.SYS_GETSOCKOPT, fd, syscall.SOL_TCP, syscall.TCP_INFO,
			uintptr(unsafe.Pointer(&buf[0])), uintptr(unsafe.Pointer(&l)), 0)
		if e != 0 || l < 148 {
			return
		}
		st.unacked = binary.LittleEndian.Uint32(buf[24:])
		st.retrans = binary.LittleEndian.Uint32(buf[100:])
		st.notsent = binary.LittleEndian.Uint32(buf[144:])
		st.ok = true
	})
	return st
}

const pauseMinUs = 20000

// awaitAck polls TCP_INFO until everything written so far is sent and acknowledged and the time
// `until` has passed; returns when the acknowledgement was first seen.
func (s *server) awaitAck(tc *net.TCPConn, until time.Time) (ackT time.Time, acked bool) {
	for i := 0; i < 8000; i++ {
		if !acked {
			st := tcpInfo(tc)
			if !st.ok {
				return ackT, false
			}
			s.retrans = st.retrans
			if st.unacked == 0 && st.notsent == 0 {
				acked, ackT = true, time.Now()
			}
		}
		if acked && !time.Now().Before(until) {
			return ackT, true
		}
		time.Sleep(time.Millisecond)
	}
	return ackT, false
}

func (s *server) run() {
	defer close(s.done)
	c, err := s.ln.Accept()
	if err != nil {
		s.err = err
		return
	}
	defer c.Close()
	tc := c.(*net.TCPConn)
	tc.SetNoDelay(true)
	rd := make(chan struct{})
	go func() {
		defer close(rd)
		buf := make([]byte, 4096)
		for {
			n, err := c.Read(buf)
			s.recv = append(s.recv, buf[:n]...)
			s.recvN.Add(int64(n))
			if err != nil {
				s.recvErr = err
				return
			}
		}
	}()
	prev := s.t0
	off := 0
	// bursts: a gap of pauseMinUs or more is a pause; the bytes before it form a burst whose
	// acknowledgement by the client's kernel is awaited (and timed) during the pause
	burst := 0
	burstStart := s.t0 // burst 0 is measured from the dial: the first window starts there
	var lastWriteStart, prevLastWriteStart time.Time
	endBurst := func(until time.Time) bool {
		ackT, ok := s.awaitAck(tc, until)
		if !ok {
			s.pacedGap = 1e9
			return false
		}
		win := s.window / 2
		if burst == 0 {
			win = s.window / 4
		}
		if f := float64(ackT.Sub(burstStart)) / float64(win); f > s.pacedGap {
			s.pacedGap = f
		}
		if burst > 0 {
			// the client re-armed its deadline no earlier than the previous burst's last byte was written;
			// this burst was in its receive queue no later than the acknowledgement was seen
			if f := float64(ackT.Sub(prevLastWriteStart)) / float64(s.window/2); f > s.pacedGap {
				s.pacedGap = f
			}
		}
		s.lastAckT = ackT
		burst++
		return true
	}
	ackedAll := false
	for i, n := range s.segs {
		if g := s.gaps[i]; g >= pauseMinUs && i > 0 {
			endBurst(prev.Add(time.Duration(g) * time.Microsecond))
			prevLastWriteStart = lastWriteStart
			burstStart = time.Now()
		} else if g > 0 {
			time.Sleep(time.Duration(g) * time.Microsecond)
		}
		lastWriteStart = time.Now()
		if _, err := c.Write(s.wire[off : off+n]); err != nil {
			s.err = fmt.Errorf("server write of segment %d: %w", i, err)
			break
		}
		now := time.Now()
		win := s.window / 2
		if i == 0 {
			win = s.window / 4
		}
		if f := float64(now.Sub(prev)) / float64(win); f > s.worstGap {
			s.worstGap = f
		}
		prev = now
		off += n
		s.sent = off
		ackedAll = false
		if need, ok := s.roundNeed[i]; ok {
			// reactive server: the next round goes out only when every answer byte this round calls
			// for has been received; the wait is bounded from the moment the client's kernel had the round
			if !endBurst(time.Time{}) {
				break
			}
			ackedAll = true
			answered := false
			for {
				if s.recvN.Load() >= int64(need) {
					answered = true
					break
				}
				if time.Since(s.lastAckT) > s.bound {
					break
				}
				time.Sleep(500 * time.Microsecond)
			}
			if w := time.Since(s.lastAckT); w > s.maxAnswerWait {
				s.maxAnswerWait = w
			}
			if !answered {
				s.gaveUp = true
				s.recvAtGiveUp = int(s.recvN.Load())
				break
			}
			s.roundsDone++
			prevLastWriteStart = lastWriteStart
			burstStart = time.Now()
			prev = burstStart
		}
	}
	s.lastWriteT = time.Now()
	s.lastWriteSeq = s.seq.Add(1)
	if ackedAll && s.err == nil && s.end != "eof" {
		s.deliveredT = s.lastAckT
		s.deliveredSeq = s.seq.Add(1)
	}
	if s.err == nil && (s.end == "eof" || s.end == "reset") {
		if s.end == "reset" {
			tc.SetLinger(0)
			c.Close()
			<-rd
			return
		}
		// hang-up: only after the kernel reported the opening acknowledged, so that "delivered" precedes
		// the EOF the client sees in the event order
		if ackedAll || endBurst(time.Time{}) {
			s.deliveredT = s.lastAckT
			s.deliveredSeq = s.seq.Add(1)
		}
		s.bursts = burst
		tc.CloseWrite()
		s.finish(c, rd)
		return
	}
	// wait until the client's kernel has acknowledged every byte of the opening
	if s.err == nil && !ackedAll && endBurst(time.Time{}) {
		s.deliveredT = s.lastAckT
		s.deliveredSeq = s.seq.Add(1)
	}
	s.bursts = burst
	select {
	case <-s.openDone:
	case <-time.After(90 * time.Second):
		s.err = errors.New("server: client never finished Open")
		return
	}
	if s.err != nil {
		c.Close()
		<-rd
		return
	}
	if len(s.tail) > 0 && !s.gaveUp {
		c.Write(s.tail)
	}
	tc.CloseWrite()
	s.finish(c, rd)
}

// finish collects what the client still sends until it closes; when the harness moves on without
// closing the client side (release), a short grace period instead.
func (s *server) finish(c net.Conn, rd chan struct{}) {
	select {
	case <-rd:
		return
	case <-s.release: // nil channel for single-opening cases: never
		select {
		case <-rd:
			return
		case <-time.After(300 * time.Millisecond):
		}
	case <-time.After(30 * time.Second):
	}
	c.Close()
	<-rd
}

// ---------------------------------------------------------------------------------------------
// run + judge

func hx(b []byte) string {
	s := hex.EncodeToString(b)
	if len(s) > 400 {
		s = s[:200] + "…" + s[len(s)-200:]
	}
	return s
}

func isSubseq(sub, full []byte) (bool, int) { // greedy; returns the index in full of the first byte skipped
	j := 0
	first := -1
	for i := 0; i < len(full); i++ {
		if j < len(sub) && sub[j] == full[i] {
			j++
		} else if first < 0 {
			first = i
		}
	}
	return j == len(sub), first
}

func commonPrefix(a, b []byte) int {
	n := 0
	for n < len(a) && n < len(b) && a[n] == b[n] {
		n++
	}
	return n
}

// lostContext names what preceded the first lost data byte in the opening.
func lostContext(items []Item, wire []byte, ref refOut, tokIdx int, tail bool) string {
	if tokIdx >= len(ref.data) {
		if tail {
			return "post-open-tail"
		}
		return "unknown"
	}
	t := ref.data[tokIdx]
	if t.esc {
		return "escaped-iac-itself"
	}
	// nearest preceding non-text item
	off := 0
	last := "at-start"
	for _, it := range items {
		var l int
		switch it.K {
		case "neg":
			l = 3
		case "cmd", "esc":
			l = 2
		default:
			l = len(it.X) / 2
		}
		if t.off < off+l {
			break
		}
		switch it.K {
		case "neg":
			last = "after-negotiation"
		case "cmd":
			last = "after-command"
		case "esc":
			last = "after-escaped-iac"
		}
		off += l
	}
	return last
}

func judgeData(d Desc, wire []byte, ref refOut, tail, got []byte) (key, detail string) {
	e1 := append(dataBytes(ref.data, false), tail...)
	e2 := append(dataBytes(ref.data, true), tail...)
	if bytes.Equal(got, e1) || bytes.Equal(got, e2) {
		return "", ""
	}
	exp, double := e1, false
	if commonPrefix(got, e2) > commonPrefix(got, e1) {
		exp, double = e2, true
	}
	detail = fmt.Sprintf("data read after Open differs from the reference\n got (%d bytes): %s\nwant (%d bytes): %s\n(opening %s)",
		len(got), hx(got), len(exp), hx(exp), hx(wire))
	if ok, first := isSubseq(got, exp); ok {
		// map the index in exp back to a data token
		ti := first
		if double {
			k := 0
			for i, t := range ref.data {
				w := 1
				if t.esc {
					w = 2
				}
				if first < k+w {
					ti = i
					break
				}
				k += w
				ti = i + 1
			}
		}
		return "c15/data-lost:" + lostContext(d.Items, wire, ref, ti, len(tail) > 0), detail
	}
	if ok, first := isSubseq(exp, got); ok {
		// the surplus bytes: all of them values that occur in the opening's IAC sequences?
		ctl := map[byte]bool{}
		for i, st := range ref.state {
			if st != 0 || wire[i] == bIAC {
				ctl[wire[i]] = true
			}
		}
		k := "c15/negotiation-bytes-in-data"
		j := 0
		for _, c := range got {
			if j < len(exp) && exp[j] == c {
				j++
			} else if !ctl[c] {
				k = "c15/extra-bytes-in-data"
			}
		}
		_ = first
		return k, detail
	}
	return "c15/data-mismatch", detail
}

func reqName(q [2]byte) string { return verbName[q[0]] + "-" + optClass(q[1]) }

func judgeReplies(wire []byte, ref refOut, got []byte) (key, detail string) {
	if bytes.Equal(got, ref.replies) {
		return "", ""
	}
	detail = fmt.Sprintf("bytes the server received differ from the expected replies\n got: %s\nwant: %s\n(opening %s)", hx(got), hx(ref.replies), hx(wire))
	if len(got)%3 != 0 {
		return "c15/reply-malformed", detail
	}
	for i := 0; i < len(got); i += 3 {
		if got[i] != bIAC || got[i+1] < bWILL || got[i+1] > bDONT {
			return "c15/reply-malformed", detail
		}
	}
	ng, ne := len(got)/3, len(ref.replies)/3
	tri := func(b []byte, i int) [3]byte { return [3]byte{b[3*i], b[3*i+1], b[3*i+2]} }
	// first position where the sequences differ
	p := 0
	for p < ng && p < ne && tri(got, p) == tri(ref.replies, p) {
		p++
	}
	subseq := func(a []byte, na int, b []byte, nb int) bool { // a subsequence of b, by triples
		j := 0
		for i := 0; i < nb && j < na; i++ {
			if tri(a, j) == tri(b, i) {
				j++
			}
		}
		return j == na
	}
	switch {
	case ng < ne && subseq(got, ng, ref.replies, ne):
		return "c15/reply-missing:" + reqName(ref.reqs[p]), detail
	case ng > ne && subseq(ref.replies, ne, got, ng):
		if p > 0 && tri(got, p) == tri(got, p-1) {
			return "c15/reply-duplicated", detail
		}
		return "c15/reply-extra", detail
	case ng == ne:
		g, e := tri(got, p), tri(ref.replies, p)
		if g[2] == e[2] {
			return fmt.Sprintf("c15/reply-wrong:%s:got-%s", reqName(ref.reqs[p]), verbName[g[1]]), detail
		}
		cnt := map[[3]byte]int{}
		for i := 0; i < ng; i++ {
			cnt[tri(got, i)]++
			cnt[tri(ref.replies, i)]--
		}
		same := true
		for _, v := range cnt {
			if v != 0 {
				same = false
			}
		}
		if same {
			return "c15/reply-order", detail
		}
		return "c15/reply-option-mismatch:" + reqName(ref.reqs[p]), detail
	}
	return "c15/reply-mismatch", detail
}

// explainedByEarlyStop: the observation is exactly what a correct client shows whose negotiation
// window ended after n < len(wire) bytes (the rest of the opening then arrives raw through Read).
func explainedByEarlyStop(wire, tail, gotData, gotReplies []byte, norm ...func([]byte) []byte) (bool, int) {
	for n := 0; n < len(wire); n++ {
		r := refParse(wire[:n])
		if !bytes.Equal(r.replies, gotReplies) {
			continue
		}
		e := append(dataBytes(r.data, false), wire[n:]...)
		e = append(e, tail...)
		for _, f := range norm {
			e = f(e)
		}
		if bytes.Equal(e, gotData) {
			return true, n
		}
	}
	return false, 0
}

func errClass(err error) string {
	var oe *net.OpError
	if errors.As(err, &oe) {
		s := oe.Op
		if oe.Err != nil {
			e := oe.Err.Error()
			if i := strings.LastIndex(e, ": "); i >= 0 {
				e = e[i+2:]
			}
			s += ":" + strings.ReplaceAll(e, " ", "-")
		}
		return s
	}
	s := err.Error()
	if len(s) > 40 {
		s = s[:40]
	}
	return strings.ReplaceAll(s, " ", "-")
}

// Run executes one case.
// keptReads retains every slice a read returned WITHOUT copying it (a consumer may keep what
// Transport.Read hands out), next to a snapshot taken at the moment of the return. The oracle works
// on the snapshots; recheck compares the retained slices with them again after later reads / Close.
type keptReads struct {
	chunks [][]byte
	snaps  [][]byte
}

func (k *keptReads) add(b []byte) {
	k.chunks = append(k.chunks, b)
	k.snaps = append(k.snaps, append([]byte(nil), b...))
}

func (k *keptReads) joined() []byte {
	var g []byte
	for _, s := range k.snaps {
		g = append(g, s...)
	}
	return g
}

// recheck returns how many non-empty chunks that were followed by a later read were compared, and a
// complaint if one of them no longer holds the bytes it held when it was returned.
func (k *keptReads) recheck() (rechecked int, complaint string) {
	for i := range k.chunks {
		if len(k.snaps[i]) == 0 || i == len(k.chunks)-1 {
			continue
		}
		rechecked++
		if complaint == "" && !bytes.Equal(k.chunks[i], k.snaps[i]) {
			var now, then []byte
			for j := range k.chunks {
				now = append(now, k.chunks[j]...)
				then = append(then, k.snaps[j]...)
			}
			complaint = fmt.Sprintf("the slice returned by read %d of %d held %s when it was returned and holds %s after the later reads and Close\nstream joined from the retained slices: %s\nstream as delivered at return time     : %s",
				i+1, len(k.chunks), hx(k.snaps[i]), hx(k.chunks[i]), hx(now), hx(then))
		}
	}
	return rechecked, complaint
}

// Run executes one case. An outcome that equals a correct client's whose negotiation window ended
// early (the only thing scheduling can do to a correct client) must repeat in three executions,
// none of them under measurable CPU pressure, to count as a violation.
func Run(d Desc) mon.Result {
	r, early := runOnce(d)
	if r.Verdict != mon.Violated || !early {
		return r
	}
	for i := 0; i < 2; i++ {
		r2, early2 := runOnce(d)
		if r2.Verdict != mon.Violated || !early2 {
			return mon.Result{Verdict: mon.Inconclusive, Detail: "negotiation window ended early once, not reproduced in a repetition (" + string(r2.Verdict) + "): " + r2.Detail}
		}
	}
	r.Detail += "\n(reproduced in 3 of 3 executions)"
	return r
}

var listenCtr atomic.Int64

// cpuPressure returns the kernel's cumulative "some task waited for a CPU" time (PSI), if available.
func cpuPressure() (time.Duration, bool) {
	b, err := os.ReadFile("/proc/pressure/cpu")
	if err != nil {
		return 0, false
	}
	line := strings.SplitN(string(b), "\n", 2)[0]
	i := strings.Index(line, "total=")
	if !strings.HasPrefix(line, "some") || i < 0 {
		return 0, false
	}
	us, err := strconv.ParseInt(strings.TrimSpace(line[i+6:]), 10, 64)
	if err != nil {
		return 0, false
	}
	return time.Duration(us) * time.Microsecond, true
}

func runOnce(d Desc) (res mon.Result, earlyPattern bool) {
	wire := wireOf(d.Items)
	ref := refParse(wire)
	tail, _ := hex.DecodeString(d.Tail)
	sum := 0
	for _, n := range d.Segs {
		sum += n
	}
	if sum != len(wire) || len(d.GapsUs) != len(d.Segs) {
		panic("descriptor: segment lengths do not add up to the opening")
	}
	inconclusive := func(f string, a ...interface{}) (mon.Result, bool) {
		return mon.Result{Verdict: mon.Inconclusive, Detail: fmt.Sprintf(f, a...)}, false
	}
	// 127.0.0.1:0 first; when the port space of that address is used up (tens of thousands of
	// connections in TIME_WAIT after back-to-back runs) another loopback address
	host := "127.0.0.1"
	ln, err := net.Listen("tcp4", host+":0")
	for try := 0; err != nil && try < 4; try++ {
		k := listenCtr.Add(1) + int64(os.Getpid())*977
		host = fmt.Sprintf("127.%d.%d.%d", 1+(k/62500)%100, (k/250)%250, 1+k%250)
		ln, err = net.Listen("tcp4", host+":0")
	}
	if err != nil {
		return inconclusive("harness: listen failed: %v", err)
	}
	defer ln.Close()
	port := ln.Addr().(*net.TCPAddr).Port
	T := time.Duration(d.TimeoutMs) * time.Millisecond
	var seq atomic.Int64
	lg, _ := logging.NewInstance()
	topts := []util.Option{options.WithPort(port), options.WithTransportReadSize(d.ReadSize)}
	if !d.DefaultTimeout {
		topts = append(topts, options.WithTimeoutSocket(T))
	}
	tr, err := transport.NewTransport(lg, host, transport.TelnetTransport, topts...)
	if err == nil && tr.Args.TimeoutSocket != T {
		return inconclusive("harness: the library's socket timeout is %s, the descriptor assumes %s", tr.Args.TimeoutSocket, T)
	}
	if err != nil {
		return mon.Result{Verdict: mon.Violated, Key: "c15/new-transport-failed", Detail: err.Error()}, false
	}
	psi0, psiOK := cpuPressure()
	t0 := time.Now()
	srv := &server{ln: ln, wire: wire, segs: d.Segs, gaps: d.GapsUs, tail: tail, seq: &seq, t0: t0, window: T,
		openDone: make(chan struct{}), done: make(chan struct{}), end: d.End}
	if d.End == "eof" {
		tail, srv.tail = nil, nil
	}
	if len(d.RoundEnds) > 0 {
		srv.roundNeed = map[int]int{}
		srv.bound = T / 4
		off := 0
		re := map[int]bool{}
		for _, i := range d.RoundEnds {
			re[i] = true
		}
		for i, n := range d.Segs {
			off += n
			if re[i] {
				srv.roundNeed[i] = len(refParse(wire[:off]).replies)
			}
		}
	}
	go srv.run()

	openErr := tr.Open()
	openT := time.Now()
	openSeq := seq.Add(1)
	close(srv.openDone)
	closeTr := func() {
		defer func() { recover() }()
		tr.Close(false)
	}
	if oe := (*net.OpError)(nil); openErr != nil && errors.As(openErr, &oe) && oe.Op == "dial" {
		closeTr()
		return inconclusive("harness: dial failed: %v", openErr)
	}
	// a server that hangs up after its last byte makes Open fail with EOF: what Open buffered is read
	// and judged all the same. (Open returning nil there means its window ended before the hang-up.)
	if openErr != nil && d.End != "eof" {
		closeTr()
		ln.Close()
		return mon.Result{Verdict: mon.Violated, Key: "c15/open-error:" + errClass(openErr), NonTrivial: true,
			Detail: fmt.Sprintf("Open returned %v for opening %s", openErr, hx(wire))}, false
	}
	// the first reads: until the server's half-close shows up as an error
	var kept keptReads
	var readSizes []int
	var readErr error
	maxReads := 2*(len(wire)+len(tail)) + 1000
	nReads := 0
	for i := 0; ; i++ {
		b, err := tr.Read()
		nReads++
		kept.add(b) // the slice itself is retained, not a copy
		if len(readSizes) < 8 {
			readSizes = append(readSizes, len(b))
		}
		if err != nil {
			readErr = err
			break
		}
		if i > maxReads {
			readErr = errors.New("harness: Read keeps returning without error or progress")
			break
		}
	}
	closeTr()
	got := kept.joined() // (i) every chunk as it was at the time of its return
	rechecked, changed := kept.recheck()
	select {
	case <-srv.done:
	case <-time.After(45 * time.Second):
		return inconclusive("harness: server goroutine did not finish")
	}
	if srv.err != nil {
		return inconclusive("harness: %v", srv.err)
	}
	// reactive server that gave up: judged on what was exchanged
	var lateKey, lateDetail string
	if srv.gaveUp {
		wire = wire[:srv.sent]
		ref = refParse(wire)
		tail = nil
		lateKey, lateDetail = judgeReplies(wire, ref, srv.recv[:srv.recvAtGiveUp])
		if lateKey != "" {
			lateDetail = fmt.Sprintf("reactive server: round %d of %d was acknowledged by the client's kernel, but %s later (TimeoutSocket/4, half the idle window) its requests were not all answered, so the server never sent its next round; by the end of the connection the server had received %s\n%s",
				srv.roundsDone+1, len(d.RoundEnds), srv.bound, hx(srv.recv), lateDetail)
		}
	}
	// precondition of the quantifier: the whole opening was on the wire before the client's
	// negotiation window ended (event order, not durations)
	// (a completed write is not enough: under load loopback delivery was seen to lag the write by
	// hundreds of ms, so the event is "kernel reports everything sent and acknowledged")
	orderOK := srv.deliveredSeq != 0 && srv.deliveredSeq < openSeq
	const earlyMsg = "Open returned before the whole opening had reached the client (negotiation window closed first)"

	cuts := map[int]bool{}
	off := 0
	for _, n := range d.Segs[:max(len(d.Segs)-1, 0)] {
		off += n
		cuts[off] = true
	}
	obs := map[string]int64{"openings": 1, "segments": int64(len(d.Segs)), "opening_bytes": int64(len(wire)),
		"requests": int64(len(ref.reqs)), "reply_bytes_received": int64(len(srv.recv)), "data_bytes_expected": int64(len(ref.data)),
		"data_bytes_read": int64(len(got)), "reads": int64(nReads), "chunks_rechecked_after_later_reads": int64(rechecked)}
	tags := []string{fmt.Sprintf("timeout=%dms", d.TimeoutMs), "seg=" + d.SegMode, fmt.Sprintf("readsize=%d", d.ReadSize),
		fmt.Sprintf("tail=%v", len(tail) > 0)}
	special := 0
	prevKind := ""
	for i, it := range d.Items {
		switch it.K {
		case "neg":
			tags = append(tags, "neg="+reqName([2]byte{byte(it.V), byte(it.O)}))
			if it.V == bDO && it.O == bSGA {
				obs["do_sga"]++
			}
			if it.O == 255 {
				obs["option_255"]++
			}
		case "cmd":
			special++
			obs["two_byte_commands"]++
			if it.C == bSB || it.C == 240 {
				obs["sb_or_se_commands"]++
			}
			if it.C == bSB && i+1 < len(d.Items) && d.Items[i+1].K == "text" {
				obs["data_after_iac_sb"]++
			}
			tags = append(tags, fmt.Sprintf("cmd=%d", it.C))
		case "esc":
			special++
			obs["escaped_iac"]++
		case "text":
			if prevKind == "neg" && i+1 < len(d.Items) && d.Items[i+1].K == "neg" {
				obs["data_between_negotiations"]++
			}
			if prevKind == "cmd" || prevKind == "esc" {
				obs["data_after_command_or_escaped_iac"]++
			}
		}
		prevKind = it.K
	}
	for c := range cuts {
		if c >= len(ref.state) { // reactive server gave up before this segment
			continue
		}
		switch ref.state[c] {
		case 1:
			obs["segment_cut_between_iac_and_next"]++
		case 2:
			obs["segment_cut_between_verb_and_option"]++
		}
	}
	if len(wire) > 0 && wire[len(wire)-1] == bIAC {
		obs["opening_ends_with_0xff"]++
		tags = append(tags, "ends-with-0xff")
	}
	if len(d.Items) > 0 {
		tags = append(tags, "last-item="+d.Items[len(d.Items)-1].K)
	}
	nontrivial := special >= 1 && len(d.Segs) >= 2
	if d.Family == "paced" {
		tags = append(tags, "family=paced")
		obs["paced_openings"]++
		obs["paced_bursts"] += int64(srv.bursts)
		// requests whose first byte was written later than TimeoutSocket/2 after the dial (by the schedule)
		at, late := 0, 0
		segEnd := 0
		si := 0
		st := refParse(wire).state
		for i := range wire {
			for si < len(d.Segs) && i >= segEnd {
				at += d.GapsUs[si]
				segEnd += d.Segs[si]
				si++
			}
			if wire[i] == bIAC && st[i] == 0 && i+1 < len(wire) && wire[i+1] >= bWILL && wire[i+1] <= bDONT && at > d.TimeoutMs*500 {
				late++
			}
		}
		obs["paced_requests_later_than_half_timeout"] += int64(late)
		span := 0
		for _, g := range d.GapsUs {
			span += g
		}
		nontrivial = late >= 1 && span > d.TimeoutMs*500
	}
	if d.Family == "long" {
		tags = append(tags, "family=long", fmt.Sprintf("long-end=%q", d.End), fmt.Sprintf("long-default-timeout=%v", d.DefaultTimeout), fmt.Sprintf("long-reactive=%v", len(d.RoundEnds) > 0))
		obs["long_socket_timeout_openings"]++
		// requests scheduled after a server pause of more than 2 s
		at, late, pauses := 0, 0, 0
		segEnd, si, paused := 0, 0, false
		for i := range wire {
			for si < len(d.Segs) && i >= segEnd {
				if d.GapsUs[si] > 2000000 {
					paused = true
					pauses++
				}
				at += d.GapsUs[si]
				segEnd += d.Segs[si]
				si++
			}
			if paused && i < len(ref.state) && ref.state[i] == 2 {
				late++
			}
		}
		obs["long_pauses_over_2s_inside_window"] += int64(pauses)
		obs["long_requests_after_a_pause_over_2s"] += int64(late)
		obs["rounds_completed"] += int64(srv.roundsDone)
		nontrivial = late >= 1
	}
	if d.Family == "reactive" {
		tags = append(tags, "family=reactive", fmt.Sprintf("reactive-rounds=%d", len(d.RoundEnds)))
		obs["reactive_openings"]++
		obs["rounds_completed"] += int64(srv.roundsDone)
		obs["reactive_answer_wait_us_sum"] = srv.maxAnswerWait.Microseconds()
		// rounds (other than the last) that end with the option code of a request: nothing follows that could trigger the answers
		bare := 0
		off := 0
		re := map[int]bool{}
		for _, i := range d.RoundEnds {
			re[i] = true
		}
		full := wireOf(d.Items)
		st := refParse(full).state
		for i, n := range d.Segs {
			off += n
			if re[i] && off < len(full) && off >= 1 && st[off-1] == 2 {
				bare++
			}
		}
		obs["reactive_rounds_ending_with_a_request"] += int64(bare)
		nontrivial = srv.roundsDone >= 2 && bare >= 1
	}
	tags = dedupe(tags)

	var keys, details []string
	if k, dt := judgeData(d, wire, ref, tail, got); k != "" {
		keys, details = append(keys, k), append(details, dt)
	}
	if k, dt := judgeReplies(wire, ref, srv.recv); k != "" {
		keys, details = append(keys, k), append(details, dt)
	}
	if changed != "" {
		keys, details = append(keys, "c15/delivered-chunk-changed-after-return"), append(details, changed)
	}
	if lateKey != "" && len(keys) == 0 {
		// a verdict that rests on real time: only with a quiet machine, and it must repeat (earlyPattern)
		if mon.LoadedSince(t0) {
			return inconclusive("reactive: answers later than the server's bound while the load canary overshot")
		}
		if psi1, ok := cpuPressure(); ok && psiOK {
			if el := time.Since(t0); psi1-psi0 > el/2 {
				return inconclusive("reactive: answers later than the server's bound while tasks were waiting for a CPU")
			}
		}
		if srv.retrans != 0 || srv.deliveredSeq == 0 {
			return inconclusive("reactive: answers later than the server's bound, retransmissions on the connection")
		}
		ev := []string{fmt.Sprintf("opening sent: %s (of %s)", hx(wire), hx(wireOf(d.Items))), fmt.Sprintf("segments %v round ends %v", d.Segs, d.RoundEnds),
			fmt.Sprintf("received at give-up: %s; at the end: %s; expected: %s", hx(srv.recv[:srv.recvAtGiveUp]), hx(srv.recv), hx(ref.replies)),
			fmt.Sprintf("rounds completed %d; longest wait for answers %s; Open took %s", srv.roundsDone, srv.maxAnswerWait, openT.Sub(t0))}
		return mon.Result{Verdict: mon.Violated, Key: lateKey, Detail: lateDetail, Events: ev, NonTrivial: true, Obs: obs, Tags: tags}, true
	}
	if readErr != io.EOF && len(keys) == 0 {
		keys = append(keys, "c15/read-error:"+errClass(readErr))
		details = append(details, fmt.Sprintf("Read after the server's half-close returned %v instead of io.EOF", readErr))
	}
	if len(keys) > 0 {
		margin := openT.Sub(srv.deliveredT)
		if ok, n := explainedByEarlyStop(wire, tail, got, srv.recv); ok {
			// exactly what a correct client shows whose window ended after n bytes (the rest arrives raw)
			earlyPattern = true
			// windows of 4 s and more: the pauses end more than a second before the window does
			// (gapLimit), so a 100 ms canary overshoot explains nothing; only a saturated machine excuses
			longWin := T/2 >= 4*time.Second
			if !longWin && mon.LoadedSince(t0) {
				return inconclusive("negotiation window ended early: load canary overshot (after %d of %d bytes)", n, len(wire))
			}
			if psi1, ok := cpuPressure(); ok && psiOK {
				if el := time.Since(t0); (!longWin && psi1-psi0 > el/2) || psi1-psi0 > el*9/10 { // saturated machine (observed: ~0.9 at load average 100, 0.1-0.3 at load average 7 on 16 cores)
					return inconclusive("negotiation window ended early: tasks were waiting for a CPU (PSI some %s of %s; after %d of %d bytes)", psi1-psi0, el, n, len(wire))
				}
			}
			if !orderOK || margin < T/4 {
				// the window ended before, or about when, the last byte got there. A defect only if every
				// burst was in the client's receive queue well inside the window that applied to it:
				// acknowledged within 60 % of TimeoutSocket/4 from the dial (first burst) resp. of
				// TimeoutSocket/2 from the start of the previous burst's last write and from its own start.
				if srv.deliveredSeq == 0 || srv.retrans != 0 || srv.pacedGap >= gapLimit(T) {
					return inconclusive(earlyMsg)
				}
				keys = []string{"c15/negotiation-window-ended-early"}
				details = append(details, fmt.Sprintf("every one of the %d bursts was acknowledged by the client's kernel within %.2f of the read window that applied to it (TimeoutSocket/4 = %s from the dial for the first, TimeoutSocket/2 = %s re-armed after every byte later), no retransmission; Open returned after %s",
					srv.bursts, srv.pacedGap, T/4, T/2, openT.Sub(t0)))
			}
			details = append(details, fmt.Sprintf("the observation equals a client whose negotiation phase ended after %d of %d bytes", n, len(wire)))
		} else if !orderOK {
			return inconclusive(earlyMsg)
		}
		ev := []string{fmt.Sprintf("opening   : %s", hx(wire)), fmt.Sprintf("segments  : %v gaps_us %v", d.Segs, d.GapsUs),
			fmt.Sprintf("server got: %s", hx(srv.recv)), fmt.Sprintf("expected  : %s", hx(ref.replies)),
			fmt.Sprintf("reads     : %v (first sizes) total %d bytes: %s", readSizes, len(got), hx(got)),
			fmt.Sprintf("expected  : %s (escaped IAC once) + tail %s", hx(dataBytes(ref.data, false)), hx(tail)),
			fmt.Sprintf("order     : last server write event %d, opening acknowledged event %d, Open returned event %d; Open took %s, returned %s after the acknowledgement; worst write gap/window %.3f; retransmissions %d",
				srv.lastWriteSeq, srv.deliveredSeq, openSeq, openT.Sub(t0), margin, srv.worstGap, srv.retrans)}
		return mon.Result{Verdict: mon.Violated, Key: keys[0], Detail: strings.Join(details, "\n"), Events: ev, NonTrivial: nontrivial, Obs: obs, Tags: tags}, earlyPattern
	}
	if !orderOK {
		return inconclusive(earlyMsg)
	}
	if bytes.Equal(got, append(dataBytes(ref.data, true), tail...)) && obs["escaped_iac"] > 0 {
		tags = append(tags, "escaped-iac-delivered=twice")
	} else if obs["escaped_iac"] > 0 {
		tags = append(tags, "escaped-iac-delivered=once")
	}
	return mon.Result{Verdict: mon.Held, NonTrivial: nontrivial, Obs: obs, Tags: tags,
		Sample: map[string]interface{}{"opening": hx(wire), "segments": len(d.Segs), "server_received": hx(srv.recv), "data_read": hx(got),
			"first_read_sizes": readSizes, "open_ms": openT.Sub(t0).Milliseconds(), "timeout_socket_ms": d.TimeoutMs,
			"opening_acked_ms": srv.deliveredT.Sub(t0).Milliseconds()}}, false
}

func dedupe(t []string) []string {
	seen := map[string]bool{}
	var o []string
	for _, x := range t {
		if !seen[x] {
			seen[x] = true
			o = append(o, x)
		}
	}
	return o
}

func max(a, b int) int {
	if a > b {
		return a
	}
	return b
}

func init() {
	mon.Register(&mon.Property{
		ID:    "C15",
		Level: "exploration",
		Rule: "PRNG-generated telnet openings (0-35 items: IAC DO/DONT/WILL/WONT x option codes incl. 3, 255 and codes equal to command bytes; " +
			"two-byte commands 240-250 (SE and SB included, also as IAC SB <option> <parameters> [IAC SE]); escaped IAC IAC; text incl. bytes 240-254 as plain data) sent over real loopback TCP in PRNG segments " +
			"(whole / per byte / geometric / exactly inside every IAC sequence / mixed; gaps 0-2 ms), socket timeout 600-1600 ms, read size 1-65535, " +
			"optional plain tail sent after Open. Non-trivial = opening with >=1 two-byte command or escaped IAC and >=2 TCP segments. " +
			"Paced family (24 quick / 300 thorough): timeout 800/1200 ms, 4-8 bursts (a request in each), first at once, pauses 25-45 % of TimeoutSocket/2, span 0.6-1.5 x timeout; " +
			"non-trivial = a request scheduled later than TimeoutSocket/2 after the dial. " +
			"Long-timeout family (6 quick / 42 thorough): TimeoutSocket 10 s or the library default (30 s, no option), a server pause of 2.5-3.5 s inside the window (between rounds; before the first byte with the default) followed by further requests; " +
			"scripted, two-pause and reactive variants; the server hangs up after the last byte (Open returns EOF, the buffered data is read) or, with 10 s, sits out the idle window; non-trivial = a request after a pause > 2 s. " +
			"Reactive family (32 quick / 400 thorough): 2-4 rounds of 1-4 requests, with or without trailing text; the server sends round r+1 only after it has received every answer byte the rounds so far call for " +
			"(bounded wait TimeoutSocket/4 from the kernel's acknowledgement of the round; on give-up the case is judged on what was exchanged); non-trivial = >=2 rounds completed and a non-final round ending with a request's option code. " +
			"Re-open family (60 quick / 600 thorough): 2-3 consecutive openings on one transport object (3/4) or one driver object (1/4, re-Open after failed Opens only), earlier openings end in parser state clean / after IAC / after IAC verb / after IAC SB / mid-subnegotiation / subnegotiation+IAC, " +
			"by idle-window expiry, server half-close (EOF) or reset, with and without reading what was buffered and with and without Close; every opening inside the quantifier is judged against a fresh reference; " +
			"non-trivial = an earlier opening ended inside a sequence and a later opening was judged. Distinct = distinct descriptor hash.",
		Assumptions: []string{
			"IAC followed by any command code 240..250 is a two-byte command and what follows it is data, as the property's wording has it (and the unchanged parser does): no RFC 855 subnegotiation semantics are claimed, a client that consumed IAC SB ... IAC SE would be reported as losing data; IAC followed by a byte below 240 is not generated",
			"every byte of the opening reaches the client inside its negotiation window: judged only if the kernel reported the whole opening sent and acknowledged (TCP_INFO of the server socket: unacked=0, notsent=0) before Open returned (shared event counter, no durations); " +
				"an outcome equal to a correct client's whose window ended early is a violation only if every burst was acknowledged within 60 % of the read window applying to it (timeout/4 from the dial for the first; timeout/2 from the previous burst's last write for later ones), without retransmission, canary and PSI quiet, reproduced 3 of 3 - otherwise inconclusive",
			"linux, little-endian (struct tcp_info offsets 24/100/144)",
			"reactive: requests of a round the client's kernel had received are expected to be answered within TimeoutSocket/4 (half the idle window the library itself grants); a missing answer at that point is a violation only with canary and PSI quiet, no retransmission, and reproduced 3 of 3 - otherwise inconclusive",
			"re-open: a new connection is a new telnet stream (fresh reference; bytes of an earlier connection delivered by a later opening's reads are a violation); openings ending in IAC SB ... are judged like any other (two-byte command + data); via the driver the channel's CR removal is applied to the expectation and ESC is kept out of the text",
			"an escaped IAC IAC may be delivered as one or two 0xff bytes (consistently within a case)",
			"bytes after Open (the tail) carry no 0xff; the server half-closes after the tail so that the reads end with io.EOF instead of a quiet period",
			"reference: RFC 854 receiver state machine (refParse, ~45 lines) over the wire bytes",
		},
		Gen: func(tier string, seed int64) []mon.Case {
			n := 200
			if tier == "thorough" {
				n = 5000
			}
			r := rand.New(rand.NewSource(seed*104729 + 15))
			cs := make([]mon.Case, 0, n)
			nl := 6 // long socket timeouts cost real seconds each: first in the list, spread over the workers
			if tier == "thorough" {
				nl = 42
			}
			rl := rand.New(rand.NewSource(seed*86028121 + 154))
			for i := 0; i < nl; i++ {
				cs = append(cs, mon.MkCase(fmt.Sprintf("c15/l%04d", i), GenLong(rl, i)))
			}
			np := 24
			if tier == "thorough" {
				np = 300
			}
			rp := rand.New(rand.NewSource(seed*15485863 + 151))
			for i := 0; i < np; i++ {
				cs = append(cs, mon.MkCase(fmt.Sprintf("c15/p%04d", i), GenPaced(rp)))
			}
			nx := 32
			if tier == "thorough" {
				nx = 400
			}
			rx := rand.New(rand.NewSource(seed*49979687 + 153))
			for i := 0; i < nx; i++ {
				cs = append(cs, mon.MkCase(fmt.Sprintf("c15/x%04d", i), GenReactive(rx)))
			}
			nr := 60
			if tier == "thorough" {
				nr = 600
			}
			rr := rand.New(rand.NewSource(seed*32452843 + 152))
			for i := 0; i < nr; i++ {
				cs = append(cs, mon.MkCase(fmt.Sprintf("c15/r%04d", i), GenReopen(rr, i)))
			}
			for i := 0; i < n; i++ {
				cs = append(cs, mon.MkCase(fmt.Sprintf("c15/%05d", i), GenDesc(r)))
			}
			return cs
		},
		Run: func(c mon.Case) mon.Result {
			var probe struct {
				Family string `json:"family"`
			}
			c.Decode(&probe)
			if probe.Family == "reopen" {
				var rd ReopenDesc
				c.Decode(&rd)
				return RunReopen(rd)
			}
			var d Desc
			c.Decode(&d)
			return Run(d)
		},
		Workers: func(tier string) int {
			if tier == "thorough" {
				return 8
			}
			return 4
		},
		Parallel:    func(string) int { return 64 },
		CaseTimeout: 120 * time.Second,
	})
}
