package c15

// Re-open family: 2-3 consecutive openings on ONE transport object (or one driver object), where the
// earlier openings end in every parser state and in every manner; each opening is judged against a
// FRESH reference parser - a new connection is a new telnet stream.

import (
	"bytes"
	"encoding/hex"
	"errors"
	"fmt"
	"io"
	"math/rand"
	"net"
	"os"
	"strings"
	"sync/atomic"
	"time"

	"github.com/scrapli/scrapligo/driver/generic"
	"github.com/scrapli/scrapligo/driver/options"
	"github.com/scrapli/scrapligo/logging"
	"github.com/scrapli/scrapligo/transport"

	"verif/internal/mon"
)

// ReOpening is one opening of a re-open session.
type ReOpening struct {
	Items   []Item `json:"items"`
	State   string `json:"end_state"`         // parser state when the opening ends: clean | iac | verb | sb | sbdata | sbiac
	Trailer string `json:"trailer,omitempty"` // hex of the incomplete sequence that produces it
	End     string `json:"end"`               // idle (window expires, Open returns nil) | eof (server half-closes) | reset (server aborts)
	Drain   bool   `json:"drain"`             // harness reads until an error after this opening
	Close   bool   `json:"close"`             // harness calls Close before the next Open
	Segs    []int  `json:"segs"`
	GapsUs  []int  `json:"gaps_us"`
	Tail    string `json:"tail,omitempty"`
}

// ReopenDesc is the descriptor of a re-open session.
type ReopenDesc struct {
	Family    string      `json:"family"` // "reopen"
	Via       string      `json:"via"`    // transport | driver
	TimeoutMs int         `json:"timeout_socket_ms"`
	ReadSize  int         `json:"read_size"`
	Ops       []ReOpening `json:"openings"`
}

var endStates = []string{"clean", "iac", "verb", "sb", "sbdata", "sbiac"}

func genTrailer(r *rand.Rand, st string) []byte {
	pay := func() []byte {
		n := 1 + r.Intn(5)
		b := make([]byte, n)
		for i := range b {
			b[i] = byte(1 + r.Intn(200))
		}
		return b
	}
	switch st {
	case "iac":
		return []byte{bIAC}
	case "verb":
		return []byte{bIAC, byte(verbs[r.Intn(4)])}
	case "sb":
		return []byte{bIAC, bSB}
	case "sbdata":
		return append([]byte{bIAC, bSB, byte([]int{24, 31, 32, 39}[r.Intn(4)])}, pay()...)
	case "sbiac":
		return append(append([]byte{bIAC, bSB, 24}, pay()...), bIAC)
	}
	return nil
}

func noEsc(items []Item) []Item { // the channel strips ANSI sequences: keep ESC out of driver sessions
	for i, it := range items {
		if it.K == "text" {
			b, _ := hex.DecodeString(it.X)
			for j := range b {
				if b[j] == 0x1b {
					b[j] = 0x1a
				}
			}
			items[i].X = hex.EncodeToString(b)
		}
	}
	return items
}

// GenReopen draws one re-open session.
func GenReopen(r *rand.Rand, idx int) ReopenDesc {
	d := ReopenDesc{Family: "reopen", Via: "transport"}
	if r.Intn(4) == 0 {
		d.Via = "driver"
	}
	d.TimeoutMs = []int{800, 800, 600}[r.Intn(3)]
	d.ReadSize = []int{1, 7, 8192, 65535}[r.Intn(4)]
	n := 2 + r.Intn(2)
	for k := 0; k < n; k++ {
		last := k == n-1
		var op ReOpening
		ni := r.Intn(6)
		w := [][4]int{{4, 2, 1, 3}, {3, 1, 1, 3}, {1, 0, 0, 1}, {2, 1, 1, 0}}[r.Intn(4)]
		for i := 0; i < ni; i++ {
			op.Items = append(op.Items, genItem(r, w))
		}
		if last {
			// the later opening starts with what a stale state would mangle: a request, text, or both
			var first []Item
			switch r.Intn(4) {
			case 0:
				first = []Item{{K: "neg", V: bDO, O: bSGA}}
			case 1:
				first = []Item{{K: "text", X: hex.EncodeToString([]byte(banners[r.Intn(len(banners))]))}}
			case 2:
				first = []Item{{K: "neg", V: verbs[r.Intn(4)], O: genOpt(r)}, {K: "text", X: hex.EncodeToString(genText(r))}}
			}
			op.Items = append(first, op.Items...)
			if len(op.Items) == 0 {
				op.Items = []Item{{K: "text", X: hex.EncodeToString([]byte("login: "))}}
			}
		}
		// the designed end state: cycle through all of them over the case list, then PRNG
		op.State = endStates[(idx+k)%len(endStates)]
		if r.Intn(3) == 0 {
			op.State = endStates[r.Intn(len(endStates))]
		}
		op.End = []string{"idle", "idle", "eof", "eof", "reset"}[r.Intn(5)]
		op.Drain = r.Intn(10) < 7
		op.Close = op.End == "idle" || r.Intn(2) == 0
		if d.Via == "driver" && !last {
			// a driver can only be re-opened after an Open that failed in the transport
			op.End = []string{"eof", "eof", "reset"}[r.Intn(3)]
			op.Drain, op.Close = false, false
			if r.Intn(2) == 0 { // half of the failed openings carry no data (nothing stale to deliver)
				var it []Item
				for _, x := range op.Items {
					if x.K == "neg" || x.K == "cmd" {
						it = append(it, x)
					}
				}
				op.Items = it
			}
		}
		if last {
			op.End, op.Drain, op.Close = "idle", true, true
			op.State = []string{"clean", "clean", "clean", "iac", "verb"}[r.Intn(5)]
			if r.Intn(2) == 0 {
				op.Tail = hex.EncodeToString(genText(r))
			}
		}
		if strings.HasPrefix(op.State, "sb") && d.Via == "transport" {
			op.Drain = true
		}
		if op.End == "idle" && !op.Drain {
			op.Tail = ""
		}
		if d.Via == "driver" {
			op.Items = noEsc(op.Items)
			if t, _ := hex.DecodeString(op.Tail); len(t) > 0 {
				op.Tail = hex.EncodeToString(bytes.ReplaceAll(t, []byte{0x1b}, []byte{0x1a}))
			}
		}
		if op.State != "clean" {
			op.Trailer = hex.EncodeToString(genTrailer(r, op.State))
			op.Tail = ""
		}
		tr, _ := hex.DecodeString(op.Trailer)
		L := len(wireOf(op.Items)) + len(tr)
		// segmentation: whole, or PRNG cuts with a cut right before the trailer now and then
		prev := 0
		for i := 1; i <= L; i++ {
			if i == L || r.Intn(6) == 0 || (i == L-len(tr) && r.Intn(2) == 0) {
				op.Segs = append(op.Segs, i-prev)
				op.GapsUs = append(op.GapsUs, r.Intn(800))
				prev = i
			}
		}
		d.Ops = append(d.Ops, op)
	}
	return d
}

// ---------------------------------------------------------------------------------------------

type reClient interface {
	open() error
	drain(max int, kept *keptReads) (got []byte, reads int, err error)
	close()
}

type trClient struct{ tr *transport.Transport }

func (c trClient) open() error { return c.tr.Open() }
func (c trClient) close() {
	defer func() { recover() }()
	c.tr.Close(false)
}
func (c trClient) drain(max int, kept *keptReads) (got []byte, reads int, err error) {
	defer func() {
		if x := recover(); x != nil {
			err = fmt.Errorf("panic in Read: %v", x)
		}
	}()
	for i := 0; ; i++ {
		b, e := c.tr.Read()
		reads++
		kept.add(b) // retained without copying; rechecked after later reads, Close and later openings
		got = append(got, b...)
		if e != nil {
			return got, reads, e
		}
		if i > max {
			return got, reads, errors.New("harness: Read keeps returning without error or progress")
		}
	}
}

type drvClient struct{ d *generic.Driver }

func (c drvClient) open() error { return c.d.Open() }
func (c drvClient) close() {
	done := make(chan struct{})
	go func() { defer func() { recover(); close(done) }(); c.d.Close() }()
	select {
	case <-done:
	case <-time.After(5 * time.Second):
	}
}

// drain: everything the channel's read loop queued until it went away on the server's half-close.
func (c drvClient) drain(max int, _ *keptReads) (got []byte, reads int, err error) {
	deadline := time.Now().Add(20 * time.Second)
	for {
		b, e := c.d.Channel.Read()
		if e != nil {
			break // read loop has exited (EOF): whatever is left is in the queue
		}
		if b != nil {
			reads++
			got = append(got, b...)
		} else {
			time.Sleep(500 * time.Microsecond)
		}
		if time.Now().After(deadline) {
			return got, reads, errors.New("harness: channel read loop still running 20 s after the server's half-close")
		}
	}
	b, _ := c.d.Channel.ReadAll()
	got = append(got, b...)
	return got, reads + 1, io.EOF
}

func stripCR(b []byte) []byte { return bytes.ReplaceAll(b, []byte("\r"), nil) }

const chunkChangedKey = "c15/delivered-chunk-changed-after-return"

// RunReopen executes one session; early=true if the only complaint equals a window that ended early.
func runReopenOnce(d ReopenDesc) (res mon.Result, early bool) {
	inconclusive := func(f string, a ...interface{}) (mon.Result, bool) {
		return mon.Result{Verdict: mon.Inconclusive, Detail: fmt.Sprintf(f, a...)}, false
	}
	host := "127.0.0.1"
	ln, err := net.Listen("tcp4", host+":0")
	for try := 0; err != nil && try < 4; try++ {
		k := listenCtr.Add(1) + int64(os.Getpid())*977
		host = fmt.Sprintf("127.%d.%d.%d", 1+(k/62500)%100, (k/250)%250, 1+k%250)
		ln, err = net.Listen("tcp4", host+":0")
	}
	if err != nil {
		return inconclusive("harness: listen failed: %v", err)
	}
	defer ln.Close()
	port := ln.Addr().(*net.TCPAddr).Port
	T := time.Duration(d.TimeoutMs) * time.Millisecond
	var cl reClient
	if d.Via == "driver" {
		dr, err := generic.NewDriver(host, options.WithTransportType(transport.TelnetTransport), options.WithPort(port),
			options.WithTimeoutSocket(T), options.WithTransportReadSize(d.ReadSize), options.WithAuthBypass())
		if err != nil {
			return mon.Result{Verdict: mon.Violated, Key: "c15/new-driver-failed", Detail: err.Error()}, false
		}
		cl = drvClient{dr}
	} else {
		lg, _ := logging.NewInstance()
		tr, err := transport.NewTransport(lg, host, transport.TelnetTransport,
			options.WithPort(port), options.WithTimeoutSocket(T), options.WithTransportReadSize(d.ReadSize))
		if err != nil {
			return mon.Result{Verdict: mon.Violated, Key: "c15/new-transport-failed", Detail: err.Error()}, false
		}
		cl = trClient{tr}
	}
	defer cl.close()

	obs := map[string]int64{"reopen_sessions": 1}
	tags := []string{"family=reopen", "reopen-via=" + d.Via}
	var ev []string
	var stale []byte // data of earlier openings the library buffered and nobody read (reference view, escaped IAC once)
	staleFrom := ""
	judgedLater, dirtyEarlier := 0, 0
	var seq atomic.Int64
	var kept keptReads // all slices returned by reads of this session, over all openings
	norm := func(b []byte) []byte {
		if d.Via == "driver" {
			return stripCR(b)
		}
		return b
	}

	for k, op := range d.Ops {
		trailer, _ := hex.DecodeString(op.Trailer)
		tail, _ := hex.DecodeString(op.Tail)
		wire := append(wireOf(op.Items), trailer...)
		ref := refParse(wire)
		judgeable := true // IAC SB is a two-byte command to the property: what follows it is data
		psi0, psiOK := cpuPressure()
		t0 := time.Now()
		srv := &server{ln: ln, wire: wire, segs: op.Segs, gaps: op.GapsUs, tail: tail, seq: &seq, t0: t0, window: T,
			openDone: make(chan struct{}), done: make(chan struct{}), end: op.End, release: make(chan struct{})}
		go srv.run()
		openErr := cl.open()
		openT := time.Now()
		openSeq := seq.Add(1)
		close(srv.openDone)
		obs["reopen_openings"]++
		obs["reopen_end_state_"+op.State]++
		how := op.End
		if openErr != nil {
			how += "/open-error"
		} else {
			how += "/open-ok"
		}
		tags = append(tags, fmt.Sprintf("reopen-end=%s+%s", op.State, how), fmt.Sprintf("reopen-drain=%v,close=%v", op.Drain, op.Close))
		ev = append(ev, fmt.Sprintf("opening %d: wire %s (end state %s, end %s) -> Open: %v", k, hx(wire), op.State, op.End, openErr))
		if op.State != "clean" && k < len(d.Ops)-1 {
			dirtyEarlier++
		}
		viol := func(key, detail string) (mon.Result, bool) {
			if k > 0 && key != chunkChangedKey {
				key = "c15/reopen-" + strings.TrimPrefix(key, "c15/")
			}
			return mon.Result{Verdict: mon.Violated, Key: key, NonTrivial: true, Obs: obs, Tags: dedupe(tags), Events: ev,
				Detail: fmt.Sprintf("re-open session via %s, opening %d of %d (earlier openings: %s)\n%s", d.Via, k+1, len(d.Ops), earlier(d, k), detail)}, false
		}
		if op.End == "idle" && openErr != nil {
			close(srv.release)
			var oe *net.OpError
			if errors.As(openErr, &oe) && oe.Op == "dial" {
				return inconclusive("harness: dial failed: %v", openErr)
			}
			return viol("c15/open-error:"+errClass(openErr), fmt.Sprintf("Open returned %v for opening %s", openErr, hx(wire)))
		}
		if op.End != "idle" && openErr == nil {
			close(srv.release)
			<-srv.done
			return inconclusive("re-open: Open did not see the server's hang-up (negotiation window ended first)")
		}
		var got []byte
		var readErr error
		if op.Drain {
			var n int
			got, n, readErr = cl.drain(2*(len(wire)+len(tail)+len(stale))+1000, &kept)
			obs["reads"] += int64(n)
		}
		if op.Close {
			cl.close()
		}
		close(srv.release)
		select {
		case <-srv.done:
		case <-time.After(45 * time.Second):
			return inconclusive("harness: server goroutine did not finish")
		}
		if srv.err != nil {
			return inconclusive("harness: %v", srv.err)
		}
		ev = append(ev, fmt.Sprintf("opening %d: server received %s; read %s (%v)", k, hx(srv.recv), hx(got), readErr))

		if judgeable && op.End != "reset" {
			var keys, details []string
			staleSeen, staleLen := false, 0
			if op.Drain {
				g := got
				e1 := norm(append(dataBytes(ref.data, false), tail...))
				e2 := norm(append(dataBytes(ref.data, true), tail...))
				ns := norm(stale)
				if len(ns) > 0 && !bytes.Equal(g, e1) && !bytes.Equal(g, e2) {
					// the new connection's data preceded by (part of: a reset cuts anywhere) what earlier connections left
					for _, e := range [][]byte{e1, e2} {
						if p := len(g) - len(e); p > 0 && bytes.Equal(g[p:], e) {
							if ok, _ := isSubseq(g[:p], ns); ok {
								staleSeen, staleLen = true, p
								break
							}
						}
					}
					if !staleSeen && bytes.HasPrefix(g, ns) {
						staleSeen, staleLen = true, len(ns)
					}
					g = g[staleLen:]
				}
				if d.Via == "driver" {
					if !bytes.Equal(g, e1) && !bytes.Equal(g, e2) {
						kk := "c15/data-mismatch"
						if ok, _ := isSubseq(g, e1); ok {
							kk = "c15/data-lost:via-channel"
						} else if ok, _ := isSubseq(e1, g); ok {
							kk = "c15/extra-bytes-in-data"
						}
						keys = append(keys, kk)
						details = append(details, fmt.Sprintf("data queued by the channel differs from the reference (CR removed)\n got: %s\nwant: %s\n(opening %s)", hx(g), hx(e1), hx(wire)))
					}
				} else if kk, dt := judgeData(Desc{Items: op.Items}, wire, ref, tail, g); kk != "" {
					keys, details = append(keys, kk), append(details, dt)
				}
			}
			if op.Close || op.End == "idle" {
				if kk, dt := judgeReplies(wire, ref, srv.recv); kk != "" {
					keys, details = append(keys, kk), append(details, dt)
				}
			}
			if len(keys) == 0 && op.Drain && op.End == "idle" && readErr != io.EOF {
				keys = append(keys, "c15/read-error:"+errClass(readErr))
				details = append(details, fmt.Sprintf("Read after the server's half-close returned %v instead of io.EOF", readErr))
			}
			orderOK := op.End != "idle" || (srv.deliveredSeq != 0 && srv.deliveredSeq < openSeq)
			const earlyMsg = "Open returned before the whole opening had reached the client (negotiation window closed first)"
			if len(keys) > 0 {
				g := got
				g = g[staleLen:]
				if ok, n := explainedByEarlyStop(wire, tail, g, srv.recv, norm); ok && op.End == "idle" && op.Drain {
					early = true
					if mon.LoadedSince(t0) {
						return inconclusive("negotiation window ended early: load canary overshot (after %d of %d bytes)", n, len(wire))
					}
					if psi1, ok := cpuPressure(); ok && psiOK {
						if el := time.Since(t0); psi1-psi0 > el/2 {
							return inconclusive("negotiation window ended early: tasks were waiting for a CPU (PSI some %s of %s; after %d of %d bytes)", psi1-psi0, el, n, len(wire))
						}
					}
					if !orderOK || openT.Sub(srv.deliveredT) < T/4 {
						if srv.deliveredSeq == 0 || srv.retrans != 0 || srv.pacedGap >= 0.6 {
							return inconclusive(earlyMsg)
						}
						keys[0] = "c15/negotiation-window-ended-early"
					}
					details = append(details, fmt.Sprintf("the observation equals a client whose negotiation phase ended after %d of %d bytes (opening acknowledged %s after the dial, Open returned after %s)",
						n, len(wire), srv.deliveredT.Sub(t0), openT.Sub(t0)))
				} else if !orderOK {
					return inconclusive(earlyMsg)
				}
				r, _ := viol(keys[0], strings.Join(details, "\n"))
				return r, early
			}
			if !orderOK {
				return inconclusive(earlyMsg)
			}
			if staleSeen {
				return viol("c15/stale-data:"+staleFrom, fmt.Sprintf("the first reads of this opening delivered %d byte(s) of an EARLIER connection before the new connection's data\n got: %s\nwant: %s\n(stale: %s; this opening %s)",
					staleLen, hx(got), hx(norm(append(dataBytes(ref.data, false), tail...))), hx(norm(stale)), hx(wire)))
			}
			if k > 0 {
				judgedLater++
				obs["reopen_later_openings_judged"]++
				obs["reopen_later_requests_answered"] += int64(len(ref.reqs))
			}
		}
		// every slice any read of this session returned so far must still hold what it held then
		if n, complaint := kept.recheck(); complaint != "" {
			return viol(chunkChangedKey, complaint)
		} else {
			obs["chunks_rechecked_after_later_reads"] = int64(n)
		}
		// what the library may still hold for the next opening (reference view)
		if op.Drain {
			stale, staleFrom = nil, ""
		} else if len(ref.data) > 0 {
			stale = append(stale, dataBytes(ref.data, false)...)
			if openErr != nil {
				staleFrom = "after-failed-open"
			} else {
				staleFrom = "after-unread-open"
			}
		}
	}
	return mon.Result{Verdict: mon.Held, NonTrivial: judgedLater > 0 && dirtyEarlier > 0, Obs: obs, Tags: dedupe(tags),
		Sample: map[string]interface{}{"via": d.Via, "openings": ev}}, false
}

func earlier(d ReopenDesc, k int) string {
	var s []string
	for i := 0; i < k; i++ {
		o := d.Ops[i]
		s = append(s, fmt.Sprintf("#%d ended %s in state %s, drain=%v close=%v", i+1, o.End, o.State, o.Drain, o.Close))
	}
	if len(s) == 0 {
		return "none"
	}
	return strings.Join(s, "; ")
}

// RunReopen: like Run, an outcome that equals an early end of the negotiation window must repeat.
func RunReopen(d ReopenDesc) mon.Result {
	r, early := runReopenOnce(d)
	if r.Verdict != mon.Violated || !early {
		return r
	}
	for i := 0; i < 2; i++ {
		r2, early2 := runReopenOnce(d)
		if r2.Verdict != mon.Violated || !early2 {
			return mon.Result{Verdict: mon.Inconclusive, Detail: "negotiation window ended early once, not reproduced in a repetition (" + string(r2.Verdict) + "): " + r2.Detail}
		}
	}
	r.Detail += "\n(reproduced in 3 of 3 executions)"
	return r
}
