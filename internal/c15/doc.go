// Package c15 holds the runtime monitor for property C15 (see DESIGN.md §3 C15).
package c15
