package c16

import (
	"bytes"
	"fmt"
	"math/rand"
	"regexp"
	"strings"
	"sync"
	"sync/atomic"
	"time"

	"github.com/scrapli/scrapligo/driver/generic"
	"github.com/scrapli/scrapligo/driver/netconf"
	"github.com/scrapli/scrapligo/driver/options"
	"github.com/scrapli/scrapligo/logging"
	"github.com/scrapli/scrapligo/response"
	"github.com/scrapli/scrapligo/transport"
	"github.com/scrapli/scrapligo/util"

	"verif/internal/devsim"
	"verif/internal/mon"
	"verif/internal/ncsim"
	"verif/internal/ncwire"
	"verif/internal/sshsim"
)

// ---- end-to-end differential: CLI -----------------------------------------------------------------

const cliPrompt = "edge-r1#"
const cliTerm = "!%^&*+=?|"
const cliOutAlpha = "abcdefghijklmnopqrstuvwxyzABCDEFGHIJKLMNOPQRSTUVWXYZ0123456789 -_/.:,;()[]{}<@'\"\\"

var cliPromptRe = regexp.MustCompile(`(?im)^[a-z\d.\-@()/:]{1,48}[#>$]\s*$`)

type cliCmd struct {
	Text string
	Out  string // device output, lines end in NL
}

type cliScript struct {
	NL   string
	Cmds []cliCmd
}

func rstr(r *rand.Rand, alpha string, n int) string {
	b := make([]byte, n)
	for i := range b {
		b[i] = alpha[r.Intn(len(alpha))]
	}
	return string(b)
}

func genCLIScript(seed int64) cliScript {
	r := rand.New(rand.NewSource(seed))
	s := cliScript{NL: []string{"\r\n", "\n"}[r.Intn(2)]}
	n := 3 + r.Intn(4)
	terms := r.Perm(len(cliTerm))
	bigAt := r.Intn(n)
	for i := 0; i < n; i++ {
		nl := r.Intn(12)
		if i == bigAt {
			nl = 200 + r.Intn(1500) // crosses every read size, > 64 KB now and then
		}
		var out strings.Builder
		for j := 0; j < nl; j++ {
			for {
				ll := r.Intn(70)
				if r.Intn(10) == 0 {
					ll = 0
				}
				line := rstr(r, cliOutAlpha, ll)
				// generator precondition, brute force with the session's prompt pattern: no prefix of the
				// line may look like a prompt (the alphabet has none of # > $, so this never rejects)
				okLine := true
				for k := 1; k <= len(line); k++ {
					if cliPromptRe.MatchString(line[:k]) {
						okLine = false
						break
					}
				}
				if okLine {
					out.WriteString(line + s.NL)
					break
				}
			}
		}
		body := strings.TrimLeft(rstr(r, "abcdefghijklmnopqrstuvwxyz0123456789 -_/.", r.Intn(25)), " ")
		s.Cmds = append(s.Cmds, cliCmd{Text: body + string(cliTerm[terms[i]]), Out: out.String()})
	}
	return s
}

// motd is what a telnet server says right after accept, before anyone typed anything; longer than
// the small read sizes so that the burst consumed during the client's negotiation window does not
// fit one read.
func motd(nl string) string {
	var b strings.Builder
	b.WriteString("c16 device" + nl)
	for i := 0; i < 6; i++ {
		b.WriteString(fmt.Sprintf("  notice %d: authorised use only, all activity on this system is recorded and reviewed", i) + nl)
	}
	return b.String()
}

// device builds the CLI device. login: the device first asks for user name and password (telnet).
func (s cliScript) device(login ...bool) *devsim.CLI {
	idx := 0
	dev := &devsim.CLI{
		Prompts: map[string]string{"exec": cliPrompt, "login": "Username: "}, Mode: "exec", NL: s.NL,
		Banner: []devsim.Token{devsim.T("c16 device" + s.NL)},
	}
	if len(login) > 0 && login[0] {
		dev.Mode = "login"
		dev.Banner = []devsim.Token{devsim.T(motd(s.NL))}
	}
	dev.Handler = func(d *devsim.CLI, mode, line string) devsim.Reply {
		if line == "" {
			return devsim.Reply{}
		}
		if mode == "login" {
			return devsim.Reply{Ask: &devsim.Ask{Prompt: "Password: ", Then: func(pw string) devsim.Reply {
				if line == sshUser && pw == sshPw {
					return devsim.Reply{NewMode: "exec", Out: []devsim.Token{devsim.T("welcome back, session 7 opened" + d.NL)}}
				}
				return devsim.Reply{Out: []devsim.Token{devsim.T("access denied" + d.NL)}}
			}}}
		}
		if idx < len(s.Cmds) && s.Cmds[idx].Text == line {
			idx++
			return devsim.Reply{Out: []devsim.Token{devsim.T(s.Cmds[idx-1].Out)}}
		}
		return devsim.Reply{Out: []devsim.Token{devsim.T("% unexpected input" + d.NL)}}
	}
	return dev
}

// cliOutcome is everything the caller of the library sees plus what the device received.
type cliOutcome struct {
	Err     string
	Results []string
	Prompt  string
	Lines   []string
}

func closeGeneric(d *generic.Driver) {
	done := make(chan struct{})
	go func() { defer func() { recover(); close(done) }(); d.Close() }()
	select {
	case <-done:
	case <-time.After(5 * time.Second):
	}
}

func driveCLI(s cliScript, d *generic.Driver, o *cliOutcome) {
	if err := d.Open(); err != nil {
		o.Err = "open: " + err.Error()
		return
	}
	defer closeGeneric(d)
	for i, c := range s.Cmds {
		r, err := d.SendCommand(c.Text)
		if err != nil {
			o.Err = fmt.Sprintf("command %d: %v", i, err)
			return
		}
		o.Results = append(o.Results, r.Result)
	}
	p, err := d.GetPrompt()
	if err != nil {
		o.Err = "get prompt: " + err.Error()
		return
	}
	o.Prompt = p
}

func deviceLines(conn *devsim.Conn, dev *devsim.CLI) []string {
	var l []string
	conn.Do(func() {
		for _, x := range dev.Lines {
			l = append(l, x.Line)
		}
	})
	return l
}

var baseOpts = func(rs int) []util.Option {
	return []util.Option{options.WithTransportReadSize(rs), options.WithTimeoutOps(40 * time.Second), options.WithTimeoutSocket(20 * time.Second)}
}

func runE2ECLI(d Desc) mon.Result {
	t0 := time.Now()
	s := genCLIScript(d.Seed)
	login := d.T == "telnet" // a telnet device talks first: banner + login prompt right after accept
	// reference: ideal pipe
	var ref cliOutcome
	{
		dev := s.device(login)
		ccfg := devsim.Config{Seg: devsim.Seg{Mode: "whole"}}
		var impl transport.Implementation
		conn := devsim.NewConn(dev, ccfg)
		impl = conn
		if login { // the same in-channel login dialogue over the ideal pipe
			ccfg.AuthType = "telnet"
			conn = devsim.NewConn(dev, ccfg)
			impl = &devsim.AuthConn{Conn: conn}
		}
		gd, err := generic.NewDriver("ideal", append(baseOpts(d.ReadSize), options.WithCustomTransport(impl),
			options.WithAuthUsername(sshUser), options.WithAuthPassword(sshPw))...)
		if err != nil {
			return mon.Result{Verdict: mon.Inconclusive, Detail: "harness: " + err.Error()}
		}
		driveCLI(s, gd, &ref)
		ref.Lines = deviceLines(conn, dev)
		conn.Abandon()
		if ref.Err != "" {
			return mon.Result{Verdict: mon.Inconclusive, Detail: "reference run over the ideal pipe failed: " + ref.Err}
		}
	}
	// the real transport
	var got cliOutcome
	dev := s.device(login)
	var sv *sshsim.Served
	var smu sync.Mutex
	serve := func(rw interface {
		Read([]byte) (int, error)
		Write([]byte) (int, error)
	}) {
		x := sshsim.Serve(rw, dev, devsim.Seg{Mode: "mix", Size: 1000, Seed: d.Seed})
		smu.Lock()
		sv = x
		smu.Unlock()
		x.Wait(120 * time.Second)
	}
	var gd *generic.Driver
	var err error
	var cleanup []func()
	defer func() {
		for i := len(cleanup) - 1; i >= 0; i-- {
			cleanup[i]()
		}
	}()
	switch d.T {
	case "telnet":
		p, e := sshsim.NewTCPPeer()
		if e != nil {
			return mon.Result{Verdict: mon.Inconclusive, Detail: "harness: " + e.Error()}
		}
		cleanup = append(cleanup, p.Close)
		go func() {
			if c, ok := <-p.C; ok {
				serve(c)
				c.Close()
			}
		}()
		gd, err = generic.NewDriver("127.0.0.1", append(baseOpts(d.ReadSize), options.WithTransportType(transport.TelnetTransport),
			options.WithPort(p.Port), options.WithTimeoutSocket(400*time.Millisecond), options.WithAuthUsername(sshUser), options.WithAuthPassword(sshPw))...)
	case "standard", "system-ssh":
		srv, e := sshsim.NewServer()
		if e != nil {
			return mon.Result{Verdict: mon.Inconclusive, Detail: "harness: " + e.Error()}
		}
		cleanup = append(cleanup, srv.Close)
		srv.SetAccount(sshUser, &sshsim.Account{Password: sshPw})
		srv.SetHandler(func(ss *sshsim.Session) { serve(ss) })
		tt := transport.StandardTransport
		if d.T == "system-ssh" {
			tt = transport.SystemTransport
		}
		gd, err = generic.NewDriver("127.0.0.1", append(baseOpts(d.ReadSize), options.WithTransportType(tt), options.WithPort(srv.Port()),
			options.WithAuthUsername(sshUser), options.WithAuthPassword(sshPw), options.WithAuthNoStrictKey())...)
	default:
		return mon.Result{Verdict: mon.Inconclusive, Detail: "harness: unknown transport " + d.T}
	}
	if err != nil {
		return mon.Result{Verdict: mon.Inconclusive, Detail: "harness: NewDriver: " + err.Error()}
	}
	driveCLI(s, gd, &got)
	pid := sshsim.SystemPid(gd.Transport.Impl)
	sshsim.ReapPid(pid, true, 5*time.Second)
	smu.Lock()
	if sv != nil {
		got.Lines = deviceLines(sv.Conn, dev)
		sv.Stop()
	}
	smu.Unlock()
	return compareOutcome(d, t0, fmt.Sprintf("%d commands", len(s.Cmds)), ref.Err, got.Err,
		[][2]interface{}{{ref.Results, got.Results}, {ref.Prompt, got.Prompt}, {ref.Lines, got.Lines}},
		[]string{"results", "prompt", "lines received by the device"}, outBytes(s), nil)
}

func outBytes(s cliScript) int {
	n := 0
	for _, c := range s.Cmds {
		n += len(c.Out)
	}
	return n
}

func compareOutcome(d Desc, t0 time.Time, what, refErr, gotErr string, pairs [][2]interface{}, names []string, volume int, explain func() (string, string)) mon.Result {
	key := "c16/e2e/" + strings.TrimPrefix(d.Kind, "e2e-") + "/" + d.T
	if gotErr != "" {
		if (strings.Contains(gotErr, "errTimeoutError") || strings.Contains(gotErr, "timeout")) && mon.LoadedSince(t0) {
			return mon.Result{Verdict: mon.Inconclusive, Detail: "real transport run timed out under load: " + gotErr}
		}
		return mon.Result{Verdict: mon.Violated, Key: key + ":error", NonTrivial: true,
			Detail: fmt.Sprintf("%s rs=%d seed=%d: the session that succeeds over the ideal pipe failed over the real transport: %s", d.T, d.ReadSize, d.Seed, gotErr)}
	}
	for i, p := range pairs {
		a, b := fmt.Sprintf("%q", p[0]), fmt.Sprintf("%q", p[1])
		if a != b {
			j := 0
			for j < len(a) && j < len(b) && a[j] == b[j] {
				j++
			}
			lo := j - 60
			if lo < 0 {
				lo = 0
			}
			clip := func(s string) string {
				hi := j + 100
				if hi > len(s) {
					hi = len(s)
				}
				if lo > len(s) {
					return ""
				}
				return s[lo:hi]
			}
			suffix, more := ":differs", ""
			if explain != nil {
				if sfx, m := explain(); sfx != "" || m != "" {
					if sfx != "" {
						suffix = sfx
					}
					more = "\n" + m
				}
			}
			return mon.Result{Verdict: mon.Violated, Key: key + suffix, NonTrivial: true,
				Detail: fmt.Sprintf("%s %s rs=%d seed=%d: %s differ between the ideal pipe and the real transport at rendered offset %d:\n ideal: …%s…\n real:  …%s…",
					d.T, d.Version, d.ReadSize, d.Seed, names[i], j, clip(a), clip(b)) + more}
		}
	}
	obs := map[string]int64{"e2e_sessions": 1, "e2e_device_output_bytes": int64(volume)}
	tags := []string{"e2e=" + strings.TrimPrefix(d.Kind, "e2e-") + "/" + d.T, fmt.Sprintf("readsize=%d", d.ReadSize)}
	if d.Version != "" {
		tags = append(tags, "netconf="+d.Version)
	}
	return mon.Result{Verdict: mon.Held, NonTrivial: true, Obs: obs, Tags: tags,
		Sample: map[string]interface{}{"session": d.Kind, "transport": d.T, "read_size": d.ReadSize, "script": what, "device_output_bytes": volume, "identical_to_ideal_pipe": true}}
}

// ---- end-to-end differential: NETCONF -------------------------------------------------------------

const ncAlpha = "abcdefghijklmnopqrstuvwxyzABCDEFGHIJKLMNOPQRSTUVWXYZ0123456789 -_/.:,;()[]{}@'=+*"

type ncScript struct {
	Version string
	Replies []string // reply bodies (inside <rpc-reply>) for the i-th rpc
	Chunks  [][]int  // chunk sizes per reply (1.1)
	Ops     []string
}

func genNCScript(seed int64, version string) ncScript {
	r := rand.New(rand.NewSource(seed))
	s := ncScript{Version: version}
	n := 4 + r.Intn(3)
	ops := []string{"get-config", "get", "edit-config", "lock", "unlock", "commit", "validate"}
	bigAt := r.Intn(n)
	for i := 0; i < n; i++ {
		op := ops[r.Intn(len(ops))]
		if i == bigAt {
			op = "get-config"
		}
		s.Ops = append(s.Ops, op)
		var body string
		switch op {
		case "get-config", "get":
			nl := 1 + r.Intn(20)
			if i == bigAt {
				nl = 300 + r.Intn(2500)
			}
			var b strings.Builder
			b.WriteString("<data>\n")
			for j := 0; j < nl; j++ {
				b.WriteString(fmt.Sprintf(" <item n=\"%d\">%s</item>\n", j, rstr(r, ncAlpha, r.Intn(60))))
			}
			b.WriteString("</data>")
			body = b.String()
		default:
			body = "<ok/>"
		}
		s.Replies = append(s.Replies, body)
		// chunking of the framed reply is decided when its total length is known (see server)
		s.Chunks = append(s.Chunks, []int{r.Intn(5), r.Intn(1 << 20), r.Intn(1 << 20), r.Intn(1 << 20)})
	}
	return s
}

// server builds the NETCONF server model. paced: every reply is sent in two halves 80 ms apart (a
// slow device).
func (s ncScript) server(paced ...bool) (*ncsim.Server, *sentLog) {
	slow := len(paced) > 0 && paced[0]
	sent := &sentLog{m: map[int][]byte{}}
	caps := []string{ncsim.Cap10}
	if s.Version == "1.1" {
		caps = append(caps, ncsim.Cap11)
	}
	srv := &ncsim.Server{HelloBytes: ncsim.Hello(caps, "4711")}
	srv.OnMsg = func(sv *ncsim.Server, c *devsim.Conn, m *ncsim.Msg) {
		if m.Hello {
			return
		}
		i := m.Index - 1
		body := "<ok/>"
		var plan []int
		if i >= 0 && i < len(s.Replies) {
			body, plan = s.Replies[i], s.Chunks[i]
		}
		p := ncsim.Reply(m.ID, body)
		var sizes []int
		if len(plan) == 4 && plan[0] > 0 && len(p) > 8 {
			var cuts []int
			for _, x := range plan[1 : 1+min(plan[0], 3)] {
				cuts = append(cuts, 1+x%(len(p)-1))
			}
			sortInts(cuts)
			sizes = partition(len(p), cuts)
		}
		if sv.Version == "1.1" {
			sent.put(m.ID, ncwire.EncodeChunked(p, sizes))
		}
		if !slow || sv.Version != "1.1" {
			sv.Send(c, p, sizes)
			if slow {
				time.Sleep(0)
			}
			return
		}
		framed := ncwire.EncodeChunked(p, sizes)
		k := len(framed) / 2
		c.Emit(framed[:k])
		rest := framed[k:]
		go func() {
			time.Sleep(80 * time.Millisecond)
			c.Do(func() { c.Emit(rest); c.Mark() })
		}()
	}
	return srv, sent
}

// sentLog keeps the framed 1.1 replies the server model sent, by message-id.
type sentLog struct {
	mu sync.Mutex
	m  map[int][]byte
}

func (l *sentLog) put(id int, b []byte) {
	l.mu.Lock()
	l.m[id] = b
	l.mu.Unlock()
}

func (l *sentLog) get(id int) []byte {
	l.mu.Lock()
	defer l.mu.Unlock()
	return l.m[id]
}

// strayLF reports whether `read` (what the client's channel read, CR removed) contains the framed
// reply `sent` with exactly one extra LF inserted, and at which offset of `sent`. That is the tty's
// echo of the driver's trailing return landing inside the reply.
func strayLF(read, sent []byte) (bool, int) {
	if len(sent) < 24 {
		return false, 0
	}
	tail := sent[len(sent)-12:]
	e := bytes.LastIndex(read, tail)
	if e >= 0 { // walk backwards from the intact tail
		ri, si, skipped, at := e+len(tail)-1, len(sent)-1, 0, -1
		for si >= 0 && ri >= 0 {
			if read[ri] == sent[si] {
				ri--
				si--
				continue
			}
			if read[ri] == '\n' && skipped == 0 {
				skipped, at = 1, si+1
				ri--
				continue
			}
			return false, 0
		}
		if si < 0 && skipped == 1 {
			return true, at
		}
		return false, 0
	}
	head := sent[:12]
	b := bytes.LastIndex(read, head)
	if b < 0 {
		return false, 0
	}
	ri, si, skipped, at := b, 0, 0, -1
	for si < len(sent) && ri < len(read) {
		if read[ri] == sent[si] {
			ri++
			si++
			continue
		}
		if read[ri] == '\n' && skipped == 0 {
			skipped, at = 1, si
			ri++
			continue
		}
		return false, 0
	}
	return si == len(sent) && skipped == 1, at
}

var rpcErrRe = regexp.MustCompile(`^rpc (\d+) \(`)

// echoTimeout recognises the known tty-echo defect when it shows up as a TIMEOUT: NETCONF 1.1 over
// the system transport, rpc i timed out, and what the client read contains the complete reply to
// rpc i with exactly one stray LF that sits inside the message-id="N" attribute (the driver cannot
// attribute the reply and drops it) or inside the end-of-chunks marker (the reply never completes).
func echoTimeout(d Desc, got *ncOutcome, sent *sentLog) (bool, string) {
	if d.T != "system-ssh" || d.Version != "1.1" || !strings.Contains(got.Err, "errTimeoutError") {
		return false, ""
	}
	m := rpcErrRe.FindStringSubmatch(got.Err)
	if m == nil {
		return false, ""
	}
	var i int
	fmt.Sscan(m[1], &i)
	id := 101 + i
	f := sent.get(id)
	if f == nil {
		return false, ""
	}
	ok, at := strayLF(got.ClientRead, f)
	if !ok {
		return false, ""
	}
	attr := []byte(fmt.Sprintf(`message-id="%d"`, id))
	// the attribute may itself be cut by chunk headers in the framed bytes: locate it in the payload
	// coordinates is not needed - the driver looks for it in the raw bytes (after removing chunk
	// headers), so any LF between the first and last byte of the attribute's raw span breaks it
	a := bytes.Index(f, attr[:9]) // message-i… start (best effort when chunk headers cut the attribute)
	inAttr := false
	if j := bytes.Index(f, attr); j >= 0 {
		inAttr = at > j && at < j+len(attr)
	} else if a >= 0 {
		inAttr = at > a && at < a+len(attr)+24
	}
	inEnd := at > len(f)-4 && at < len(f)
	if !inAttr && !inEnd {
		return false, ""
	}
	lo, hi := at-30, at+30
	if lo < 0 {
		lo = 0
	}
	if hi > len(f) {
		hi = len(f)
	}
	where := "inside the message-id attribute, so the reply cannot be attributed to its request and is dropped"
	if inEnd {
		where = "inside the end-of-chunks marker, so the reply never completes"
	}
	return true, fmt.Sprintf("rpc %d timed out although its complete reply (%d bytes) reached the client: the tty echo of the driver's trailing return landed at offset %d of the framed reply, %s: …%q<LF>%q…",
		i, len(f), at, where, f[lo:at], f[at:hi])
}

func min(a, b int) int {
	if a < b {
		return a
	}
	return b
}

func sortInts(a []int) {
	for i := 1; i < len(a); i++ {
		for j := i; j > 0 && a[j-1] > a[j]; j-- {
			a[j-1], a[j] = a[j], a[j-1]
		}
	}
}

func partition(n int, cuts []int) []int {
	var sizes []int
	prev := 0
	for _, c := range cuts {
		if c <= prev || c >= n {
			continue
		}
		sizes = append(sizes, c-prev)
		prev = c
	}
	return append(sizes, n-prev)
}

type ncOutcome struct {
	Err     string
	Results []string
	Failed  []string
	Version string
	Session uint64
	Caps    []string
	Msgs    []string // payloads the server decoded
	Proto   string
	Raw     []string // RawResult per rpc (diagnosis only, not compared)
	// ClientRead is everything the channel read from the real transport (diagnosis only)
	ClientRead []byte
}

func closeNC(d *netconf.Driver) {
	done := make(chan struct{})
	go func() { defer func() { recover(); close(done) }(); d.Close() }()
	select {
	case <-done:
	case <-time.After(5 * time.Second):
	}
}

func driveNC(s ncScript, d *netconf.Driver, o *ncOutcome) {
	if err := d.Open(); err != nil {
		o.Err = "open: " + err.Error()
		return
	}
	defer closeNC(d)
	o.Version, o.Session, o.Caps = d.SelectedVersion, d.SessionID(), d.ServerCapabilities()
	for i, op := range s.Ops {
		var r *response.NetconfResponse
		var err error
		switch op {
		case "get-config":
			r, err = d.GetConfig("running")
		case "get":
			r, err = d.Get(fmt.Sprintf("<interfaces><interface><name>eth%d</name></interface></interfaces>", i))
		case "edit-config":
			r, err = d.EditConfig("candidate", fmt.Sprintf("<config><system><hostname>r%d</hostname></system></config>", i))
		case "lock":
			r, err = d.Lock("candidate")
		case "unlock":
			r, err = d.Unlock("candidate")
		case "commit":
			r, err = d.Commit()
		default:
			r, err = d.Validate("candidate")
		}
		if err != nil {
			o.Err = fmt.Sprintf("rpc %d (%s): %v", i, op, err)
			return
		}
		o.Results = append(o.Results, r.Result)
		o.Failed = append(o.Failed, fmt.Sprint(r.Failed))
		o.Raw = append(o.Raw, string(r.RawResult))
	}
}

func serverMsgs(conn *devsim.Conn, srv *ncsim.Server) ([]string, string) {
	var l []string
	var proto string
	conn.Do(func() {
		for _, m := range srv.Msgs {
			l = append(l, string(m.Payload))
		}
		proto = srv.ProtoErr
	})
	return l, proto
}

var ncSeq int64

// slowLogger is a user logger on a slow sink: every "channel write" of a lone return takes 30 ms
// (the library logs synchronously before it writes), which spreads the driver's writes out in time.
func slowLogger() util.Option {
	lg, _ := logging.NewInstance(logging.WithLevel(logging.Debug), logging.WithLogger(func(a ...interface{}) {
		if len(a) > 0 && strings.Contains(fmt.Sprint(a[0]), `channel write "\n"`) {
			time.Sleep(30 * time.Millisecond)
		}
	}))
	return options.WithLogger(lg)
}

func runE2ENC(d Desc) mon.Result {
	t0 := time.Now()
	s := genNCScript(d.Seed, d.Version)
	var extra []util.Option
	if d.Paced {
		extra = append(extra, slowLogger())
	}
	var ref ncOutcome
	{
		srv, _ := s.server(d.Paced)
		conn := devsim.NewConn(srv, devsim.Config{Seg: devsim.Seg{Mode: "whole"}})
		nd, err := netconf.NewDriver("ideal", append(append(baseOpts(d.ReadSize), options.WithCustomTransport(conn)), extra...)...)
		if err != nil {
			return mon.Result{Verdict: mon.Inconclusive, Detail: "harness: " + err.Error()}
		}
		driveNC(s, nd, &ref)
		ref.Msgs, ref.Proto = serverMsgs(conn, srv)
		conn.Abandon()
		if ref.Err != "" || ref.Proto != "" {
			return mon.Result{Verdict: mon.Inconclusive, Detail: "reference run over the ideal pipe failed: " + ref.Err + " " + ref.Proto}
		}
	}
	atomic.AddInt64(&ncSeq, 1)
	var got ncOutcome
	model, sent := s.server(d.Paced)
	var sv *sshsim.Served
	var smu sync.Mutex
	srv, e := sshsim.NewServer()
	if e != nil {
		return mon.Result{Verdict: mon.Inconclusive, Detail: "harness: " + e.Error()}
	}
	defer srv.Close()
	srv.SetAccount(sshUser, &sshsim.Account{Password: sshPw})
	var wrongSession atomic.Value
	srv.SetHandler(func(ss *sshsim.Session) {
		if ss.Subsystem != "netconf" {
			wrongSession.Store(fmt.Sprintf("subsystem %q pty=%v", ss.Subsystem, ss.Pty))
			return
		}
		x := sshsim.Serve(ss, model, devsim.Seg{Mode: "mix", Size: 1000, Seed: d.Seed})
		smu.Lock()
		sv = x
		smu.Unlock()
		x.Wait(120 * time.Second)
	})
	tt := transport.StandardTransport
	if d.T == "system-ssh" {
		tt = transport.SystemTransport
	}
	clog := &chanLog{} // everything the channel read from the transport (CR already removed)
	nd, err := netconf.NewDriver("127.0.0.1", append(append(baseOpts(d.ReadSize), options.WithTransportType(tt), options.WithPort(srv.Port()),
		options.WithAuthUsername(sshUser), options.WithAuthPassword(sshPw), options.WithAuthNoStrictKey(), options.WithChannelLog(clog)), extra...)...)
	if err != nil {
		return mon.Result{Verdict: mon.Inconclusive, Detail: "harness: NewDriver: " + err.Error()}
	}
	driveNC(s, nd, &got)
	got.ClientRead = clog.bytes()
	sshsim.ReapPid(sshsim.SystemPid(nd.Transport.Impl), true, 5*time.Second)
	smu.Lock()
	if sv != nil {
		got.Msgs, got.Proto = serverMsgs(sv.Conn, model)
		sv.Stop()
	}
	smu.Unlock()
	if w, ok := wrongSession.Load().(string); ok && got.Err != "" {
		got.Err += " (server saw " + w + " instead of the netconf subsystem)"
	}
	if got.Err != "" {
		if ok, why := echoTimeout(d, &got, sent); ok {
			return mon.Result{Verdict: mon.Violated, Key: "c16/e2e/netconf/system-ssh:tty-echo-of-trailing-return-inside-reply", NonTrivial: true,
				Detail: fmt.Sprintf("system-ssh 1.1 rs=%d seed=%d: %s (%s)", d.ReadSize, d.Seed, why, got.Err)}
		}
		t := got.ClientRead
		if len(t) > 400 {
			t = t[len(t)-400:]
		}
		got.Err += fmt.Sprintf(" | the client's channel had read %d bytes, last: %q", len(got.ClientRead), t)
	}
	if got.Err == "" && got.Proto != "" {
		got.Err = "the server could not decode what it received: " + got.Proto
	}
	vol := 0
	for _, r := range s.Replies {
		vol += len(r)
	}
	return compareOutcome(d, t0, fmt.Sprintf("netconf %s, %d rpcs %v", d.Version, len(s.Ops), s.Ops), ref.Err, got.Err,
		[][2]interface{}{{ref.Results, got.Results}, {ref.Failed, got.Failed}, {ref.Version, got.Version}, {ref.Session, got.Session}, {ref.Caps, got.Caps}, {ref.Msgs, got.Msgs}},
		[]string{"rpc results", "rpc failure flags", "selected version", "session id", "server capabilities", "messages decoded by the server"}, vol,
		func() (string, string) { return explainNC(d, &ref, &got) })
}

// explainNC diagnoses a NETCONF difference: which rpc, its failure text, and where the raw reply
// (CR removed by the channel) departs from the framed reply the server sent. A stray newline inside
// an otherwise intact 1.1 reply over the system transport is the tty's echo of the driver's trailing
// return landing inside the reply (the request is written as payload, return, return).
func explainNC(d Desc, ref, got *ncOutcome) (string, string) {
	for i := range ref.Results {
		if i >= len(got.Results) || ref.Results[i] == got.Results[i] {
			continue
		}
		a, b := ref.Raw[i], got.Raw[i]
		// align: the real raw result may start with leftovers of the echo; compare from the first "#"
		ta, tb := strings.TrimSpace(a), strings.TrimSpace(b)
		j := 0
		for j < len(ta) && j < len(tb) && ta[j] == tb[j] {
			j++
		}
		lo, hi := j-40, j+40
		if lo < 0 {
			lo = 0
		}
		cl := func(s string) string {
			h := hi
			if h > len(s) {
				h = len(s)
			}
			if lo > len(s) {
				return ""
			}
			return s[lo:h]
		}
		msg := fmt.Sprintf(" rpc %d: failure text over the real transport: %.300s\n raw reply departs from the ideal one at offset %d of %d/%d:\n ideal raw: …%q…\n real raw:  …%q…",
			i, got.Failed[i], j, len(ta), len(tb), cl(ta), cl(tb))
		sfx := ""
		if d.T == "system-ssh" && j < len(tb) && tb[j] == '\n' && len(tb) > len(ta) && strings.HasPrefix(ta[j:], tb[j+1:j+1+min(20, len(tb)-j-1)]) {
			sfx = ":tty-echo-of-trailing-return-inside-reply"
		}
		return sfx, msg
	}
	return "", ""
}

// chanLog is an io.Writer for options.WithChannelLog.
type chanLog struct {
	mu sync.Mutex
	b  []byte
}

func (c *chanLog) Write(p []byte) (int, error) {
	c.mu.Lock()
	c.b = append(c.b, p...)
	c.mu.Unlock()
	return len(p), nil
}

func (c *chanLog) bytes() []byte {
	c.mu.Lock()
	defer c.mu.Unlock()
	return append([]byte(nil), c.b...)
}
