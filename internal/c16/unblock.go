package c16

import (
	"errors"
	"fmt"
	"strings"
	"time"

	"verif/internal/mon"
)

// runUnblock: a goroutine blocked in Transport.Read must return within 5 s after Close(true)
// resp. after the peer went away.
func runUnblock(d Desc) mon.Result {
	t0 := time.Now()
	key := "c16/" + d.T + "/unblock:" + d.How
	l, err := openLink(d.T, d.ReadSize)
	if err != nil {
		if errors.Is(err, errSetup) || mon.LoadedSince(t0) {
			return mon.Result{Verdict: mon.Inconclusive, Detail: "harness/load: " + err.Error()}
		}
		return mon.Result{Verdict: mon.Violated, Key: "c16/" + d.T + "/open-failed", Detail: "Transport.Open against a healthy loopback peer: " + err.Error(), NonTrivial: true}
	}
	defer l.close()
	closed := false
	defer func() {
		if !closed {
			l.closeTransport(true, 5*time.Second)
		}
	}()
	cs := newSink()
	go clientReader(l, cs)
	// a few bytes first (seed-dependent), so that the read that blocks is not the very first one
	pre := payload("prng", int(d.Seed%5), d.Seed)
	if len(pre) > 0 {
		if _, e := l.peer.Write(pre); e != nil {
			return mon.Result{Verdict: mon.Inconclusive, Detail: "harness: peer write: " + e.Error()}
		}
		if class, c := await(cs, pre); class != "" {
			if class == "lost" && mon.LoadedSince(t0) {
				return mon.Result{Verdict: mon.Inconclusive, Detail: c}
			}
			return mon.Result{Verdict: mon.Violated, Key: "c16/" + d.T + "/down-" + class, Detail: c, NonTrivial: true}
		}
	}
	// let the reader park inside the implementation's Read
	time.Sleep(time.Duration(20+d.Seed%40) * time.Millisecond)
	select {
	case <-cs.done:
		return mon.Result{Verdict: mon.Violated, Key: "c16/" + d.T + "/read-failed-on-idle-link", Detail: fmt.Sprintf("Transport.Read returned %v on an idle, healthy link", cs.err), NonTrivial: true}
	default:
	}
	ta := time.Now()
	before := cs.returned()
	closeReturned := true
	switch d.How {
	case "close":
		closed = true
		closeReturned = l.closeTransport(true, 5*time.Second)
	case "close-peer-hung": // the peer stops processing (connection up), then Close(true)
		l.freeze()
		time.Sleep(20 * time.Millisecond)
		closed = true
		closeReturned = l.closeTransport(true, 5*time.Second)
	case "peer-half-close", "peer-half-close-status":
		if l.halfClose == nil {
			return mon.Result{Verdict: mon.Inconclusive, Detail: "harness: no half close for " + d.T}
		}
		l.halfClose(d.How == "peer-half-close-status")
	default:
		l.killPeer()
	}
	// the read that was blocked must return, and so must the one issued after it (the first may just
	// carry residual bytes such as the ssh client's parting message)
	released := cs.waitReturn(before+1, 5*time.Second)
	took := time.Since(ta)
	if !released || !closeReturned {
		if mon.LoadedSince(ta) {
			if stuck, concl := l.stillStuck(cs, before+1, true); !stuck {
				return mon.Result{Verdict: mon.Inconclusive, Detail: fmt.Sprintf("unblock not observed within 5 s under load (came back later: %v)", concl)}
			}
		}
		what := "the peer went away"
		if strings.HasPrefix(d.How, "peer-half-close") {
			what = "the peer ended its direction of the session (CHANNEL_EOF, no CHANNEL_CLOSE, connection kept)"
		} else if d.How != "peer-gone" {
			what = fmt.Sprintf("Transport.Close(true) (returned=%v)", closeReturned)
		}
		if d.How == "close-peer-hung" {
			what += " with a peer that had stopped processing the connection"
		}
		return mon.Result{Verdict: mon.Violated, Key: key, NonTrivial: true,
			Detail: fmt.Sprintf("%s rs=%d: a goroutine blocked in Transport.Read did not return within 5 s after %s", d.T, d.ReadSize, what)}
	}
	obs := map[string]int64{"unblock_cases": 1, "reads_released_by_" + map[string]string{"close": "close", "peer-gone": "peer_gone", "close-peer-hung": "close_with_a_hung_peer",
		"peer-half-close": "peer_half_close", "peer-half-close-status": "peer_half_close"}[d.How]: 1}
	return mon.Result{Verdict: mon.Held, NonTrivial: true, Obs: obs,
		Tags:   []string{"transport=" + d.T, "unblock=" + d.How, fmt.Sprintf("readsize=%d", d.ReadSize)},
		Sample: map[string]interface{}{"transport": d.T, "how": d.How, "released_after_ms": took.Milliseconds(), "reader_returned": fmt.Sprint(cs.err)}}
}
