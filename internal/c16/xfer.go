package c16

import (
	"bytes"
	"errors"
	"fmt"
	"math/rand"
	"runtime"
	"sync"
	"time"

	"verif/internal/mon"
)

// Desc is a C16 case descriptor.
type Desc struct {
	Kind     string `json:"kind"` // xfer | unblock | cycle | silence | lastwords | writeclose | stuckwrite | e2e-cli | e2e-netconf
	T        string `json:"transport"`
	ReadSize int    `json:"read_size"`
	Size     int    `json:"size,omitempty"`              // payload bytes per direction
	Payload  string `json:"payload,omitempty"`           // prng | debruijn
	Mode     string `json:"mode,omitempty"`              // duplex | lockstep | updown
	How      string `json:"how,omitempty"`               // unblock: close | peer-gone
	Version  string `json:"version,omitempty"`           // e2e-netconf: 1.0 | 1.1
	Early    int    `json:"early,omitempty"`             // telnet xfer: bytes the peer sends immediately on accept (inside the client's negotiation window)
	EarlyNeg bool   `json:"early_neg,omitempty"`         // telnet xfer: preceded by three option negotiations
	SockTOms int    `json:"socket_timeout_ms,omitempty"` // silence: WithTimeoutSocket
	Factor10 int    `json:"silence_x10,omitempty"`       // silence: peer silence = Factor10/10 x socket timeout
	PauseMs  int    `json:"reader_away_ms,omitempty"`    // lastwords: how long nobody reads while the peer says its last words and leaves
	Cycles   int    `json:"cycles,omitempty"`            // cycle: Open/Close rounds on one Transport object
	Paced    bool   `json:"paced,omitempty"`             // e2e-netconf: slow log sink (30 ms per lone return) + device that sends replies in two halves 80 ms apart
	Seed     int64  `json:"seed"`
}

// deBruijn returns a byte string of length 65537 in which every ordered pair of byte values occurs
// (B(256,2) plus the wrap-around byte), rotated by rot.
func deBruijn(rot int) []byte {
	const k, n = 256, 2
	a := make([]int, k*n)
	seq := make([]byte, 0, 65537)
	var db func(t, p int)
	db = func(t, p int) {
		if t > n {
			if n%p == 0 {
				for _, v := range a[1 : p+1] {
					seq = append(seq, byte(v))
				}
			}
			return
		}
		a[t] = a[t-p]
		db(t+1, p)
		for j := a[t-p] + 1; j < k; j++ {
			a[t] = j
			db(t+1, t)
		}
	}
	db(1, 1)
	rot %= len(seq)
	out := append(append([]byte(nil), seq[rot:]...), seq[:rot]...)
	return append(out, out[0])
}

func payload(kind string, size int, seed int64) []byte {
	if kind == "debruijn" {
		return deBruijn(int(seed & 0xffff))
	}
	r := rand.New(rand.NewSource(seed))
	b := make([]byte, size)
	r.Read(b)
	if size >= 512 { // every byte value is present
		for i, v := range r.Perm(256) {
			b[i] = byte(v)
		}
	}
	return b
}

// chunks cuts a payload of n bytes into writes: sizes around the read size and the pty buffer,
// PRNG-chosen; large payloads use large chunks so that the number of writes stays bounded.
func chunks(r *rand.Rand, n, rs int) []int {
	small := []int{1, 2, 7, 80, 81, 82, rs - 1, rs, rs + 1, 4095, 4096, 4097}
	big := []int{4095, 4096, 4097, 8191, 8192, 8193, 16384, 65535, 65536, rs, rs + 1}
	var out []int
	for n > 0 {
		var c int
		switch {
		case r.Intn(16) == 0:
			c = n
		case n > 40000:
			c = big[r.Intn(len(big))]
		default:
			c = small[r.Intn(len(small))]
		}
		if c < 1 {
			c = 1
		}
		if c > n {
			c = n
		}
		out = append(out, c)
		n -= c
	}
	return out
}

// sink collects bytes at one end.
type sink struct {
	mu    sync.Mutex
	b     []byte
	reads int
	zero  int
	max   int
	err   error
	calls int // Transport.Read calls that returned
	// every slice Transport.Read returned, kept WITHOUT copying, and a copy taken at read time: what a
	// read returned must stay what it was
	kept [][]byte
	ref  [][]byte
	done chan struct{}
}

func (s *sink) returned() int {
	s.mu.Lock()
	defer s.mu.Unlock()
	return s.calls
}

// waitReturn waits until a Read call returned after the moment `before` was sampled (the call that
// was blocked then), or the reader ended.
func (s *sink) waitReturn(before int, d time.Duration) bool {
	deadline := time.Now().Add(d)
	for {
		select {
		case <-s.done:
			return true
		default:
		}
		if s.returned() > before {
			return true
		}
		if time.Now().After(deadline) {
			return false
		}
		time.Sleep(200 * time.Microsecond)
	}
}

func newSink() *sink { return &sink{done: make(chan struct{})} }

func (s *sink) add(b []byte) {
	s.mu.Lock()
	s.b = append(s.b, b...)
	s.reads++
	if len(b) > s.max {
		s.max = len(b)
	}
	if len(b) == 0 {
		s.zero++
	}
	s.mu.Unlock()
}

// addOwned records a chunk returned by Transport.Read: like add, and the slice itself is retained.
func (s *sink) addOwned(b []byte) {
	s.add(b)
	if len(b) == 0 {
		return
	}
	s.mu.Lock()
	s.kept = append(s.kept, b)
	s.ref = append(s.ref, append([]byte(nil), b...))
	s.mu.Unlock()
}

// changed compares every retained slice with the copy taken when it was returned ("" = all intact).
func (s *sink) changed() string {
	s.mu.Lock()
	defer s.mu.Unlock()
	for i := range s.kept {
		if !bytes.Equal(s.kept[i], s.ref[i]) {
			j := 0
			for j < len(s.ref[i]) && s.kept[i][j] == s.ref[i][j] {
				j++
			}
			hi := j + 12
			if hi > len(s.ref[i]) {
				hi = len(s.ref[i])
			}
			return fmt.Sprintf("the %d-byte slice returned by read #%d of %d was %x… at offset %d when it was returned and is %x… now (after later reads)",
				len(s.ref[i]), i+1, len(s.kept), s.ref[i][j:hi], j, s.kept[i][j:hi])
		}
	}
	return ""
}

func (s *sink) len() int {
	s.mu.Lock()
	defer s.mu.Unlock()
	return len(s.b)
}

func (s *sink) snapshot() []byte {
	s.mu.Lock()
	defer s.mu.Unlock()
	return append([]byte(nil), s.b...)
}

// clientReader runs Transport.Read in a loop until it fails.
func clientReader(l *link, s *sink) {
	defer close(s.done)
	for {
		b, err := l.tr.Read()
		s.mu.Lock()
		s.calls++
		s.mu.Unlock()
		if len(b) > 0 || err == nil {
			s.addOwned(b)
		}
		if err != nil {
			s.mu.Lock()
			s.err = err
			s.mu.Unlock()
			return
		}
		if len(b) == 0 {
			time.Sleep(200 * time.Microsecond)
		}
	}
}

func peerReader(l *link, s *sink) {
	defer close(s.done)
	buf := make([]byte, 65536)
	for {
		n, err := l.peer.Read(buf)
		if n > 0 {
			s.add(buf[:n])
		}
		if err != nil && n > 0 {
			// an ssh channel reports a failed window-adjust WRITE (the client has gone) from Read while
			// received data is still buffered: the stream ends when a read delivers nothing
			continue
		}
		if err != nil {
			s.mu.Lock()
			s.err = err
			s.mu.Unlock()
			return
		}
	}
}

// firstDiff describes where got departs from being a prefix of want.
func firstDiff(got, want []byte) string {
	n := len(got)
	if len(want) < n {
		n = len(want)
	}
	for i := 0; i < n; i++ {
		if got[i] != want[i] {
			lo := i - 4
			if lo < 0 {
				lo = 0
			}
			hi := i + 8
			hg, hw := hi, hi
			if hg > len(got) {
				hg = len(got)
			}
			if hw > len(want) {
				hw = len(want)
			}
			return fmt.Sprintf("first difference at offset %d: got …%x, sent …%x", i, got[lo:hg], want[lo:hw])
		}
	}
	if len(got) > len(want) {
		hi := len(want) + 16
		if hi > len(got) {
			hi = len(got)
		}
		return fmt.Sprintf("%d surplus byte(s) after the %d sent: %x…", len(got)-len(want), len(want), got[len(want):hi])
	}
	return ""
}

const lossWait = 20 * time.Second

// await waits until the sink holds want (exactly) or something is wrong. Returns "" when equal;
// otherwise (class, complaint): class corrupt (not a prefix / surplus) or lost (quiet and short).
func await(s *sink, want []byte) (class, complaint string) {
	deadline := time.Now().Add(lossWait)
	last := -1
	for {
		n := s.len()
		if n >= len(want) {
			// allow a moment for surplus bytes to show up
			time.Sleep(2 * time.Millisecond)
			got := s.snapshot()
			if bytes.Equal(got, want) {
				return "", ""
			}
			return "corrupt", firstDiff(got, want)
		}
		if n != last {
			last = n
			deadline = time.Now().Add(lossWait)
			if got := s.snapshot(); !bytes.HasPrefix(want, got) {
				return "corrupt", firstDiff(got, want)
			}
		}
		select {
		case <-s.done:
			got := s.snapshot()
			if bytes.Equal(got, want) {
				return "", ""
			}
			if !bytes.HasPrefix(want, got) {
				return "corrupt", firstDiff(got, want)
			}
			return "lost", fmt.Sprintf("receiver ended (%v) after %d of %d bytes", s.err, len(got), len(want))
		default:
		}
		if time.Now().After(deadline) {
			return "lost", fmt.Sprintf("only %d of %d bytes arrived, nothing more for %s", n, len(want), lossWait)
		}
		time.Sleep(300 * time.Microsecond)
	}
}

func pause(r *rand.Rand) {
	switch r.Intn(6) {
	case 0:
		runtime.Gosched()
	case 1:
		time.Sleep(time.Duration(50+r.Intn(250)) * time.Microsecond)
	}
}

func runXfer(d Desc) mon.Result {
	t0 := time.Now()
	key := func(k string) string { return "c16/" + d.T + "/" + k }
	var ep *earlyPlan
	if d.Early > 0 {
		// banner-like early burst: PRNG bytes without 0xff (inside the negotiation window 0xff starts a
		// telnet command - C15's subject)
		eb := payload("prng", d.Early, d.Seed^0x7e1)
		for i := range eb {
			if eb[i] == 0xff {
				eb[i] = 0x7f
			}
		}
		ep = &earlyPlan{Neg: d.EarlyNeg, Data: eb}
	}
	l, err := openLink(d.T, d.ReadSize, ep)
	if err != nil {
		if errors.Is(err, errSetup) {
			return mon.Result{Verdict: mon.Inconclusive, Detail: "harness: " + err.Error()}
		}
		if mon.LoadedSince(t0) {
			return mon.Result{Verdict: mon.Inconclusive, Detail: "open failed under load: " + err.Error()}
		}
		return mon.Result{Verdict: mon.Violated, Key: key("open-failed"), Detail: "Transport.Open against a healthy loopback peer: " + err.Error(), NonTrivial: true}
	}
	defer l.close()
	closed := false
	defer func() {
		if !closed {
			l.closeTransport(true, 5*time.Second)
		}
	}()
	up := payload(d.Payload, d.Size, d.Seed)
	down := payload(d.Payload, d.Size, d.Seed^0x5DEECE66D)
	r := rand.New(rand.NewSource(d.Seed*31 + 7))
	upC := chunks(r, len(up), d.ReadSize)
	downC := chunks(r, len(down), d.ReadSize)

	cs, ps := newSink(), newSink()
	cs.add(l.pre)
	cs.reads, cs.max = 0, 0
	go clientReader(l, cs)
	go peerReader(l, ps)
	// what the client must read in total: bytes it already read during setup, the early burst the peer
	// sent on accept, then the payload; what the peer must receive: negotiation answers, then the payload
	downBase := append(append([]byte(nil), l.pre...), l.earlyDown...)
	wantDown := append(append([]byte(nil), downBase...), down...)
	upWant := func(b []byte) []byte { return append(append([]byte(nil), l.earlyUp...), b...) }

	var accepted []byte // bytes Transport.Write accepted
	var amu sync.Mutex
	var werr, pwerr error
	writeUp := func(b []byte) bool {
		if e := l.tr.Write(b); e != nil {
			werr = e
			return false
		}
		amu.Lock()
		accepted = append(accepted, b...)
		amu.Unlock()
		return true
	}
	bad := func(k, f string, a ...interface{}) mon.Result {
		return mon.Result{Verdict: mon.Violated, Key: key(k), Detail: fmt.Sprintf("%s rs=%d size=%d mode=%s payload=%s early=%d/neg=%v: ", d.T, d.ReadSize, len(up), d.Mode, d.Payload, d.Early, d.EarlyNeg) + fmt.Sprintf(f, a...), NonTrivial: true}
	}
	judge := func(dir string, s *sink, want []byte) *mon.Result {
		class, c := await(s, want)
		if class == "" {
			return nil
		}
		if class == "lost" && mon.LoadedSince(t0) {
			r := mon.Result{Verdict: mon.Inconclusive, Detail: dir + ": " + c + " (machine under load)"}
			return &r
		}
		who := "the peer received"
		if dir == "down" {
			who = "Transport.Read returned"
		}
		r := bad(dir+"-"+class, "%s something else than what was sent: %s", who, c)
		return &r
	}

	switch d.Mode {
	case "lockstep":
		uo, do := 0, 0
		for i := 0; i < len(upC) || i < len(downC); i++ {
			if i < len(upC) {
				if !writeUp(up[uo : uo+upC[i]]) {
					break
				}
				uo += upC[i]
				if r := judge("up", ps, upWant(up[:uo])); r != nil {
					return *r
				}
			}
			if i < len(downC) {
				if _, e := l.peer.Write(down[do : do+downC[i]]); e != nil {
					pwerr = e
					break
				}
				do += downC[i]
				if r := judge("down", cs, wantDown[:len(downBase)+do]); r != nil {
					return *r
				}
			}
		}
	case "updown":
		o := 0
		for _, c := range upC {
			if !writeUp(up[o : o+c]) {
				break
			}
			o += c
			pause(r)
		}
		if werr == nil {
			if r := judge("up", ps, upWant(up)); r != nil {
				return *r
			}
		}
		o = 0
		for _, c := range downC {
			if _, e := l.peer.Write(down[o : o+c]); e != nil {
				pwerr = e
				break
			}
			o += c
			pause(r)
		}
	default: // duplex
		var wg sync.WaitGroup
		wg.Add(2)
		ru, rd := rand.New(rand.NewSource(d.Seed+1)), rand.New(rand.NewSource(d.Seed+2))
		go func() {
			defer wg.Done()
			o := 0
			for _, c := range upC {
				if !writeUp(up[o : o+c]) {
					return
				}
				o += c
				pause(ru)
			}
		}()
		go func() {
			defer wg.Done()
			o := 0
			for _, c := range downC {
				if _, e := l.peer.Write(down[o : o+c]); e != nil {
					pwerr = e
					return
				}
				o += c
				pause(rd)
			}
		}()
		wdone := make(chan struct{})
		go func() { wg.Wait(); close(wdone) }()
		select {
		case <-wdone:
		case <-time.After(60 * time.Second):
			if mon.LoadedSince(t0) {
				return mon.Result{Verdict: mon.Inconclusive, Detail: "writers did not finish within 60 s under load"}
			}
			return bad("write-stuck", "writers blocked for 60 s (peer received %d, client read %d)", ps.len(), cs.len())
		}
	}
	if werr != nil {
		if mon.LoadedSince(t0) {
			return mon.Result{Verdict: mon.Inconclusive, Detail: "Transport.Write failed under load: " + werr.Error()}
		}
		return bad("write-error", "Transport.Write on a healthy link failed after %d accepted bytes: %v", len(accepted), werr)
	}
	if pwerr != nil {
		return mon.Result{Verdict: mon.Inconclusive, Detail: "harness: peer write failed: " + pwerr.Error()}
	}
	if !bytes.Equal(accepted, up) {
		return mon.Result{Verdict: mon.Inconclusive, Detail: "harness: accepted bytes differ from the plan"}
	}
	if r := judge("up", ps, upWant(accepted)); r != nil {
		return *r
	}
	if r := judge("down", cs, wantDown); r != nil {
		return *r
	}
	if c := cs.changed(); c != "" {
		return bad("delivered-chunk-changed-after-return", "%s", c)
	}
	// the reader is now blocked in Transport.Read with nothing pending: Close(true) must release it
	time.Sleep(2 * time.Millisecond)
	tc := time.Now()
	before := cs.returned()
	closed = true
	closeReturned := l.closeTransport(true, 5*time.Second)
	released := cs.waitReturn(before, 5*time.Second)
	if !released || !closeReturned {
		if mon.LoadedSince(tc) {
			if stuck, concl := l.stillStuck(cs, before, true); !stuck {
				return mon.Result{Verdict: mon.Inconclusive, Detail: fmt.Sprintf("unblock after Close(true) not observed within 5 s under load (came back later: %v)", concl)}
			}
		}
		return bad("unblock:close", "after the transfer, Close(true) returned=%v; the goroutine blocked in Transport.Read returned=%v within 5 s", closeReturned, released)
	}
	// nothing may have been appended by the final read
	if got := cs.snapshot(); !bytes.Equal(got, wantDown) {
		return bad("down-corrupt", "bytes appeared at Close: %s", firstDiff(got, wantDown))
	}
	all := 0
	if len(up) >= 512 {
		all = 1
	}
	obs := map[string]int64{"transfers": 1, "bytes_up": int64(len(up)), "bytes_down": int64(len(down)), "client_reads": int64(cs.reads),
		"client_writes": int64(len(upC)), "payloads_with_all_256_values": int64(2 * all), "reads_released_by_close": 1}
	if cs.max == d.ReadSize {
		obs["reads_filling_the_read_size"]++
	}
	if cs.max > d.ReadSize {
		obs["reads_larger_than_read_size"]++
	}
	if d.Early > 0 {
		obs["early_bursts"]++
		if l.inWindow {
			obs["early_bursts_sent_inside_negotiation_window"]++
		}
		if d.Early > d.ReadSize {
			obs["early_bursts_larger_than_read_size"]++
		}
	}
	if d.Payload == "debruijn" {
		obs["payloads_with_all_65536_byte_pairs"] += 2
	}
	tags := []string{"transport=" + d.T, fmt.Sprintf("readsize=%d", d.ReadSize), "mode=" + d.Mode, "payload=" + d.Payload, sizeClass(d.Size, d.ReadSize)}
	if d.Early > 0 {
		tags = append(tags, fmt.Sprintf("telnet-early-burst(neg=%v)", d.EarlyNeg))
	}
	return mon.Result{Verdict: mon.Held, NonTrivial: len(up) > d.ReadSize || d.Early > d.ReadSize, Obs: obs, Tags: tags,
		Sample: map[string]interface{}{"transport": d.T, "read_size": d.ReadSize, "bytes_each_way": len(up), "mode": d.Mode, "client_reads": cs.reads,
			"largest_read": cs.max, "writes": len(upC), "peer_writes": len(downC), "reader_error_at_close": fmt.Sprint(cs.err)}}
}

func sizeClass(size, rs int) string {
	switch {
	case size == rs-1:
		return "size=readsize-1"
	case size == rs:
		return "size=readsize"
	case size == rs+1:
		return "size=readsize+1"
	}
	return fmt.Sprintf("size=%d", size)
}
