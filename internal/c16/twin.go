package c16

import (
	"errors"
	"fmt"
	"time"

	"verif/internal/mon"
)

// runTwin: two live transports of the same kind to ONE server and user. Both work; then the one
// opened FIRST is closed; the other one, which nobody closed and whose peer is still there, must go
// on being an exact pipe in both directions.
func runTwin(d Desc) mon.Result {
	t0 := time.Now()
	a, err := newLink(d.T, d.ReadSize, nil)
	if err != nil {
		a.close()
		return mon.Result{Verdict: mon.Inconclusive, Detail: "harness: " + err.Error()}
	}
	defer a.close()
	b, err := newLinkOpt(d.T, d.ReadSize, nil, a)
	if err != nil {
		b.close()
		return mon.Result{Verdict: mon.Inconclusive, Detail: "harness: " + err.Error()}
	}
	defer b.close()
	defer a.closeTransport(true, 5*time.Second)
	defer b.closeTransport(true, 5*time.Second)
	bad := func(k, f string, x ...interface{}) mon.Result {
		return mon.Result{Verdict: mon.Violated, Key: "c16/" + d.T + "/twin:" + k, NonTrivial: true,
			Detail: fmt.Sprintf("%s rs=%d, two live transports to one server and user: ", d.T, d.ReadSize) + fmt.Sprintf(f, x...)}
	}
	for i, l := range []*link{a, b} {
		if err := l.open(); err != nil {
			if errors.Is(err, errSetup) || mon.LoadedSince(t0) {
				return mon.Result{Verdict: mon.Inconclusive, Detail: fmt.Sprintf("harness/load: open %d: %v", i+1, err)}
			}
			return bad("open-failed", "Open of transport %d: %v", i+1, err)
		}
	}
	type side struct {
		l      *link
		cs, ps *sink
		up, dn []byte
	}
	mk := func(l *link) *side {
		s := &side{l: l, cs: newSink(), ps: newSink()}
		s.cs.add(l.pre)
		s.dn = append(s.dn, l.pre...)
		go clientReader(l, s.cs)
		go peerReader(l, s.ps)
		return s
	}
	exchange := func(s *side, name string, round int) *mon.Result {
		u := payload("prng", 150+round, d.Seed+int64(round))
		dn := payload("prng", 250+round, d.Seed^int64(round*104729))
		if err := s.l.tr.Write(u); err != nil {
			r := bad("write-error:"+name, "Transport.Write on %s: %v", name, err)
			return &r
		}
		if _, err := s.l.peer.Write(dn); err != nil {
			r := mon.Result{Verdict: mon.Inconclusive, Detail: "harness: peer write: " + err.Error()}
			return &r
		}
		s.up, s.dn = append(s.up, u...), append(s.dn, dn...)
		for _, x := range []struct {
			dir  string
			k    *sink
			want []byte
		}{{"up", s.ps, s.up}, {"down", s.cs, s.dn}} {
			if class, c := await(x.k, x.want); class != "" {
				select {
				case <-s.cs.done:
					r := bad("read-error-on-live-link:"+name, "%s: Transport.Read returned %v although nobody closed it and its peer is there; %s", name, s.cs.err, c)
					return &r
				default:
				}
				if class == "lost" && mon.LoadedSince(t0) {
					r := mon.Result{Verdict: mon.Inconclusive, Detail: c}
					return &r
				}
				r := bad(x.dir+"-"+class+":"+name, "%s: %s", name, c)
				return &r
			}
		}
		return nil
	}
	sa, sb := mk(a), mk(b)
	for _, x := range []struct {
		s *side
		n string
	}{{sa, "first"}, {sb, "second"}} {
		if r := exchange(x.s, x.n, 1); r != nil {
			return *r
		}
	}
	// close the one that was opened first
	before := sa.cs.returned()
	if !a.closeTransport(true, 5*time.Second) || !sa.cs.waitReturn(before, 5*time.Second) {
		if mon.LoadedSince(t0) {
			return mon.Result{Verdict: mon.Inconclusive, Detail: "close of the first transport not observed under load"}
		}
		return bad("unblock:close", "Close(true) of the first transport / its parked read did not return within 5 s")
	}
	time.Sleep(150 * time.Millisecond)
	select {
	case <-sb.cs.done:
		return bad("second-session-broken-by-closing-the-first", "after Close of the FIRST transport the second one's parked Read returned %v (nobody closed it, its peer is there)", sb.cs.err)
	default:
	}
	if r := exchange(sb, "second-after-first-closed", 2); r != nil {
		if r.Verdict == mon.Violated {
			r.Key = "c16/" + d.T + "/twin:second-session-broken-by-closing-the-first"
		}
		return *r
	}
	return mon.Result{Verdict: mon.Held, NonTrivial: true,
		Obs:    map[string]int64{"twin_cases": 1, "sessions_surviving_the_close_of_an_older_sibling": 1},
		Tags:   []string{"transport=" + d.T, "twin", fmt.Sprintf("readsize=%d", d.ReadSize)},
		Sample: map[string]interface{}{"transport": d.T, "history": "two live transports to one server, oldest closed first, the other stays an exact pipe"}}
}
