// Package c16: built-in transports are transparent, ordered byte pipes that unblock on close.
//
// Transport-level monitor (bytes accepted by Transport.Write == bytes the peer received; bytes the
// peer sent == concatenation of Transport.Read results) for the system transport (pty + stand-in
// process), the standard transport (in-process SSH server: shell with pty, netconf subsystem) and
// telnet (loopback TCP), unblock cases (Close(true), peer gone), and an end-to-end differential of
// CLI and NETCONF sessions against the same sessions over an ideal devsim pipe.
package c16

import (
	"fmt"
	"math/rand"
	"os"
	"path/filepath"
	"time"

	"verif/internal/mon"
	"verif/internal/sshsim"
)

var c16tmp string

var xferTransports = []string{"system", "system-netconf", "standard-shell", "standard-netconf", "telnet"}

func gen(tier string, seed int64) []mon.Case {
	r := rand.New(rand.NewSource(seed*104729 + 16))
	var cs []mon.Case
	n := 0
	add := func(d Desc) {
		d.Seed = r.Int63n(1 << 40)
		cs = append(cs, mon.MkCase(fmt.Sprintf("c16/%04d-%s-%s", n, d.Kind, d.T), d))
		n++
	}
	modes := []string{"duplex", "lockstep", "updown"}
	reps := 1
	if tier == "thorough" {
		reps = 10
	}
	for rep := 0; rep < reps; rep++ {
		for _, t := range xferTransports {
			type cell struct {
				rs, size int
				payload  string
			}
			var grid []cell
			for _, sz := range []int{1, 2, 81} {
				grid = append(grid, cell{1, sz, "prng"})
			}
			for _, rs := range []int{81, 8192, 65535} {
				for _, sz := range []int{1, rs - 1, rs, rs + 1, 4095, 4096, 4097} {
					grid = append(grid, cell{rs, sz, "prng"})
				}
				grid = append(grid, cell{rs, 65537, "debruijn"}, cell{rs, 1 << 20, "prng"})
			}
			for _, g := range grid {
				for _, m := range modes {
					add(Desc{Kind: "xfer", T: t, ReadSize: g.rs, Size: g.size, Payload: g.payload, Mode: m})
				}
			}
		}
	}
	// telnet: the peer talks first (banner-like burst right after accept, inside the client's
	// negotiation window, optionally after option negotiations), burst longer than the read size
	for rep := 0; rep < reps; rep++ {
		for _, e := range [][2]int{{1, 2}, {1, 300}, {81, 82}, {81, 300}, {81, 5000}, {8192, 8193}, {8192, 20000}} {
			for _, neg := range []bool{false, true} {
				for _, m := range modes {
					add(Desc{Kind: "xfer", T: "telnet", ReadSize: e[0], Size: 700, Payload: "prng", Mode: m, Early: e[1], EarlyNeg: neg})
				}
			}
		}
	}
	// unblock
	ureps := 1
	if tier == "thorough" {
		ureps = 15
	}
	for rep := 0; rep < ureps; rep++ {
		for _, t := range []string{"system", "system-netconf", "system-ssh", "standard-shell", "standard-netconf", "telnet"} {
			for _, how := range []string{"close", "peer-gone", "close-peer-hung"} {
				for _, rs := range []int{81, 8192} {
					add(Desc{Kind: "unblock", T: t, How: how, ReadSize: rs})
				}
			}
		}
	}
	// the device half-closes the session: EOF (with / without exit status), no channel close
	for rep := 0; rep < ureps; rep++ {
		for _, t := range []string{"standard-shell", "standard-netconf"} {
			for _, how := range []string{"peer-half-close", "peer-half-close-status"} {
				for _, rs := range []int{81, 8192} {
					add(Desc{Kind: "unblock", T: t, How: how, ReadSize: rs})
				}
			}
		}
	}
	// re-open cycles on one Transport object
	for rep := 0; rep < ureps; rep++ {
		for _, t := range []string{"system", "system-ssh", "standard-shell", "telnet"} {
			for _, how := range []string{"close", "close-noforce"} {
				for _, rs := range []int{81, 8192} {
					add(Desc{Kind: "cycle", T: t, How: how, ReadSize: rs, Cycles: 3})
				}
			}
		}
	}
	// history on one link: silence after a write (small socket timeouts), last words before the peer leaves
	for rep := 0; rep < ureps; rep++ {
		for _, t := range []string{"system", "system-ssh", "standard-shell", "standard-netconf", "telnet"} {
			for i, f := range []int{15, 30} {
				to := []int{300, 500, 800}[(rep+i)%3]
				if t == "system-ssh" {
					to = 1000 // ssh takes whole seconds (ConnectTimeout/ServerAliveInterval)
				}
				add(Desc{Kind: "silence", T: t, ReadSize: []int{64, 8192}[i], Size: 640, SockTOms: to, Factor10: f})
			}
		}
		for _, t := range []string{"system", "system-netconf", "system-ssh", "standard-shell", "standard-netconf", "telnet"} {
			for _, rs := range []int{81, 8192} {
				for _, tail := range []int{rs - 20, 3*rs + 7} {
					add(Desc{Kind: "lastwords", T: t, ReadSize: rs, Size: tail, PauseMs: 500 + 250*((rep+rs)%3)})
				}
			}
		}
	}
	// second use of one Transport object after an unclean end of the first
	for rep := 0; rep < ureps; rep++ {
		for _, t := range []string{"standard-shell", "standard-netconf", "system", "system-ssh", "telnet"} {
			for _, rs := range []int{81, 8192} {
				add(Desc{Kind: "reuse", T: t, How: "peer-left-close", ReadSize: rs})
			}
		}
		for _, t := range []string{"standard-shell", "standard-netconf"} {
			for _, rs := range []int{81, 8192} {
				add(Desc{Kind: "reuse", T: t, How: "refused-first", ReadSize: rs})
			}
		}
	}
	// two live transports to one server, the older one closed first
	for rep := 0; rep < ureps; rep++ {
		for _, t := range []string{"system-ssh", "standard-shell"} {
			for _, rs := range []int{81, 8192} {
				add(Desc{Kind: "twin", T: t, ReadSize: rs})
			}
		}
	}
	// write, close, slow peer / a write stuck in the implementation when Close is called
	for rep := 0; rep < ureps; rep++ {
		for _, t := range []string{"telnet", "standard-shell", "standard-netconf"} {
			for i, sz := range []int{5, 64 << 10, 300 << 10, 1 << 20} {
				add(Desc{Kind: "writeclose", T: t, ReadSize: 8192, Size: sz, How: []string{"close", "close-noforce"}[(i+rep)%2]})
			}
		}
		for _, t := range []string{"system", "system-ssh", "standard-shell", "telnet"} {
			for _, how := range []string{"close", "close-noforce"} {
				add(Desc{Kind: "stuckwrite", T: t, ReadSize: 8192, How: how})
			}
		}
	}
	// end-to-end differential
	ecli, enc := 4, 3
	if tier == "thorough" {
		ecli, enc = 120, 100
	}
	rss := []int{8192, 81, 65535}
	for i := 0; i < ecli; i++ {
		for _, t := range []string{"system-ssh", "standard", "telnet"} {
			add(Desc{Kind: "e2e-cli", T: t, ReadSize: rss[(i+int(seed))%3]})
		}
	}
	for i := 0; i < enc; i++ {
		for _, t := range []string{"system-ssh", "standard"} {
			for _, v := range []string{"1.0", "1.1"} {
				add(Desc{Kind: "e2e-netconf", T: t, Version: v, ReadSize: rss[(i+int(seed))%3]})
			}
		}
	}
	// the same NETCONF sessions with a slow log sink on the client and a device that sends each reply
	// in two halves: spreads the driver's writes and the reply out in time (deterministic schedule)
	pn := 1
	if tier == "thorough" {
		pn = 4
	}
	for i := 0; i < pn; i++ {
		for _, t := range []string{"system-ssh", "standard"} {
			for _, v := range []string{"1.0", "1.1"} {
				add(Desc{Kind: "e2e-netconf", T: t, Version: v, ReadSize: rss[(i+int(seed))%3], Paced: true})
			}
		}
	}
	return cs
}

func init() {
	mon.Register(&mon.Property{
		ID:    "C16",
		Level: "exploration",
		Rule: "Transfers: {system and system-netconf (pty + raw-mode stand-in), standard shell+pty, standard netconf subsystem, telnet} x read sizes {1 (small payloads), 81, 8192, 65535} x " +
			"payload sizes {1, rs-1, rs, rs+1, 4095, 4096, 4097, 65537 (every ordered byte pair), 1 MiB} in both directions, PRNG write chunking/pauses in " +
			"duplex, lockstep and up-then-down schedules; every transfer ends with Close(true) against the blocked reader. Every slice Transport.Read returns is also retained without copying and compared with a copy taken at read time after later reads. " +
			"Unblock cases: Close(true), Close(true) against a peer that hangs (server stops processing the connection / child stopped), and peer-gone " +
			"for the same transports plus the system transport with the real ssh client; re-open cycles (3 x Open/transfer/blocked read/Close on ONE Transport object, forced and " +
			"unforced close; peer must see the end, the child must be gone). Silence after write: with socket timeouts of 300-1000 ms the peer stays silent for 1.5x / 3x the timeout after a client write, then sends (twice), reader parked in Read. " +
			"Last words: the peer writes a tail (smaller / larger than the read size) and ends the session in an orderly way while nobody reads for 0.5-1 s; the whole tail must come out of Read before the error. Write-close-slow-peer (telnet, standard): 5 B .. 1 MiB written while the peer does not read, Close, then the peer reads to the end and must get every byte. " +
			"Stuck write: the peer never reads until a Write is stuck in the implementation, then Close(true) with a parked Read / Close(false) without: Close and the parked Read must return within 5 s (the stuck Write is not judged). Reuse: second use of one Transport object after the peer left + Close, and (standard) after a shell/subsystem request the server refused and an Open retried without Close: the second session must be a real, exact one. Twin: two live transports to one server and user, the one opened first is closed, the other must stay an exact pipe. Before every Close the harness calls IsAlive() (as channel/driver code may), also next to a parked Read. Telnet early bursts: the peer sends a burst longer than the read size right after accept (inside the " +
			"negotiation window, with/without option negotiations). End-to-end: generated CLI and NETCONF (1.0/1.1) sessions over the real " +
			"transports vs the ideal devsim pipe. Non-trivial = payload larger than the read size, or an unblock case, or an end-to-end differential. Distinct = distinct descriptor.",
		Assumptions: []string{
			"loopback TCP, ptys and the OpenSSH client (`ssh` on PATH) work offline; the stand-in process puts its tty into raw mode before it announces readiness, so the pty applies no line discipline",
			"'after the session is up' = after Transport.Open returned and (system) the stand-in's readiness marker was read; in the plain telnet transfers the negotiation is empty and the peer sends nothing during the negotiation window; in the early-burst variant the burst (no 0xff byte) is part of what reads must return",
			"with the real ssh client the escape character is disabled (-e none) for raw links; end-to-end sessions never start a line with '~'",
			"end-to-end generators: every command ends in a byte that occurs nowhere else, no output line prefix matches the prompt pattern (checked by brute force), no CR/tab inside NETCONF payloads, request lines shorter than the tty's canonical-mode limit (4095 bytes)",
			"device text of the end-to-end CLI sessions never contains 'login:', 'username:' or 'password:' outside the login prompts (a read boundary right after such a word would legitimately look like a prompt to the in-channel login)",
			"last words: the peer ends the session in an orderly way (socket/channel close after the write, stand-in exits after copying); with the real ssh client the client's own parting message after the peer's bytes is not peer data",
			"loss is judged only after 20 s without progress while the load canary is healthy; otherwise inconclusive",
			"data races inside the transport structs are not judged here",
		},
		Gen: gen,
		Run: func(c mon.Case) mon.Result {
			var d Desc
			c.Decode(&d)
			switch d.Kind {
			case "xfer":
				return runXfer(d)
			case "unblock":
				return runUnblock(d)
			case "cycle":
				return runCycle(d)
			case "silence":
				return runSilence(d)
			case "lastwords":
				return runLastWords(d)
			case "reuse":
				return runReuse(d)
			case "twin":
				return runTwin(d)
			case "writeclose":
				return runWriteClose(d)
			case "stuckwrite":
				return runStuckWrite(d)
			case "e2e-cli":
				return runE2ECLI(d)
			case "e2e-netconf":
				return runE2ENC(d)
			}
			return mon.Result{Verdict: mon.Inconclusive, Detail: "unknown case kind " + d.Kind}
		},
		Setup: func() error {
			os.Unsetenv("SSH_AUTH_SOCK")
			os.Unsetenv("SSH_ASKPASS")
			os.MkdirAll(os.Getenv("HOME"), 0o700)
			// a private, short temp dir: whatever the library leaves in os.TempDir() (ssh control sockets of a
			// mutant, ...) is the worker's own and goes at teardown
			if t, err := os.MkdirTemp("", "c16-"); err == nil {
				c16tmp = t
				os.Setenv("TMPDIR", t)
			}
			return nil
		},
		Teardown: func() {
			sshsim.ReapAll()
			if c16tmp != "" {
				os.RemoveAll(c16tmp)
			}
			if d := os.Getenv("C16_DIR"); d != "" {
				os.RemoveAll(d)
			}
		},
		Workers:     func(string) int { return 8 },
		Parallel:    func(string) int { return 4 },
		CaseTimeout: 240 * time.Second,
		WorkerEnv: func(dir string, shard int) []string {
			d := filepath.Join(dir, fmt.Sprintf("c16-%d", shard))
			return []string{"C16_DIR=" + d, "HOME=" + filepath.Join(d, "home"), "SSH_AUTH_SOCK=", "SSH_ASKPASS="}
		},
	})
}
