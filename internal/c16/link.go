package c16

import (
	"bytes"
	"errors"
	"fmt"
	"io"
	"net"
	"os"
	"path/filepath"
	"sync"
	"sync/atomic"
	"syscall"
	"time"

	"golang.org/x/crypto/ssh"

	"github.com/scrapli/scrapligo/driver/options"
	"github.com/scrapli/scrapligo/logging"
	"github.com/scrapli/scrapligo/transport"
	"github.com/scrapli/scrapligo/util"

	"verif/internal/mon"
	"verif/internal/sshsim"
)

// withNetconf is what netconf.NewDriver applies internally (unexported there).
func withNetconf() util.Option {
	return func(o interface{}) error {
		if a, ok := o.(*transport.SSHArgs); ok {
			a.NetconfConnection = true
			return nil
		}
		return util.ErrIgnoredOption
	}
}

var seq int64

func workDir() string {
	d := os.Getenv("C16_DIR")
	if d == "" {
		d = filepath.Join(mon.VerifDir(), ".work", fmt.Sprintf("c16-%d", os.Getpid()))
	}
	os.MkdirAll(d, 0o700)
	return d
}

var keyOnce sync.Once
var clientKey *sshsim.KeyFile
var clientKeyErr error

func theKey() (*sshsim.KeyFile, error) {
	keyOnce.Do(func() {
		clientKey, clientKeyErr = sshsim.NewKeyFile(filepath.Join(workDir(), fmt.Sprintf("id_c16_%d", os.Getpid())))
	})
	return clientKey, clientKeyErr
}

// earlyPlan (telnet): what the peer sends immediately on accept, i.e. while the client is still in
// its option-negotiation window inside Open.
type earlyPlan struct {
	Neg  bool   // a few option negotiations first
	Data []byte // then this much data (no 0xff: inside the window 0xff starts a telnet command)
}

// the negotiations the early plan sends and the answers RFC 854/858 style clients of this library
// give (DO SGA -> WILL SGA, WILL x -> DO x, DO x -> WONT x)
var (
	earlyNeg     = []byte{255, 253, 3, 255, 251, 1, 255, 253, 24}
	earlyNegResp = []byte{255, 251, 3, 255, 253, 1, 255, 252, 24}
)

// link is one real transport under test with a raw loopback peer. The Transport object and the
// peer's infrastructure live as long as the link; open() may be called repeatedly (re-open cycles).
type link struct {
	kind      string
	tr        *transport.Transport
	peer      io.ReadWriter // the peer's end of the byte stream of the current Open
	killPeer  func()        // the peer goes away abruptly
	sessCh    chan *sshsim.Session
	alive     bool              // what IsAlive() said right before the last Close
	srv       *sshsim.Server    // the ssh kinds: the in-process server
	closeDone chan struct{}     // closed when the last closeTransport's Close call returned
	halfClose func(status bool) // ssh kinds: CHANNEL_EOF (after exit-status if status) without CHANNEL_CLOSE
	freeze    func()            // the peer hangs: connection up, nothing processed any more
	leave     func()            // the peer ends the session in an orderly way (everything it wrote before is on its way)
	peerClose func()            // harness-side release of the current peer connection
	cleanup   []func()
	pid       int    // child of the system transport (current Open)
	pre       []byte // bytes the client already read during setup (after the readiness marker)
	earlyDown []byte // telnet: sent by the peer on accept, not yet read by the client
	earlyUp   []byte // telnet: negotiation answers the peer receives before any payload
	inWindow  bool   // the early burst was written before Open returned
	before    func() // runs right before Transport.Open
	accept    func() error
}

const (
	sshUser = "c16"
	sshPw   = "c16-password"
)

var errSetup = errors.New("setup")

func (l *link) readMarker(skipPreface bool) error {
	var got []byte
	deadline := time.Now().Add(20 * time.Second)
	for !bytes.Contains(got, []byte(sshsim.ReadyMarker)) {
		if time.Now().After(deadline) {
			return fmt.Errorf("%w: no readiness marker, got %q", errSetup, got)
		}
		b, e := l.tr.Read()
		if e != nil {
			return fmt.Errorf("%w: reading the readiness marker: %v (got %q)", errSetup, e, got)
		}
		got = append(got, b...)
	}
	i := bytes.Index(got, []byte(sshsim.ReadyMarker))
	if i != 0 && !skipPreface {
		return fmt.Errorf("%w: stand-in said %q before the marker", errSetup, got[:i])
	}
	l.pre = got[i+len(sshsim.ReadyMarker):]
	return nil
}

// newLink builds the Transport object for `kind` (system | system-netconf | system-ssh |
// standard-shell | standard-netconf | telnet) and the peer's infrastructure, without opening.
func newLink(kind string, readSize int, early *earlyPlan, sockTO ...time.Duration) (*link, error) {
	return newLinkOpt(kind, readSize, early, nil, sockTO...)
}

// newLinkOpt: base != nil (ssh kinds) = a second transport to the SAME in-process server and user as
// base (sessions of both arrive in open order).
func newLinkOpt(kind string, readSize int, early *earlyPlan, base *link, sockTO ...time.Duration) (*link, error) {
	lg, _ := logging.NewInstance()
	// socket timeout: default 20 s for the ssh transports, 400 ms for telnet (its negotiation window
	// is a quarter of it); the silence cases pass small ones
	sshTO, telTO := 20*time.Second, 400*time.Millisecond
	if len(sockTO) > 0 && sockTO[0] > 0 {
		sshTO, telTO = sockTO[0], sockTO[0]
	}
	l := &link{kind: kind}
	n := atomic.AddInt64(&seq, 1)
	var e error
	switch kind {
	case "system", "system-netconf":
		self, e := os.Executable()
		if e != nil {
			return l, fmt.Errorf("%w: %v", errSetup, e)
		}
		rl, e := sshsim.NewRelay(filepath.Join(workDir(), fmt.Sprintf("r%d.sock", n)))
		if e != nil {
			return l, fmt.Errorf("%w: relay socket: %v", errSetup, e)
		}
		l.cleanup = append(l.cleanup, rl.Close)
		sopts := []util.Option{options.WithSystemTransportOpenBin(self), options.WithSystemTransportOpenArgsOverride(rl.Args()),
			options.WithTransportReadSize(readSize), options.WithTimeoutSocket(sshTO)}
		if kind == "system-netconf" { // the pty.Start (no window size) path; the transport appends "-s netconf"
			sopts = append(sopts, withNetconf())
		}
		l.tr, e = transport.NewTransport(lg, "127.0.0.1", transport.SystemTransport, sopts...)
		if e != nil {
			return l, e
		}
		l.accept = func() error {
			c, _, e := rl.Accept(20 * time.Second)
			if e != nil {
				return fmt.Errorf("%w: stand-in did not connect: %v", errSetup, e)
			}
			l.peer = c
			l.killPeer = func() { c.Close() }
			l.leave = func() { c.Close() } // the stand-in copies what is pending to the pty, then exits
			l.freeze = func() {            // stop the child (SIGSTOP): the pty stays open, nobody serves it
				if l.pid > 0 {
					syscall.Kill(l.pid, syscall.SIGSTOP)
				}
			}
			l.peerClose = func() { c.Close() }
			// session is up once the stand-in announced readiness (raw mode is set by then)
			return l.readMarker(false)
		}
	case "system-ssh", "standard-shell", "standard-netconf":
		var srv *sshsim.Server
		var sessCh chan *sshsim.Session
		if base != nil && base.srv != nil {
			srv, sessCh = base.srv, base.sessCh
		} else {
			var e error
			srv, e = sshsim.NewServer()
			if e != nil {
				return l, fmt.Errorf("%w: %v", errSetup, e)
			}
			l.cleanup = append(l.cleanup, srv.Close)
			sessCh = make(chan *sshsim.Session, 4)
			release := make(chan struct{})
			l.cleanup = append(l.cleanup, func() { close(release) })
			srv.SetHandler(func(s *sshsim.Session) {
				if kind == "system-ssh" {
					s.Write([]byte(sshsim.ReadyMarker))
				}
				sessCh <- s
				<-release
			})
		}
		l.srv, l.sessCh = srv, sessCh
		var opts []util.Option
		tt := transport.StandardTransport
		if kind == "system-ssh" { // the real ssh client: key auth (nobody types a password at this level), escape character off
			k, e := theKey()
			if e != nil {
				return l, fmt.Errorf("%w: %v", errSetup, e)
			}
			srv.SetAccount(sshUser, &sshsim.Account{Keys: []ssh.PublicKey{k.Public}})
			tt = transport.SystemTransport
			opts = []util.Option{options.WithAuthPrivateKey(k.Path, ""), options.WithSystemTransportOpenArgs([]string{"-e", "none"})}
		} else {
			srv.SetAccount(sshUser, &sshsim.Account{Password: sshPw})
			opts = []util.Option{options.WithAuthPassword(sshPw)}
		}
		opts = append(opts, options.WithPort(srv.Port()), options.WithAuthUsername(sshUser),
			options.WithAuthNoStrictKey(), options.WithTransportReadSize(readSize), options.WithTimeoutSocket(sshTO))
		if kind == "standard-netconf" {
			opts = append(opts, withNetconf())
		}
		l.tr, e = transport.NewTransport(lg, "127.0.0.1", tt, opts...)
		if e != nil {
			return l, e
		}
		l.accept = func() error {
			select {
			case s := <-sessCh:
				want := ""
				if kind == "standard-netconf" {
					want = "netconf"
				}
				if s.Subsystem != want || (want == "" && !s.Pty) {
					return fmt.Errorf("server got subsystem %q pty=%v, expected subsystem %q", s.Subsystem, s.Pty, want)
				}
				l.peer = s
				l.killPeer = s.Kill
				l.leave = func() { s.CloseWrite(); s.Close() } // orderly end of the session channel
				// legal half close: the device ends ITS direction (optionally after an exit status) but sends
				// no channel close and keeps the connection
				l.halfClose = func(status bool) {
					if status {
						s.SendRequest("exit-status", false, []byte{0, 0, 0, 0})
					}
					s.CloseWrite()
				}
				l.freeze = s.Freeze // the server stops processing the connection
				l.peerClose = s.Kill
			case <-time.After(30 * time.Second):
				return fmt.Errorf("%w: Open returned but the server saw no session", errSetup)
			}
			if kind == "system-ssh" {
				return l.readMarker(true) // ssh prints "Warning: Permanently added …" first
			}
			return nil
		}
	case "telnet":
		p, e := sshsim.NewTCPPeer()
		if e != nil {
			return l, fmt.Errorf("%w: %v", errSetup, e)
		}
		l.cleanup = append(l.cleanup, p.Close)
		l.tr, e = transport.NewTransport(lg, "127.0.0.1", transport.TelnetTransport,
			options.WithPort(p.Port), options.WithTimeoutSocket(telTO), options.WithTransportReadSize(readSize))
		if e != nil {
			return l, e
		}
		connCh := make(chan net.Conn, 4)
		var wroteAt atomic.Value
		l.before = func() {
			go func() {
				c, ok := <-p.C
				if !ok {
					return
				}
				if early != nil { // a real telnet server talks first: negotiations, banner, login prompt
					if early.Neg {
						c.Write(earlyNeg)
					}
					c.Write(early.Data)
					wroteAt.Store(time.Now())
				}
				connCh <- c
			}()
		}
		l.accept = func() error {
			opened := time.Now()
			select {
			case c := <-connCh:
				l.peer = c
				l.killPeer = func() { c.Close() }
				l.leave = func() { c.Close() } // FIN after the data
				l.freeze = func() {}           // a raw TCP peer that hangs simply does not read
				l.peerClose = func() { c.Close() }
			case <-time.After(20 * time.Second):
				return fmt.Errorf("%w: Open returned but the TCP peer saw no connection", errSetup)
			}
			if early != nil {
				l.earlyDown = early.Data
				if early.Neg {
					l.earlyUp = earlyNegResp
				}
				if t, ok := wroteAt.Load().(time.Time); ok && t.Before(opened) {
					l.inWindow = true
				}
			}
			return nil
		}
	default:
		return l, fmt.Errorf("%w: unknown transport kind %q", errSetup, kind)
	}
	return l, e
}

// open opens the Transport object (again) and waits for the peer and the readiness marker.
func (l *link) open() error {
	l.pre, l.peer, l.earlyDown, l.earlyUp, l.inWindow = nil, nil, nil, nil, false
	if l.before != nil {
		l.before()
	}
	if e := l.tr.Open(); e != nil {
		return e
	}
	l.pid = sshsim.SystemPid(l.tr.Impl)
	if err := l.accept(); err != nil {
		return err
	}
	// what channel/driver code may do at any time: ask whether the transport is alive. It must be a
	// pure query - every read parked after it must still be released by Close
	l.alive = l.tr.IsAlive()
	return nil
}

// openLink = newLink + open. An error wrapping errSetup means the harness (not the library) failed.
func openLink(kind string, readSize int, early ...*earlyPlan) (*link, error) {
	return openLinkTO(kind, readSize, 0, early...)
}

// openLinkTO is openLink with a socket timeout (0 = default).
func openLinkTO(kind string, readSize int, sockTO time.Duration, early ...*earlyPlan) (*link, error) {
	var ep *earlyPlan
	if len(early) > 0 {
		ep = early[0]
	}
	l, err := newLink(kind, readSize, ep, sockTO)
	if err == nil {
		err = l.open()
	}
	if err != nil {
		l.closeTransport(true, 5*time.Second)
		l.close()
	}
	return l, err
}

// closeTransport calls Transport.Close(force) with a bound; reports whether it returned.
func (l *link) closeTransport(force bool, d time.Duration) bool {
	if l.tr == nil {
		return true
	}
	done := make(chan struct{})
	l.closeDone = done
	go func() {
		defer func() { recover(); close(done) }()
		// what channel/driver code does before closing: ask whether the transport is alive (must be
		// harmless, in particular next to a parked Read)
		l.alive = l.tr.IsAlive()
		l.tr.Close(force)
	}()
	select {
	case <-done:
		return true
	case <-time.After(d):
		return false
	}
}

// stillStuck is called when Close / the blocked read did not come back within the first 5 s while
// the machine was loaded: it keeps watching for up to four more windows of 5 s. A window during
// which the load canary stayed healthy and still nothing came back decides: stuck (violation).
// Returns (stuck, conclusive); (false, true) = everything came back late, (false, false) = every
// window was disturbed by load.
func (l *link) stillStuck(cs *sink, before int, needRead bool) (stuck, conclusive bool) {
	for w := 0; w < 4; w++ {
		tw := time.Now()
		for time.Since(tw) < 5*time.Second {
			closeBack := true
			if l.closeDone != nil {
				select {
				case <-l.closeDone:
				default:
					closeBack = false
				}
			}
			readBack := !needRead || cs.waitReturn(before, 0)
			if closeBack && readBack {
				return false, true
			}
			time.Sleep(20 * time.Millisecond)
		}
		if !mon.LoadedSince(tw) {
			return true, true
		}
	}
	return false, false
}

// close releases everything the case opened (idempotent enough for deferred use) and kills and
// reaps a child that is still around.
func (l *link) close() {
	if l.peerClose != nil {
		l.peerClose()
		l.peerClose = nil
	}
	for i := len(l.cleanup) - 1; i >= 0; i-- {
		l.cleanup[i]()
	}
	l.cleanup = nil
	sshsim.ReapPid(l.pid, true, 5*time.Second)
	l.pid = 0
}
