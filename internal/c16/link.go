package c16

import (
	"bytes"
	"errors"
	"fmt"
	"io"
	"os"
	"path/filepath"
	"sync/atomic"
	"time"

	"github.com/scrapli/scrapligo/driver/options"
	"github.com/scrapli/scrapligo/logging"
	"github.com/scrapli/scrapligo/transport"
	"github.com/scrapli/scrapligo/util"

	"verif/internal/mon"
	"verif/internal/sshsim"
)

// withNetconf is what netconf.NewDriver applies internally (unexported there).
func withNetconf() util.Option {
	return func(o interface{}) error {
		if a, ok := o.(*transport.SSHArgs); ok {
			a.NetconfConnection = true
			return nil
		}
		return util.ErrIgnoredOption
	}
}

var seq int64

func workDir() string {
	d := os.Getenv("C16_DIR")
	if d == "" {
		d = filepath.Join(mon.VerifDir(), ".work", fmt.Sprintf("c16-%d", os.Getpid()))
	}
	os.MkdirAll(d, 0o700)
	return d
}

// link is one real transport under test, opened against a raw loopback peer.
type link struct {
	kind     string
	tr       *transport.Transport
	peer     io.ReadWriter // the peer's end of the byte stream
	killPeer func()        // the peer goes away abruptly
	cleanup  []func()
	pid      int    // child of the system transport
	pre      []byte // bytes read by the client after the readiness marker during setup
}

const (
	sshUser = "c16"
	sshPw   = "c16-password"
)

var errSetup = errors.New("setup")

// openLink opens transport `kind` (system | system-netconf | standard-shell | standard-netconf | telnet) with a raw
// peer. An error wrapping errSetup means the harness (not the library) failed.
func openLink(kind string, readSize int) (l *link, err error) {
	lg, _ := logging.NewInstance()
	l = &link{kind: kind}
	defer func() {
		if err != nil {
			l.close()
		}
	}()
	n := atomic.AddInt64(&seq, 1)
	switch kind {
	case "system", "system-netconf":
		self, e := os.Executable()
		if e != nil {
			return l, fmt.Errorf("%w: %v", errSetup, e)
		}
		rl, e := sshsim.NewRelay(filepath.Join(workDir(), fmt.Sprintf("r%d.sock", n)))
		if e != nil {
			return l, fmt.Errorf("%w: relay socket: %v", errSetup, e)
		}
		l.cleanup = append(l.cleanup, rl.Close)
		sopts := []util.Option{options.WithSystemTransportOpenBin(self), options.WithSystemTransportOpenArgsOverride(rl.Args()),
			options.WithTransportReadSize(readSize)}
		if kind == "system-netconf" { // the pty.Start (no window size) path; the transport appends "-s netconf"
			sopts = append(sopts, withNetconf())
		}
		l.tr, e = transport.NewTransport(lg, "127.0.0.1", transport.SystemTransport, sopts...)
		if e != nil {
			return l, e
		}
		if e = l.tr.Open(); e != nil {
			return l, e
		}
		l.pid = sshsim.SystemPid(l.tr.Impl)
		c, _, e := rl.Accept(20 * time.Second)
		if e != nil {
			return l, fmt.Errorf("%w: stand-in did not connect: %v", errSetup, e)
		}
		l.peer = c
		l.killPeer = func() { c.Close() }
		l.cleanup = append(l.cleanup, func() { c.Close() })
		// session is up once the stand-in announced readiness (raw mode is set by then)
		var got []byte
		deadline := time.Now().Add(20 * time.Second)
		for !bytes.Contains(got, []byte(sshsim.ReadyMarker)) {
			if time.Now().After(deadline) {
				return l, fmt.Errorf("%w: no readiness marker from the stand-in, got %q", errSetup, got)
			}
			b, e := l.tr.Read()
			if e != nil {
				return l, fmt.Errorf("%w: reading the readiness marker: %v (got %q)", errSetup, e, got)
			}
			got = append(got, b...)
		}
		i := bytes.Index(got, []byte(sshsim.ReadyMarker))
		if i != 0 {
			return l, fmt.Errorf("%w: stand-in said %q before the marker", errSetup, got[:i])
		}
		l.pre = got[len(sshsim.ReadyMarker):]
	case "standard-shell", "standard-netconf":
		srv, e := sshsim.NewServer()
		if e != nil {
			return l, fmt.Errorf("%w: %v", errSetup, e)
		}
		l.cleanup = append(l.cleanup, srv.Close)
		srv.SetAccount(sshUser, &sshsim.Account{Password: sshPw})
		sessCh := make(chan *sshsim.Session, 1)
		release := make(chan struct{})
		l.cleanup = append(l.cleanup, func() { close(release) })
		srv.SetHandler(func(s *sshsim.Session) {
			sessCh <- s
			<-release
		})
		opts := []util.Option{options.WithPort(srv.Port()), options.WithAuthUsername(sshUser), options.WithAuthPassword(sshPw),
			options.WithAuthNoStrictKey(), options.WithTransportReadSize(readSize), options.WithTimeoutSocket(20 * time.Second)}
		if kind == "standard-netconf" {
			opts = append(opts, withNetconf())
		}
		l.tr, e = transport.NewTransport(lg, "127.0.0.1", transport.StandardTransport, opts...)
		if e != nil {
			return l, e
		}
		if e = l.tr.Open(); e != nil {
			return l, e
		}
		select {
		case s := <-sessCh:
			want := ""
			if kind == "standard-netconf" {
				want = "netconf"
			}
			if s.Subsystem != want || (want == "" && !s.Pty) {
				return l, fmt.Errorf("server got subsystem %q pty=%v, expected subsystem %q", s.Subsystem, s.Pty, want)
			}
			l.peer = s
			l.killPeer = s.Kill
		case <-time.After(20 * time.Second):
			return l, fmt.Errorf("%w: Open returned but the server saw no session", errSetup)
		}
	case "telnet":
		p, e := sshsim.NewTCPPeer()
		if e != nil {
			return l, fmt.Errorf("%w: %v", errSetup, e)
		}
		l.cleanup = append(l.cleanup, p.Close)
		l.tr, e = transport.NewTransport(lg, "127.0.0.1", transport.TelnetTransport,
			options.WithPort(p.Port), options.WithTimeoutSocket(400*time.Millisecond), options.WithTransportReadSize(readSize))
		if e != nil {
			return l, e
		}
		if e = l.tr.Open(); e != nil {
			return l, e
		}
		select {
		case c := <-p.C:
			l.peer = c
			l.killPeer = func() { c.Close() }
			l.cleanup = append(l.cleanup, func() { c.Close() })
		case <-time.After(20 * time.Second):
			return l, fmt.Errorf("%w: Open returned but the TCP peer saw no connection", errSetup)
		}
	default:
		return l, fmt.Errorf("%w: unknown transport kind %q", errSetup, kind)
	}
	return l, nil
}

// closeTransport calls Transport.Close(force) with a bound; reports whether it returned.
func (l *link) closeTransport(force bool, d time.Duration) bool {
	if l.tr == nil {
		return true
	}
	done := make(chan struct{})
	go func() {
		defer func() { recover(); close(done) }()
		l.tr.Close(force)
	}()
	select {
	case <-done:
		return true
	case <-time.After(d):
		return false
	}
}

// close releases everything the case opened (idempotent enough for deferred use).
func (l *link) close() {
	for i := len(l.cleanup) - 1; i >= 0; i-- {
		l.cleanup[i]()
	}
	l.cleanup = nil
	sshsim.ReapPid(l.pid, true, 5*time.Second)
	l.pid = 0
}
