// Package c16 holds the runtime monitor for property C16 (see DESIGN.md §3 C16).
package c16
