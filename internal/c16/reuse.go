package c16

import (
	"errors"
	"fmt"
	"time"

	"verif/internal/mon"
	"verif/internal/sshsim"
)

// runReuse: second use of the SAME Transport object after an unclean end of the first.
//
//	How = "peer-left-close":   session 1 works, the peer leaves while a Read is parked (it returns),
//	                           Close (its error, if any, is the library's business), then Open again.
//	How = "refused-first":     the server refuses the first shell/subsystem request, Open fails; it is
//	                           retried WITHOUT Close (what channel.Open / driver.Open do).
//
// The second session must be a real one: the peer sees a new connection and the pipe is exact in both
// directions; at the end a parked Read is released by Close(true).
func runReuse(d Desc) mon.Result {
	t0 := time.Now()
	l, err := newLink(d.T, d.ReadSize, nil)
	if err != nil {
		l.close()
		return mon.Result{Verdict: mon.Inconclusive, Detail: "harness: " + err.Error()}
	}
	defer l.close()
	defer l.closeTransport(true, 5*time.Second)
	bad := func(k, f string, a ...interface{}) mon.Result {
		return mon.Result{Verdict: mon.Violated, Key: "c16/" + d.T + "/reuse:" + k + ":" + d.How, NonTrivial: true,
			Detail: fmt.Sprintf("%s rs=%d, second use of one Transport object after %s: ", d.T, d.ReadSize, d.How) + fmt.Sprintf(f, a...)}
	}
	exchange := func(round int) *mon.Result {
		up := payload("prng", 200+round, d.Seed+int64(round))
		down := payload("prng", 300+round, d.Seed^int64(round*7919))
		cs, ps := newSink(), newSink()
		cs.add(l.pre)
		go clientReader(l, cs)
		go peerReader(l, ps)
		if err := l.tr.Write(up); err != nil {
			r := bad("write-error", "session %d: Transport.Write: %v", round, err)
			return &r
		}
		if _, err := l.peer.Write(down); err != nil {
			r := mon.Result{Verdict: mon.Inconclusive, Detail: "harness: peer write: " + err.Error()}
			return &r
		}
		for _, x := range []struct {
			dir  string
			s    *sink
			want []byte
		}{{"up", ps, up}, {"down", cs, append(append([]byte(nil), l.pre...), down...)}} {
			if class, c := await(x.s, x.want); class != "" {
				if class == "lost" && mon.LoadedSince(t0) {
					r := mon.Result{Verdict: mon.Inconclusive, Detail: x.dir + ": " + c}
					return &r
				}
				r := bad(x.dir+"-"+class, "session %d: %s", round, c)
				return &r
			}
		}
		if round == 1 && d.How == "peer-left-close" {
			// the peer leaves while the reader is parked; the reader must come back
			before := cs.returned()
			l.leave()
			if !cs.waitReturn(before, 5*time.Second) {
				if mon.LoadedSince(t0) {
					r := mon.Result{Verdict: mon.Inconclusive, Detail: "parked read not released under load"}
					return &r
				}
				r := bad("unblock:peer-gone", "the parked Read did not return within 5 s after the peer left")
				return &r
			}
			select {
			case <-cs.done:
			case <-time.After(5 * time.Second):
			}
			l.closeTransport(false, 5*time.Second) // may return an error (EOF): unchanged behaviour
			sshsim.ReapPid(l.pid, true, 5*time.Second)
			l.pid = 0
			return nil
		}
		// last session: a parked read is released by Close(true)
		before := cs.returned()
		time.Sleep(5 * time.Millisecond)
		closeReturned := l.closeTransport(true, 5*time.Second)
		if !closeReturned || !cs.waitReturn(before, 5*time.Second) {
			if mon.LoadedSince(t0) {
				if stuck, _ := l.stillStuck(cs, before, true); !stuck {
					r := mon.Result{Verdict: mon.Inconclusive, Detail: "close/unblock not observed under load"}
					return &r
				}
			}
			r := bad("unblock:close", "session %d: Close(true) returned=%v, parked Read not released within 5 s", round, closeReturned)
			return &r
		}
		return nil
	}
	obs := map[string]int64{"reuse_cases": 1}
	switch d.How {
	case "refused-first":
		if l.srv == nil {
			return mon.Result{Verdict: mon.Inconclusive, Detail: "harness: no ssh server for " + d.T}
		}
		l.srv.RefuseNext(1)
		l.pre, l.peer = nil, nil
		if err := l.tr.Open(); err == nil {
			return bad("open-succeeded-although-refused", "the server refused the shell/subsystem request but Transport.Open returned nil")
		}
		obs["opens_refused_by_the_server"]++
	default:
		if err := l.open(); err != nil {
			if errors.Is(err, errSetup) || mon.LoadedSince(t0) {
				return mon.Result{Verdict: mon.Inconclusive, Detail: "harness/load: " + err.Error()}
			}
			return bad("open-failed", "first Open: %v", err)
		}
		if r := exchange(1); r != nil {
			return *r
		}
	}
	// ---- second use of the same object
	c0 := int64(0)
	if l.srv != nil {
		c0 = l.srv.ConnCount()
	}
	t2 := time.Now()
	if err := l.open(); err != nil {
		if errors.Is(err, errSetup) && l.srv != nil && l.srv.ConnCount() == c0 {
			// Open returned nil but nothing reached the peer: the transport did not dial
			return bad("second-open-did-not-connect", "Transport.Open returned nil but the peer saw no new connection/session (%v)", err)
		}
		if errors.Is(err, errSetup) || mon.LoadedSince(t2) {
			return mon.Result{Verdict: mon.Inconclusive, Detail: "harness/load: second open: " + err.Error()}
		}
		return bad("open-failed", "second Open on the same object: %v", err)
	}
	if r := exchange(2); r != nil {
		return *r
	}
	obs["second_sessions_on_one_object_exact"]++
	return mon.Result{Verdict: mon.Held, NonTrivial: true, Obs: obs,
		Tags:   []string{"transport=" + d.T, "reuse=" + d.How, fmt.Sprintf("readsize=%d", d.ReadSize)},
		Sample: map[string]interface{}{"transport": d.T, "history": d.How, "second_session": "exact both ways, parked read released by Close(true)"}}
}
