package c16

import (
	"bytes"
	"errors"
	"fmt"
	"time"

	"verif/internal/mon"
)

func openFailed(d Desc, t0 time.Time, err error) mon.Result {
	if errors.Is(err, errSetup) || mon.LoadedSince(t0) {
		return mon.Result{Verdict: mon.Inconclusive, Detail: "harness/load: " + err.Error()}
	}
	return mon.Result{Verdict: mon.Violated, Key: "c16/" + d.T + "/open-failed", Detail: "Transport.Open against a healthy loopback peer: " + err.Error(), NonTrivial: true}
}

// runSilence: "silence after write". With a small socket timeout: the client writes, the peer stays
// silent for Factor x TimeoutSocket (x0.1), then sends; twice. The reader is parked in Read the
// whole time. Oracle unchanged: every byte the peer sends comes out of Read exactly once, in order,
// and no read fails while the peer is alive.
func runSilence(d Desc) mon.Result {
	t0 := time.Now()
	to := time.Duration(d.SockTOms) * time.Millisecond
	silence := to * time.Duration(d.Factor10) / 10
	l, err := openLinkTO(d.T, d.ReadSize, to)
	if err != nil {
		return openFailed(d, t0, err)
	}
	defer l.close()
	defer l.closeTransport(true, 5*time.Second)
	bad := func(k, f string, a ...interface{}) mon.Result {
		return mon.Result{Verdict: mon.Violated, Key: "c16/" + d.T + "/" + k, NonTrivial: true,
			Detail: fmt.Sprintf("%s rs=%d socket timeout %s, peer silent for %s after the client's write: ", d.T, d.ReadSize, to, silence) + fmt.Sprintf(f, a...)}
	}
	cs, ps := newSink(), newSink()
	cs.add(l.pre)
	go clientReader(l, cs)
	go peerReader(l, ps)
	var wantUp, wantDown []byte
	wantDown = append(wantDown, l.pre...)
	for round := 1; round <= 2; round++ {
		up := payload("prng", 40+round, d.Seed+int64(round))
		if err := l.tr.Write(up); err != nil {
			return bad("write-error", "round %d: Transport.Write: %v", round, err)
		}
		wantUp = append(wantUp, up...)
		if class, c := await(ps, wantUp); class != "" {
			if class == "lost" && mon.LoadedSince(t0) {
				return mon.Result{Verdict: mon.Inconclusive, Detail: c}
			}
			return bad("up-"+class, "round %d: %s", round, c)
		}
		time.Sleep(silence)
		select {
		case <-cs.done:
			return bad("read-error-on-live-link", "round %d: Transport.Read returned %v while the peer was alive and merely silent", round, cs.err)
		default:
		}
		down := payload("prng", d.Size, d.Seed^int64(round*7919))
		if _, err := l.peer.Write(down); err != nil {
			return mon.Result{Verdict: mon.Inconclusive, Detail: "harness: peer write: " + err.Error()}
		}
		wantDown = append(wantDown, down...)
		if class, c := await(cs, wantDown); class != "" {
			select {
			case <-cs.done:
				return bad("read-error-on-live-link", "round %d: Transport.Read returned %v while the peer was alive; %s", round, cs.err, c)
			default:
			}
			if class == "lost" && mon.LoadedSince(t0) {
				return mon.Result{Verdict: mon.Inconclusive, Detail: c}
			}
			return bad("down-"+class, "round %d: %s", round, c)
		}
	}
	return mon.Result{Verdict: mon.Held, NonTrivial: true,
		Obs:    map[string]int64{"silence_after_write_cases": 1, "silences_longer_than_socket_timeout": 2},
		Tags:   []string{"transport=" + d.T, fmt.Sprintf("silence=%.1fx-timeout", float64(d.Factor10)/10), fmt.Sprintf("readsize=%d", d.ReadSize)},
		Sample: map[string]interface{}{"transport": d.T, "socket_timeout_ms": d.SockTOms, "silence_ms": silence.Milliseconds(), "bytes_after_each_silence": d.Size}}
}

// runLastWords: the peer writes a tail and ends the session in an orderly way while nobody is
// reading (the reader stays away for Pause ms); every byte the peer sent before it left must still
// come out of Read, exactly once and in order, before the error, and the reads must not block
// forever afterwards.
func runLastWords(d Desc) mon.Result {
	t0 := time.Now()
	l, err := openLink(d.T, d.ReadSize)
	if err != nil {
		return openFailed(d, t0, err)
	}
	defer l.close()
	defer l.closeTransport(true, 5*time.Second)
	bad := func(k, f string, a ...interface{}) mon.Result {
		return mon.Result{Verdict: mon.Violated, Key: "c16/" + d.T + "/" + k, NonTrivial: true,
			Detail: fmt.Sprintf("%s rs=%d tail=%d B, reader away for %d ms while the peer says its last words and leaves: ", d.T, d.ReadSize, d.Size, d.PauseMs) + fmt.Sprintf(f, a...)}
	}
	// a short exchange first, read synchronously (no read is pending afterwards)
	hello := payload("prng", 33, d.Seed)
	if _, err := l.peer.Write(hello); err != nil {
		return mon.Result{Verdict: mon.Inconclusive, Detail: "harness: peer write: " + err.Error()}
	}
	got := append([]byte(nil), l.pre...)
	want := append(append([]byte(nil), l.pre...), hello...)
	readOne := func(d time.Duration) ([]byte, error, bool) {
		ch := make(chan struct{})
		var b []byte
		var e error
		go func() { b, e = l.tr.Read(); close(ch) }()
		select {
		case <-ch:
			return b, e, true
		case <-time.After(d):
			return nil, nil, false
		}
	}
	for len(got) < len(want) {
		b, e, ok := readOne(lossWait)
		if !ok {
			if mon.LoadedSince(t0) {
				return mon.Result{Verdict: mon.Inconclusive, Detail: "read stalled under load"}
			}
			return bad("down-lost", "only %d of %d bytes of the first exchange arrived", len(got), len(want))
		}
		got = append(got, b...)
		if e != nil {
			return bad("read-error-on-live-link", "Transport.Read: %v", e)
		}
	}
	// the real ssh client prints "Connection to … closed." on the pty after the peer's data
	clientSpeaks := d.T == "system-ssh"
	tail := payload("prng", d.Size, d.Seed^0x1a57)
	werr := make(chan error, 1)
	go func() { // a tail larger than the kernel buffers blocks until the reader comes back
		_, e := l.peer.Write(tail)
		if e == nil {
			l.leave()
		}
		werr <- e
	}()
	want = append(want, tail...)
	time.Sleep(time.Duration(d.PauseMs) * time.Millisecond)
	// now read until the error
	var rerr error
	for rerr == nil {
		b, e, ok := readOne(lossWait)
		if !ok {
			if mon.LoadedSince(t0) {
				return mon.Result{Verdict: mon.Inconclusive, Detail: "read blocked under load"}
			}
			return bad("unblock:peer-gone", "after %d of %d bytes a Read blocked for %s although the peer had left", len(got), len(want), lossWait)
		}
		got = append(got, b...)
		rerr = e
		if !bytes.HasPrefix(want, got) && !(clientSpeaks && bytes.HasPrefix(got, want)) {
			return bad("last-words-corrupt", "%s", firstDiff(got, want))
		}
		if e == nil && len(b) == 0 {
			time.Sleep(200 * time.Microsecond)
		}
	}
	if e := <-werr; e != nil {
		return mon.Result{Verdict: mon.Inconclusive, Detail: "harness: peer could not write its tail: " + e.Error()}
	}
	if clientSpeaks && bytes.HasPrefix(got, want) {
		got = got[:len(want)] // what follows is the ssh client's own parting message, not peer data
	}
	if !bytes.Equal(got, want) {
		return bad("last-words-lost", "Read returned %d of the %d bytes the peer had sent before it left, then %v", len(got), len(want), rerr)
	}
	return mon.Result{Verdict: mon.Held, NonTrivial: true,
		Obs:    map[string]int64{"last_words_cases": 1, "last_words_bytes_delivered_before_the_error": int64(len(tail))},
		Tags:   []string{"transport=" + d.T, "last-words:" + sizeClassLW(d.Size, d.ReadSize), fmt.Sprintf("readsize=%d", d.ReadSize)},
		Sample: map[string]interface{}{"transport": d.T, "tail_bytes": d.Size, "read_size": d.ReadSize, "reader_away_ms": d.PauseMs, "error_after_the_tail": fmt.Sprint(rerr)}}
}

func sizeClassLW(size, rs int) string {
	if size < rs {
		return "tail<readsize"
	}
	return "tail>readsize"
}
