package c16

import (
	"bytes"
	"errors"
	"fmt"
	"io"
	"math/rand"
	"strings"
	"sync"
	"time"

	"verif/internal/mon"
)

func openFailed(d Desc, t0 time.Time, err error) mon.Result {
	if errors.Is(err, errSetup) || mon.LoadedSince(t0) {
		return mon.Result{Verdict: mon.Inconclusive, Detail: "harness/load: " + err.Error()}
	}
	return mon.Result{Verdict: mon.Violated, Key: "c16/" + d.T + "/open-failed", Detail: "Transport.Open against a healthy loopback peer: " + err.Error(), NonTrivial: true}
}

// runSilence: "silence after write". With a small socket timeout: the client writes, the peer stays
// silent for Factor x TimeoutSocket (x0.1), then sends; twice. The reader is parked in Read the
// whole time. Oracle unchanged: every byte the peer sends comes out of Read exactly once, in order,
// and no read fails while the peer is alive.
func runSilence(d Desc) mon.Result {
	t0 := time.Now()
	to := time.Duration(d.SockTOms) * time.Millisecond
	silence := to * time.Duration(d.Factor10) / 10
	l, err := openLinkTO(d.T, d.ReadSize, to)
	if err != nil {
		return openFailed(d, t0, err)
	}
	defer l.close()
	defer l.closeTransport(true, 5*time.Second)
	bad := func(k, f string, a ...interface{}) mon.Result {
		return mon.Result{Verdict: mon.Violated, Key: "c16/" + d.T + "/" + k, NonTrivial: true,
			Detail: fmt.Sprintf("%s rs=%d socket timeout %s, peer silent for %s after the client's write: ", d.T, d.ReadSize, to, silence) + fmt.Sprintf(f, a...)}
	}
	cs, ps := newSink(), newSink()
	cs.add(l.pre)
	go clientReader(l, cs)
	go peerReader(l, ps)
	var wantUp, wantDown []byte
	wantDown = append(wantDown, l.pre...)
	for round := 1; round <= 2; round++ {
		up := payload("prng", 40+round, d.Seed+int64(round))
		if err := l.tr.Write(up); err != nil {
			return bad("write-error", "round %d: Transport.Write: %v", round, err)
		}
		wantUp = append(wantUp, up...)
		if class, c := await(ps, wantUp); class != "" {
			if class == "lost" && mon.LoadedSince(t0) {
				return mon.Result{Verdict: mon.Inconclusive, Detail: c}
			}
			return bad("up-"+class, "round %d: %s", round, c)
		}
		time.Sleep(silence)
		select {
		case <-cs.done:
			return bad("read-error-on-live-link", "round %d: Transport.Read returned %v while the peer was alive and merely silent", round, cs.err)
		default:
		}
		down := payload("prng", d.Size, d.Seed^int64(round*7919))
		if _, err := l.peer.Write(down); err != nil {
			return mon.Result{Verdict: mon.Inconclusive, Detail: "harness: peer write: " + err.Error()}
		}
		wantDown = append(wantDown, down...)
		if class, c := await(cs, wantDown); class != "" {
			select {
			case <-cs.done:
				return bad("read-error-on-live-link", "round %d: Transport.Read returned %v while the peer was alive; %s", round, cs.err, c)
			default:
			}
			if class == "lost" && mon.LoadedSince(t0) {
				return mon.Result{Verdict: mon.Inconclusive, Detail: c}
			}
			return bad("down-"+class, "round %d: %s", round, c)
		}
	}
	if c := cs.changed(); c != "" {
		return bad("delivered-chunk-changed-after-return", "%s", c)
	}
	return mon.Result{Verdict: mon.Held, NonTrivial: true,
		Obs:    map[string]int64{"silence_after_write_cases": 1, "silences_longer_than_socket_timeout": 2},
		Tags:   []string{"transport=" + d.T, fmt.Sprintf("silence=%.1fx-timeout", float64(d.Factor10)/10), fmt.Sprintf("readsize=%d", d.ReadSize)},
		Sample: map[string]interface{}{"transport": d.T, "socket_timeout_ms": d.SockTOms, "silence_ms": silence.Milliseconds(), "bytes_after_each_silence": d.Size}}
}

// runLastWords: the peer writes a tail and ends the session in an orderly way while nobody is
// reading (the reader stays away for Pause ms); every byte the peer sent before it left must still
// come out of Read, exactly once and in order, before the error, and the reads must not block
// forever afterwards.
func runLastWords(d Desc) mon.Result {
	t0 := time.Now()
	l, err := openLink(d.T, d.ReadSize)
	if err != nil {
		return openFailed(d, t0, err)
	}
	defer l.close()
	defer l.closeTransport(true, 5*time.Second)
	bad := func(k, f string, a ...interface{}) mon.Result {
		return mon.Result{Verdict: mon.Violated, Key: "c16/" + d.T + "/" + k, NonTrivial: true,
			Detail: fmt.Sprintf("%s rs=%d tail=%d B, reader away for %d ms while the peer says its last words and leaves: ", d.T, d.ReadSize, d.Size, d.PauseMs) + fmt.Sprintf(f, a...)}
	}
	// a short exchange first, read synchronously (no read is pending afterwards)
	hello := payload("prng", 33, d.Seed)
	if _, err := l.peer.Write(hello); err != nil {
		return mon.Result{Verdict: mon.Inconclusive, Detail: "harness: peer write: " + err.Error()}
	}
	got := append([]byte(nil), l.pre...)
	want := append(append([]byte(nil), l.pre...), hello...)
	keep := newSink() // retains the returned slices without copying
	readOne := func(d time.Duration) ([]byte, error, bool) {
		ch := make(chan struct{})
		var b []byte
		var e error
		go func() { b, e = l.tr.Read(); close(ch) }()
		select {
		case <-ch:
			return b, e, true
		case <-time.After(d):
			return nil, nil, false
		}
	}
	for len(got) < len(want) {
		b, e, ok := readOne(lossWait)
		if !ok {
			if mon.LoadedSince(t0) {
				return mon.Result{Verdict: mon.Inconclusive, Detail: "read stalled under load"}
			}
			return bad("down-lost", "only %d of %d bytes of the first exchange arrived", len(got), len(want))
		}
		got = append(got, b...)
		keep.addOwned(b)
		if e != nil {
			return bad("read-error-on-live-link", "Transport.Read: %v", e)
		}
	}
	// the real ssh client prints "Connection to … closed." on the pty after the peer's data
	clientSpeaks := d.T == "system-ssh"
	tail := payload("prng", d.Size, d.Seed^0x1a57)
	werr := make(chan error, 1)
	go func() { // a tail larger than the kernel buffers blocks until the reader comes back
		_, e := l.peer.Write(tail)
		if e == nil {
			l.leave()
		}
		werr <- e
	}()
	want = append(want, tail...)
	time.Sleep(time.Duration(d.PauseMs) * time.Millisecond)
	// now read until the error
	var rerr error
	for rerr == nil {
		b, e, ok := readOne(lossWait)
		if !ok {
			if mon.LoadedSince(t0) {
				return mon.Result{Verdict: mon.Inconclusive, Detail: "read blocked under load"}
			}
			return bad("unblock:peer-gone", "after %d of %d bytes a Read blocked for %s although the peer had left", len(got), len(want), lossWait)
		}
		got = append(got, b...)
		keep.addOwned(b)
		rerr = e
		if !bytes.HasPrefix(want, got) && !(clientSpeaks && bytes.HasPrefix(got, want)) {
			return bad("last-words-corrupt", "%s", firstDiff(got, want))
		}
		if e == nil && len(b) == 0 {
			time.Sleep(200 * time.Microsecond)
		}
	}
	if e := <-werr; e != nil {
		return mon.Result{Verdict: mon.Inconclusive, Detail: "harness: peer could not write its tail: " + e.Error()}
	}
	if clientSpeaks && bytes.HasPrefix(got, want) {
		got = got[:len(want)] // what follows is the ssh client's own parting message, not peer data
	}
	if c := keep.changed(); c != "" {
		return bad("delivered-chunk-changed-after-return", "%s", c)
	}
	if !bytes.Equal(got, want) {
		return bad("last-words-lost", "Read returned %d of the %d bytes the peer had sent before it left, then %v", len(got), len(want), rerr)
	}
	return mon.Result{Verdict: mon.Held, NonTrivial: true,
		Obs:    map[string]int64{"last_words_cases": 1, "last_words_bytes_delivered_before_the_error": int64(len(tail))},
		Tags:   []string{"transport=" + d.T, "last-words:" + sizeClassLW(d.Size, d.ReadSize), fmt.Sprintf("readsize=%d", d.ReadSize)},
		Sample: map[string]interface{}{"transport": d.T, "tail_bytes": d.Size, "read_size": d.ReadSize, "reader_away_ms": d.PauseMs, "error_after_the_tail": fmt.Sprint(rerr)}}
}

func sizeClassLW(size, rs int) string {
	if size < rs {
		return "tail<readsize"
	}
	return "tail>readsize"
}

// runWriteClose: "write, close, slow peer". The client writes Size bytes (every Write returns nil)
// while the peer is not reading, then closes the transport; only then the peer starts reading, to
// the end of its stream. Every byte whose Write was accepted must be received by the peer, in
// order. Whether the stream then ends with EOF or a reset is recorded, not judged (the property
// speaks about the bytes). Meaningful where the path buffers the payload: telnet (TCP socket
// buffers) and the standard transport (2 MiB ssh channel window).
func runWriteClose(d Desc) mon.Result {
	t0 := time.Now()
	l, err := openLink(d.T, d.ReadSize)
	if err != nil {
		return openFailed(d, t0, err)
	}
	defer l.close()
	closed := false
	defer func() {
		if !closed {
			l.closeTransport(true, 5*time.Second)
		}
	}()
	bad := func(k, f string, a ...interface{}) mon.Result {
		return mon.Result{Verdict: mon.Violated, Key: "c16/" + d.T + "/" + k, NonTrivial: true,
			Detail: fmt.Sprintf("%s: %d bytes written (all Writes returned nil) while the peer was not reading, then Close(%v), then the peer reads: ", d.T, d.Size, d.How == "close") + fmt.Sprintf(f, a...)}
	}
	up := payload("prng", d.Size, d.Seed)
	r := rand.New(rand.NewSource(d.Seed*31 + 7))
	wdone := make(chan error, 1)
	go func() {
		o := 0
		for _, c := range chunks(r, len(up), d.ReadSize) {
			if e := l.tr.Write(up[o : o+c]); e != nil {
				wdone <- e
				return
			}
			o += c
		}
		wdone <- nil
	}()
	select {
	case e := <-wdone:
		if e != nil {
			if mon.LoadedSince(t0) {
				return mon.Result{Verdict: mon.Inconclusive, Detail: "write failed under load: " + e.Error()}
			}
			return bad("write-error", "Transport.Write failed: %v", e)
		}
	case <-time.After(20 * time.Second):
		return mon.Result{Verdict: mon.Inconclusive, Detail: fmt.Sprintf("harness: %d bytes do not fit the path's buffers while the peer is not reading (write still blocked after 20 s)", d.Size)}
	}
	closed = true
	if !l.closeTransport(d.How == "close", 5*time.Second) {
		if mon.LoadedSince(t0) {
			return mon.Result{Verdict: mon.Inconclusive, Detail: "Close did not return within 5 s under load"}
		}
		return bad("close-stuck", "Close did not return within 5 s")
	}
	time.Sleep(150 * time.Millisecond)
	ps := newSink()
	go peerReader(l, ps)
	select {
	case <-ps.done:
	case <-time.After(lossWait):
		if mon.LoadedSince(t0) {
			return mon.Result{Verdict: mon.Inconclusive, Detail: "peer stream did not end under load"}
		}
		return bad("close:peer-still-connected", "the peer's stream did not end within %s after Close (it has %d of %d bytes)", lossWait, ps.len(), len(up))
	}
	got := ps.snapshot()
	if !bytes.Equal(got, up) {
		k := "up-lost-at-close"
		if !bytes.HasPrefix(up, got) {
			k = "up-corrupt"
		}
		return bad(k, "the peer received %d of the %d bytes that were written before Close; %s; its stream ended with: %v", len(got), len(up), firstDiff(got, up), ps.err)
	}
	end := "eof"
	if ps.err != nil && !errors.Is(ps.err, io.EOF) {
		end = "error(" + errClassShort(ps.err) + ")"
	}
	return mon.Result{Verdict: mon.Held, NonTrivial: d.Size > d.ReadSize,
		Obs:    map[string]int64{"write_close_slow_peer_cases": 1, "bytes_written_before_close_and_received_after": int64(len(up))},
		Tags:   []string{"transport=" + d.T, fmt.Sprintf("write-close:size=%d", d.Size), "write-close:peer-stream-ends-with=" + end, "write-close:" + d.How},
		Sample: map[string]interface{}{"transport": d.T, "bytes": len(up), "close": d.How, "peer_stream_ended_with": fmt.Sprint(ps.err)}}
}

func errClassShort(e error) string {
	s := e.Error()
	if i := strings.LastIndex(s, ": "); i >= 0 {
		s = s[i+2:]
	}
	return strings.ReplaceAll(s, " ", "-")
}

var bigChunk = func() []byte {
	b := make([]byte, 1<<20)
	rand.New(rand.NewSource(16)).Read(b)
	return b
}()

// runStuckWrite: a Write is stuck in the implementation because the peer has stopped taking input
// (more outstanding than the pty / socket buffers / ssh channel window hold). How = "close": a Read
// is parked as well and Close(true) is called; How = "close-noforce": nobody reads, Close(false).
// Close must return and the parked Read must return within 5 s. The stuck Write itself is not
// judged (a pty master never wakes its writer; outside the property).
func runStuckWrite(d Desc) mon.Result {
	t0 := time.Now()
	l, err := openLink(d.T, d.ReadSize)
	if err != nil {
		return openFailed(d, t0, err)
	}
	defer l.close()
	closed := false
	defer func() {
		if !closed {
			l.closeTransport(true, 5*time.Second)
		}
	}()
	force := d.How == "close"
	cs := newSink()
	if force {
		go clientReader(l, cs)
	}
	var mu sync.Mutex
	written, lastProgress := 0, time.Now()
	wret := make(chan error, 1)
	go func() { // the peer never reads: sooner or later a Write does not come back
		for i := 0; i < 512; i++ {
			if e := l.tr.Write(bigChunk); e != nil {
				wret <- e
				return
			}
			mu.Lock()
			written += len(bigChunk)
			lastProgress = time.Now()
			mu.Unlock()
		}
		wret <- errors.New("512 MiB accepted")
	}()
	stuck := false
	deadline := time.Now().Add(60 * time.Second)
	for time.Now().Before(deadline) {
		select {
		case e := <-wret:
			return mon.Result{Verdict: mon.Inconclusive, Detail: "harness: the writer ended instead of getting stuck: " + e.Error()}
		default:
		}
		mu.Lock()
		idle := time.Since(lastProgress)
		mu.Unlock()
		if idle > 700*time.Millisecond {
			stuck = true
			break
		}
		time.Sleep(20 * time.Millisecond)
	}
	if !stuck {
		return mon.Result{Verdict: mon.Inconclusive, Detail: "harness: no write got stuck within 60 s"}
	}
	if force {
		select {
		case <-cs.done:
			return mon.Result{Verdict: mon.Violated, Key: "c16/" + d.T + "/read-error-on-live-link", NonTrivial: true,
				Detail: fmt.Sprintf("Transport.Read returned %v while the peer was merely not reading", cs.err)}
		default:
		}
	}
	mu.Lock()
	outstanding := written
	mu.Unlock()
	tc := time.Now()
	before := cs.returned()
	closed = true
	closeReturned := l.closeTransport(force, 5*time.Second)
	released := true
	if force {
		released = cs.waitReturn(before, 5*time.Second)
	}
	writeBack := false
	select {
	case <-wret:
		writeBack = true
	case <-time.After(50 * time.Millisecond):
	}
	if !closeReturned || !released {
		if mon.LoadedSince(tc) {
			if stuck, concl := l.stillStuck(cs, before, force); !stuck {
				return mon.Result{Verdict: mon.Inconclusive, Detail: fmt.Sprintf("close/unblock not observed within 5 s under load (came back later: %v)", concl)}
			}
		}
		return mon.Result{Verdict: mon.Violated, Key: "c16/" + d.T + "/unblock:close:write-stuck", NonTrivial: true,
			Detail: fmt.Sprintf("%s rs=%d: with a Write stuck in the implementation (peer not reading, %d bytes accepted before), 5 s after Close(%v) was called: Close returned=%v, parked Read returned=%v (stuck Write returned=%v, not judged)",
				d.T, d.ReadSize, outstanding, force, closeReturned, released, writeBack)}
	}
	obs := map[string]int64{"stuck_write_cases": 1, "closes_returned_with_a_write_stuck": 1, "bytes_accepted_before_the_write_got_stuck": int64(outstanding)}
	if force {
		obs["reads_released_by_close"] = 1
	}
	return mon.Result{Verdict: mon.Held, NonTrivial: true, Obs: obs,
		Tags:   []string{"transport=" + d.T, "stuck-write:" + d.How, fmt.Sprintf("stuck-write:writer-came-back=%v", writeBack)},
		Sample: map[string]interface{}{"transport": d.T, "close": d.How, "bytes_accepted_before_stuck": outstanding, "stuck_write_returned": writeBack}}
}
