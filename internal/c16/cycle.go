package c16

import (
	"errors"
	"fmt"
	"syscall"
	"time"

	"verif/internal/mon"
	"verif/internal/sshsim"
)

// childGone waits (bounded) until the child process has exited WITHOUT killing it: the library's
// Close is what must have ended it. A zombie counts as gone and is reaped.
func childGone(pid int, d time.Duration) bool {
	if pid <= 0 {
		return true
	}
	deadline := time.Now().Add(d)
	for {
		var ws syscall.WaitStatus
		p, err := syscall.Wait4(pid, &ws, syscall.WNOHANG, nil)
		if p == pid || err == syscall.ECHILD {
			return true
		}
		if time.Now().After(deadline) {
			return false
		}
		time.Sleep(2 * time.Millisecond)
	}
}

// runCycle: on ONE Transport object, d.Cycles rounds of Open -> small transfer both ways ->
// (force) a read blocked on the silent peer -> Close. Every round: the transfer is exact, the
// blocked read returns within 5 s after Close(true), the peer sees the connection end, and the
// child process of that round is gone before the next round starts. How = "close" (Close(true)
// against a blocked read) or "close-noforce" (nobody is reading; Close(false)).
func runCycle(d Desc) mon.Result {
	t0 := time.Now()
	key := func(k string, n int) string { return fmt.Sprintf("c16/%s/%s:cycle-%d", d.T, k, n) }
	l, err := newLink(d.T, d.ReadSize, nil)
	if err != nil {
		l.close()
		return mon.Result{Verdict: mon.Inconclusive, Detail: "harness: " + err.Error()}
	}
	defer l.close()
	closed := true
	defer func() {
		if !closed {
			l.closeTransport(true, 5*time.Second)
		}
	}()
	bad := func(k string, n int, f string, a ...interface{}) mon.Result {
		return mon.Result{Verdict: mon.Violated, Key: key(k, n), NonTrivial: true,
			Detail: fmt.Sprintf("%s rs=%d %s, cycle %d of %d on one Transport object: ", d.T, d.ReadSize, d.How, n, d.Cycles) + fmt.Sprintf(f, a...)}
	}
	obs := map[string]int64{"reopen_cases": 1}
	for n := 1; n <= d.Cycles; n++ {
		tn := time.Now()
		if err := l.open(); err != nil {
			l.closeTransport(true, 5*time.Second)
			if errors.Is(err, errSetup) || mon.LoadedSince(tn) {
				return mon.Result{Verdict: mon.Inconclusive, Detail: fmt.Sprintf("cycle %d: harness/load: %v", n, err)}
			}
			return bad("reopen-failed", n, "Transport.Open failed: %v", err)
		}
		closed = false
		pid := l.pid
		up := payload("prng", 300+n, d.Seed+int64(n))
		down := payload("prng", 300+2*n, d.Seed^int64(n*7919))
		wantDown := append(append([]byte(nil), l.pre...), down...)
		cs, ps := newSink(), newSink()
		cs.add(l.pre)
		go peerReader(l, ps)
		if err := l.tr.Write(up); err != nil {
			return bad("write-error", n, "Transport.Write: %v", err)
		}
		if _, err := l.peer.Write(down); err != nil {
			return mon.Result{Verdict: mon.Inconclusive, Detail: "harness: peer write: " + err.Error()}
		}
		force := d.How == "close"
		if force {
			go clientReader(l, cs)
		} else {
			// read synchronously exactly what was sent, so that no read is pending at Close(false)
			deadline := time.Now().Add(lossWait)
			for cs.len() < len(wantDown) && time.Now().Before(deadline) {
				got := make(chan struct{})
				var b []byte
				var e error
				go func() { b, e = l.tr.Read(); close(got) }()
				select {
				case <-got:
				case <-time.After(lossWait):
					l.closeTransport(true, 5*time.Second)
					closed = true
					if mon.LoadedSince(tn) {
						return mon.Result{Verdict: mon.Inconclusive, Detail: "read stalled under load"}
					}
					return bad("down-lost", n, "only %d of %d bytes arrived", cs.len(), len(wantDown))
				}
				if e != nil {
					return bad("read-error", n, "Transport.Read on a healthy link: %v", e)
				}
				cs.addOwned(b)
			}
		}
		for _, x := range []struct {
			dir  string
			s    *sink
			want []byte
		}{{"up", ps, up}, {"down", cs, wantDown}} {
			if class, c := await(x.s, x.want); class != "" {
				if class == "lost" && mon.LoadedSince(tn) {
					return mon.Result{Verdict: mon.Inconclusive, Detail: x.dir + ": " + c}
				}
				return bad(x.dir+"-"+class, n, "%s", c)
			}
		}
		if c := cs.changed(); c != "" {
			return bad("delivered-chunk-changed-after-return", n, "%s", c)
		}
		// Close
		time.Sleep(time.Duration(5+d.Seed%20) * time.Millisecond) // the reader parks in Read
		tc := time.Now()
		before := cs.returned()
		closed = true
		closeReturned := l.closeTransport(force, 5*time.Second)
		released := true
		if force {
			released = cs.waitReturn(before, 5*time.Second)
		}
		if !closeReturned || !released {
			if mon.LoadedSince(tc) {
				if stuck, concl := l.stillStuck(cs, before, force); !stuck {
					return mon.Result{Verdict: mon.Inconclusive, Detail: fmt.Sprintf("close/unblock not observed within 5 s under load (came back later: %v)", concl)}
				}
			}
			return bad("unblock:close", n, "Close(%v) returned=%v; the goroutine blocked in Transport.Read returned=%v within 5 s", force, closeReturned, released)
		}
		// the peer sees the connection end
		select {
		case <-ps.done:
		case <-time.After(5 * time.Second):
			if mon.LoadedSince(tc) {
				return mon.Result{Verdict: mon.Inconclusive, Detail: "peer did not see the end within 5 s under load"}
			}
			return bad("close:peer-still-connected", n, "5 s after Close(%v) returned the peer's connection is still open", force)
		}
		// no child survives
		if !childGone(pid, 5*time.Second) {
			alive := syscall.Kill(pid, 0) == nil
			sshsim.ReapPid(pid, true, 5*time.Second)
			l.pid = 0
			if mon.LoadedSince(tc) {
				return mon.Result{Verdict: mon.Inconclusive, Detail: "child still present after 5 s under load"}
			}
			return bad("close:child-survives", n, "the child process %d of this cycle is still running 5 s after Close (alive=%v)", pid, alive)
		}
		l.pid = 0
		if l.peerClose != nil {
			l.peerClose()
			l.peerClose = nil
		}
		obs["reopen_cycles"]++
		if force {
			obs["reads_released_by_close"]++
		}
		if pid > 0 {
			obs["children_gone_after_close"]++
		}
	}
	_ = t0
	return mon.Result{Verdict: mon.Held, NonTrivial: true, Obs: obs,
		Tags:   []string{"transport=" + d.T, "reopen=" + d.How, fmt.Sprintf("readsize=%d", d.ReadSize)},
		Sample: map[string]interface{}{"transport": d.T, "how": d.How, "cycles_on_one_transport_object": d.Cycles, "read_size": d.ReadSize}}
}
