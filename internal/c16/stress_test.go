package c16

import (
	"sync"
	"os"
	"verif/internal/mon"
	"fmt"
	"testing"

	"github.com/scrapli/scrapligo/driver/netconf"
	"github.com/scrapli/scrapligo/driver/options"

	"verif/internal/devsim"
	"verif/internal/ncsim"
	"verif/internal/ncwire"
)

// temporary experiment: a tty that echoes the client's writes ("\n" -> "\r\n") in front of a
// NETCONF 1.1 server. With late >= 0 the echo of the write that follows a complete request (the
// driver's second return) arrives `late` bytes into the reply, as happens when the client is
// descheduled between its writes.
type echoDev struct {
	*ncsim.Server
	late int
	held []byte
}

func (d *echoDev) Input(c *devsim.Conn, b []byte) {
	var echo []byte
	for _, ch := range b {
		if ch == '\n' {
			echo = append(echo, '\r', '\n')
		} else {
			echo = append(echo, ch)
		}
	}
	if d.held != nil {
		k := d.late
		if k > len(d.held) {
			k = len(d.held)
		}
		c.Emit(d.held[:k])
		c.Emit(echo)
		c.Emit(d.held[k:])
		d.held = nil
		d.Server.Input(c, b)
		return
	}
	c.Emit(echo)
	d.Server.Input(c, b)
}

func TestLateEcho(t *testing.T) {
	var ref *ncOutcome
	for _, late := range []int{-1, 0, 3, 30, 200} {
		s := genNCScript(399589561300, "1.1")
		model := s.server()
		dev := &echoDev{Server: model, late: late}
		model.OnMsg = func(sv *ncsim.Server, c *devsim.Conn, m *ncsim.Msg) {
			if m.Hello {
				return
			}
			i := m.Index - 1
			p := ncsim.Reply(m.ID, s.Replies[i])
			framed := ncwire.EncodeChunked(p, nil)
			if late < 0 {
				c.Emit(framed)
				return
			}
			dev.held = framed
		}
		conn := devsim.NewConn(dev, devsim.Config{Seg: devsim.Seg{Mode: "whole"}})
		nd, err := netconf.NewDriver("ideal", append(baseOpts(8192), options.WithCustomTransport(conn))...)
		if err != nil {
			t.Fatal(err)
		}
		var o ncOutcome
		driveNC(s, nd, &o)
		conn.Abandon()
		n := 0
		for _, r := range o.Results {
			if r == "" {
				n++
			}
		}
		fmt.Printf("late=%d err=%q results=%d empty=%d\n", late, o.Err, len(o.Results), n)
		if late < 0 {
			oc := o
			ref = &oc
		} else {
			fmt.Println(explainNC(Desc{T: "system-ssh"}, ref, &o))
		}
	}
}

// temporary: the same over the real ssh client, with the client process starved of CPU so that the
// driver's three writes per request are spread out in time
func TestStarvedRealSSH(t *testing.T) {
	os.Setenv("C16_DIR", t.TempDir())
	stop := make(chan struct{})
	for i := 0; i < 6; i++ {
		go func() {
			x := 0
			for {
				select {
				case <-stop:
					return
				default:
					x++
				}
			}
		}()
	}
	bad := 0
	for i := 0; i < 12; i++ {
		d := Desc{Kind: "e2e-netconf", T: "system-ssh", Version: "1.1", ReadSize: 8192, Seed: int64(399589561300 + i)}
		r := runE2ENC(d)
		if r.Verdict != mon.Held {
			bad++
			if bad <= 3 {
				fmt.Printf("%s %s %.1200s\n", r.Verdict, r.Key, r.Detail)
			}
		}
	}
	close(stop)
	fmt.Println("bad", bad, "of 12")
}

func TestParallelRealSSH(t *testing.T) {
	os.Setenv("C16_DIR", t.TempDir())
	var wg sync.WaitGroup
	var mu sync.Mutex
	bad, total := 0, 0
	for g := 0; g < 64; g++ {
		wg.Add(1)
		go func(g int) {
			defer wg.Done()
			for i := 0; i < 12; i++ {
				d := Desc{Kind: "e2e-netconf", T: "system-ssh", Version: "1.1", ReadSize: 8192, Seed: int64(399589561300 + g*100 + i)}
				r := runE2ENC(d)
				mu.Lock()
				total++
				if r.Verdict != mon.Held {
					bad++
					if bad <= 3 {
						fmt.Printf("%s %s %.1500s\n", r.Verdict, r.Key, r.Detail)
					}
				}
				mu.Unlock()
			}
		}(g)
	}
	wg.Wait()
	fmt.Println("bad", bad, "of", total)
}
