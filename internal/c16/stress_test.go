package c16

import (
	"fmt"
	"os"
	"sync"
	"testing"

	"verif/internal/mon"
)

// temporary: hunt for the intermittent NETCONF 1.1 difference over the real ssh client
func TestStressNC(t *testing.T) {
	os.Setenv("C16_DIR", t.TempDir())
	var wg sync.WaitGroup
	var mu sync.Mutex
	bad := 0
	total := 0
	for g := 0; g < 24; g++ {
		wg.Add(1)
		go func(g int) {
			defer wg.Done()
			for i := 0; i < 15; i++ {
				d := Desc{Kind: "e2e-netconf", T: "system-ssh", Version: "1.1", ReadSize: 8192, Seed: int64(399589561300 + g*1000 + i)}
				r := runE2ENC(d)
				mu.Lock()
				total++
				if r.Verdict != mon.Held {
					bad++
					if bad <= 5 {
						fmt.Println(r.Verdict, r.Key, r.Detail)
					}
				}
				mu.Unlock()
			}
		}(g)
	}
	wg.Wait()
	fmt.Println("total", total, "bad", bad)
}
