package c11

import (
	"fmt"
	"math/rand"
	"time"

	"github.com/scrapli/scrapligo/channel"
	"github.com/scrapli/scrapligo/driver/generic"
	"github.com/scrapli/scrapligo/driver/network"
	"github.com/scrapli/scrapligo/driver/options"
	"github.com/scrapli/scrapligo/platform"
	"github.com/scrapli/scrapligo/util"
	"gopkg.in/yaml.v3"

	"verif/internal/c10"
	"verif/internal/devsim"
	"verif/internal/mon"
)

// FaultCase is one member of the fault-enumeration family: a session whose escalation (run from an
// on-open / on-close hook, or directly) or in-channel login loses the connection at one point.
type FaultCase struct {
	// Config: net-on-open | net-on-close | plat-on-open | plat-on-close | gen-on-open | gen-on-close |
	// direct | login-telnet | login-ssh | login-ssh-key | login-ssh-retry
	Config string     `json:"config"`
	Host   string     `json:"host"`
	Fault  string     `json:"fault"` // none | eof | err | write
	At     int        `json:"at"`    // eof/err: the transport delivers exactly this many bytes; write: this write (1-based) and later ones fail
	Seg    devsim.Seg `json:"seg"`
	// Variant, FailedWhen (refusal family, Fault "none"): how the device treats the escalation
	// (rejects | invalid | refuses) and the driver's failed-when-contains list.
	Variant    string   `json:"variant,omitempty"`
	FailedWhen []string `json:"failed_when,omitempty"`
}

var faultConfigs = []string{"net-on-open", "net-on-close", "plat-on-open", "plat-on-close", "gen-on-open", "gen-on-close", "direct",
	"login-telnet", "login-ssh", "login-ssh-key", "login-ssh-retry"}

func faultCfg(fc *FaultCase, auth string) devsim.Config {
	cfg := devsim.Config{Seg: fc.Seg, KeepData: true, AuthType: auth}
	switch fc.Fault {
	case "eof":
		cfg.Fault, cfg.FaultAt = devsim.FaultEOF, fc.At
	case "err":
		cfg.Fault, cfg.FaultAt = devsim.FaultErr, fc.At
	case "write":
		cfg.WriteErrN = fc.At
	}
	return cfg
}

func loginDialogue(fc *FaultCase, c *Case) c10.Dialogue {
	d := c10.Dialogue{Driver: "generic", Host: fc.Host, User: "admin", Password: c.Password, NL: "\r\n", Prompt: fc.Host + "# ",
		Cmd: "show x!", FirstOp: "getprompt", ReadSize: 8192, PSD: 1000, ReturnChar: "\n", ReadDelay: 250, Seg: fc.Seg, StallAt: -1, TimeoutMS: 2000}
	pw := c10.Step{Kind: c10.KPassword, Text: "admin@" + fc.Host + "'s password: "}
	switch fc.Config {
	case "login-telnet":
		d.Auth, d.EchoUser = "telnet", true
		d.Steps = []c10.Step{{Kind: c10.KUser, Text: "Username: "}, {Kind: c10.KPassword, Text: "Password: "}, {Kind: c10.KShell}}
	case "login-ssh-key":
		d.Auth, d.Passphrase = "ssh", c.Passphrase
		d.Steps = []c10.Step{{Kind: c10.KPassphrase, Text: "Enter passphrase for key '/home/admin/.ssh/id_rsa': "}, pw, {Kind: c10.KShell}}
	case "login-ssh-retry":
		d.Auth = "ssh"
		d.Steps = []c10.Step{pw, {Kind: c10.KBanner, Lines: []c10.Line{{S: "Sorry, try again."}}}, pw, {Kind: c10.KShell}}
	default:
		d.Auth = "ssh"
		d.Steps = []c10.Step{pw, {Kind: c10.KShell}}
	}
	return d
}

func hookYAML(onOpen bool, failedWhen []string) []byte {
	lv := map[string]interface{}{}
	for k, l := range privLevels() {
		lv[k] = map[string]interface{}{"name": l.Name, "pattern": l.Pattern, "not-contains": []string{}, "previous-priv": l.PreviousPriv,
			"deescalate": l.Deescalate, "escalate": l.Escalate, "escalate-auth": l.EscalateAuth, "escalate-prompt": l.EscalatePrompt}
	}
	ops := []map[string]interface{}{{"operation": "acquire-priv", "target": "privilege-exec"}}
	def := map[string]interface{}{"driver-type": "network", "privilege-levels": lv, "default-desired-privilege-level": "exec",
		"options": []map[string]interface{}{{"option": "timeout-ops", "value": 2.5}}}
	if len(failedWhen) > 0 {
		def["failed-when-contains"] = failedWhen
	}
	if onOpen {
		def["network-on-open"] = ops
	} else {
		def["network-on-close"] = ops
	}
	b, err := yaml.Marshal(map[string]interface{}{"platform-type": "c11_hook_device", "default": def})
	if err != nil {
		panic(err)
	}
	return b
}

// faultRun is what one run of a FaultCase observed.
type faultRun struct {
	s        session
	returned []error // errors returned by Open / AcquirePriv / SendInteractive / Close
	stream   int     // bytes the device generated
	writes   int     // Write calls on the transport
}

// runFaultCase drives one session of the family. With Fault "none" it is the dry run that measures
// the exchange.
func runFaultCase(c *Case, m *Monitor) faultRun {
	fc := c.Fault
	fr := faultRun{s: session{kind: "fault-" + fc.Config + "-" + fc.Fault, nonSecret: "host '" + fc.Host + "'"}}
	logOpts := m.options(c.Level)
	note := func(err error) {
		if err != nil {
			fr.returned = append(fr.returned, err)
		}
		fr.s.outcome = errClass(err)
	}
	if len(fc.Config) > 5 && fc.Config[:5] == "login" {
		d := loginDialogue(fc, c)
		dev := d.NewDevice()
		auth := d.Auth
		conn := devsim.NewConn(dev, faultCfg(fc, auth))
		defer conn.Abandon()
		ac := &devsim.AuthConn{Conn: conn, SSH: d.SSHArgs()}
		s, err := c10.NewSession(&d, ac, logOpts)
		if err != nil {
			fr.s.outcome = "constructor:" + err.Error()
			return fr
		}
		err = s.Open()
		note(err)
		if err == nil {
			_, e2 := s.GD.GetPrompt()
			note(e2)
			s.Close()
		}
		conn.Do(func() {
			for _, rec := range dev.Log {
				if rec.Line != "" && (rec.Line == c10.LineOf(d.User) || rec.Line == c10.LineOf(d.Password) || rec.Line == c10.LineOf(d.Passphrase)) {
					fr.s.credWrites++
				}
			}
		})
		fr.stream, fr.writes = len(conn.Stream()), conn.Writes()
		return fr
	}
	variant, deviceSecret := "asks", c10.LineOf(c.Secondary)
	if fc.Variant != "" {
		variant = fc.Variant
		fr.s.kind = "refusal-" + fc.Config + "-" + fc.Variant
		if variant == "rejects" {
			deviceSecret = "device-side-" + c.Secondary[:4]
		}
	}
	dev := escDevice(fc.Host, "\r\n", variant, deviceSecret, "show x!")
	conn := devsim.NewConn(dev, faultCfg(fc, ""))
	defer conn.Abandon()
	base := []util.Option{options.WithCustomTransport(conn), options.WithAuthSecondary(c.Secondary), options.WithTimeoutOps(2500 * time.Millisecond)}
	base = append(base, logOpts...)
	if len(fc.FailedWhen) > 0 && fc.Config[:4] != "plat" {
		base = append(base, options.WithFailedWhenContains(fc.FailedWhen))
	}
	netHook := func(d *network.Driver) error { return d.AcquirePriv("privilege-exec") }
	genHook := func(d *generic.Driver) error {
		_, err := d.Channel.SendInteractive([]*channel.SendInteractiveEvent{
			{ChannelInput: "enable", ChannelResponse: "Password:", HideInput: false},
			{ChannelInput: c.Secondary, ChannelResponse: "", HideInput: true},
		})
		return err
	}
	var open, closeF func() error
	var direct func() error
	switch fc.Config {
	case "gen-on-open", "gen-on-close":
		if fc.Config == "gen-on-open" {
			base = append(base, options.WithOnOpen(genHook))
		} else {
			base = append(base, options.WithOnClose(genHook))
		}
		gd, err := generic.NewDriver(fc.Host, base...)
		if err != nil {
			fr.s.outcome = "constructor:" + err.Error()
			return fr
		}
		open, closeF = gd.Open, gd.Close
	case "plat-on-open", "plat-on-close":
		pl, err := platform.NewPlatform(hookYAML(fc.Config == "plat-on-open", fc.FailedWhen), fc.Host, base...)
		if err != nil {
			fr.s.outcome = "constructor:" + err.Error()
			return fr
		}
		nd, err := pl.GetNetworkDriver()
		if err != nil {
			fr.s.outcome = "constructor:" + err.Error()
			return fr
		}
		open, closeF = nd.Open, nd.Close
	default:
		base = append(base, options.WithPrivilegeLevels(privLevels()), options.WithDefaultDesiredPriv("exec"))
		switch fc.Config {
		case "net-on-open":
			base = append(base, options.WithNetworkOnOpen(netHook))
		case "net-on-close":
			base = append(base, options.WithNetworkOnClose(netHook))
		}
		nd, err := network.NewDriver(fc.Host, base...)
		if err != nil {
			fr.s.outcome = "constructor:" + err.Error()
			return fr
		}
		open, closeF = nd.Open, nd.Close
		if fc.Config == "direct" {
			direct = func() error { return nd.AcquirePriv("privilege-exec") }
		}
	}
	err := open()
	note(err)
	if err == nil {
		if direct != nil {
			note(direct())
		}
		closeBounded(func() {
			if e := closeF(); e != nil {
				fr.returned = append(fr.returned, e)
			}
		})
	}
	fr.s.credWrites = hiddenCount(dev, conn, c.Secondary)
	fr.stream, fr.writes = len(conn.Stream()), conn.Writes()
	return fr
}

// genFaultCases enumerates the family: per configuration a fault-free dry run measures the exchange
// (bytes generated, writes made); then one case per byte offset (every `step`-th in quick) for EOF
// and for a persistent read error, and one per write for a write error. Thorough runs every
// escalation case at all three log levels; otherwise the level rotates.
func genFaultCases(r *rand.Rand, tier string) []mon.Case {
	step, levels := 3, 1
	if tier == "thorough" {
		step, levels = 1, 3
	}
	lv := []string{"critical", "debug", "info"}
	var out []mon.Case
	n := 0
	for ci, cfgName := range faultConfigs {
		host := hosts[ci%len(hosts)]
		mk := func(fault string, at int, level string) Case {
			c := Case{Kind: "fault", Level: level, Family: secretFamilies[n%len(secretFamilies)]}
			c.Password, c.Passphrase, c.Secondary = decorate(r, genSecret(r, c.Family), ""), decorate(r, genSecret(r, c.Family), ""), decorate(r, genSecret(r, c.Family), "\n")
			c.Fault = &FaultCase{Config: cfgName, Host: host, Fault: fault, At: at, Seg: genSeg(r)}
			return c
		}
		dry := mk("none", 0, "debug")
		fr := runFaultCase(&dry, &Monitor{})
		nl := levels
		if len(cfgName) > 5 && cfgName[:5] == "login" {
			nl = 1
		}
		add := func(fault string, at int) {
			for l := 0; l < nl; l++ {
				c := mk(fault, at, lv[(n+l)%3])
				out = append(out, mon.MkCase(fmt.Sprintf("c11/fault/%s/%s/%03d/%s", cfgName, fault, at, c.Level), c))
			}
			n++
		}
		for k := ci % step; k <= fr.stream; k += step {
			add("eof", k)
			add("err", k)
		}
		for w := 1; w <= fr.writes; w++ {
			add("write", w)
		}
	}
	return out
}

// genRefusalCases: escalations run from on-open / on-close hooks (network driver built from options
// and from a platform definition, plus a direct AcquirePriv) against a device that refuses them with
// output containing one of the driver's failed-when-contains strings: the secret is rejected
// ("% Access denied"), the escalate command itself is answered with an error ("% Invalid input
// detected"), or escalation is not possible ("% No password set"). Stock-like and user-extended
// failure lists, every log level.
func genRefusalCases(r *rand.Rand) []mon.Case {
	lists := [][]string{
		{"% Ambiguous command", "% Incomplete command", "% Invalid input detected", "% Unknown command"},
		{"% Invalid input detected", "% Access denied", "% No password set", "% Bad secrets"},
	}
	var out []mon.Case
	n := 0
	for _, cfgName := range []string{"net-on-open", "net-on-close", "plat-on-open", "plat-on-close", "direct"} {
		for _, variant := range []string{"rejects", "invalid", "refuses"} {
			for li, list := range lists {
				for _, level := range []string{"critical", "info", "debug"} {
					c := Case{Kind: "fault", Level: level, Family: secretFamilies[n%len(secretFamilies)]}
					c.Secondary = decorate(r, genSecret(r, c.Family), "\n")
					c.Fault = &FaultCase{Config: cfgName, Host: hosts[n%len(hosts)], Fault: "none", Seg: genSeg(r), Variant: variant, FailedWhen: list}
					out = append(out, mon.MkCase(fmt.Sprintf("c11/refusal/%s/%s/list%d/%s", cfgName, variant, li, level), c))
					n++
				}
			}
		}
	}
	return out
}
