package c11

import (
	"encoding/json"
	"os"
	"path/filepath"
	"strings"
	"syscall"
	"time"
	"unsafe"
)

// fakeSSH is the stand-in for /usr/bin/ssh that the system transport spawns on a pty (vcheck
// sub-command "fakessh": the host name given to the driver is "fakessh", so the library's own
// argument vector "<host> -p <port> -o … -l <user> …" selects this mode). It puts its tty in raw
// mode (no echo), asks for the password, and then plays a minimal shell. Its argv and every
// password line it received are written to $C11_FAKESSH_DIR/fake-<user>.json.
func fakeSSH(args []string) int {
	var t syscall.Termios
	if _, _, e := syscall.Syscall(syscall.SYS_IOCTL, 0, syscall.TCGETS, uintptr(unsafe.Pointer(&t))); e == 0 {
		t.Iflag &^= syscall.IGNBRK | syscall.BRKINT | syscall.PARMRK | syscall.ISTRIP | syscall.INLCR | syscall.IGNCR | syscall.ICRNL | syscall.IXON
		t.Oflag &^= syscall.OPOST
		t.Lflag &^= syscall.ECHO | syscall.ECHONL | syscall.ICANON | syscall.ISIG | syscall.IEXTEN
		t.Cflag &^= syscall.CSIZE | syscall.PARENB
		t.Cflag |= syscall.CS8
		t.Cc[syscall.VMIN] = 1
		t.Cc[syscall.VTIME] = 0
		syscall.Syscall(syscall.SYS_IOCTL, 0, syscall.TCSETS, uintptr(unsafe.Pointer(&t)))
	}
	user, mode := "nouser", "accept"
	for i, a := range args {
		if a == "-l" && i+1 < len(args) {
			user = args[i+1]
		}
		if strings.HasPrefix(a, "C11Mode=") {
			mode = strings.TrimPrefix(a, "C11Mode=")
		}
	}
	rec := fakeRecord{Argv: append([]string(nil), os.Args...)}
	save := func() {
		dir := os.Getenv(fakeDirEnv)
		if dir == "" {
			return
		}
		b, _ := json.Marshal(rec)
		tmp := filepath.Join(dir, "fake-"+user+".tmp")
		if os.WriteFile(tmp, b, 0o600) == nil {
			os.Rename(tmp, filepath.Join(dir, "fake-"+user+".json"))
		}
	}
	save()
	out := func(s string) { os.Stdout.WriteString(s) }
	readLine := func() (string, bool) {
		var line []byte
		b := make([]byte, 1)
		for {
			n, err := os.Stdin.Read(b)
			if err != nil || n == 0 {
				return string(line), false
			}
			if b[0] == '\n' || b[0] == '\r' {
				return string(line), true
			}
			line = append(line, b[0])
		}
	}
	out("Warning: Permanently added 'fakessh' (ED25519) to the list of known hosts.\r\n")
	prompts := 1
	switch mode {
	case "retry":
		prompts = 2
	case "thrice":
		prompts = 3
	}
	for i := 0; i < prompts; i++ {
		out(user + "@fakessh's password: ")
		l, ok := readLine()
		if !ok {
			return 1
		}
		rec.Passwords = append(rec.Passwords, l)
		save()
		out("\r\n")
	}
	switch mode {
	case "denied":
		out(user + "@fakessh: Permission denied (publickey,password).\r\n")
		time.Sleep(2 * time.Second)
		return 255
	case "silent":
		time.Sleep(10 * time.Second)
		return 0
	}
	out("Last login: Fri Oct  2 10:11:12 2026 from 10.0.0.5\r\nfakehost# ")
	// minimal shell with echo
	b := make([]byte, 1)
	var line []byte
	for {
		n, err := os.Stdin.Read(b)
		if err != nil || n == 0 {
			return 0
		}
		if b[0] == '\n' || b[0] == '\r' {
			out("\r\n")
			if len(line) > 0 {
				out("ok " + string(line) + "\r\n")
			}
			line = line[:0]
			out("fakehost# ")
			continue
		}
		line = append(line, b[0])
		os.Stdout.Write(b)
	}
}
