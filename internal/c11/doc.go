// Package c11 holds the runtime monitor for property C11 (see DESIGN.md §3 C11).
package c11
