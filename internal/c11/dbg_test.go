package c11

import (
	"encoding/json"
	"fmt"
	"os"
	"testing"
)

func TestDbg(t *testing.T) {
	b, _ := os.ReadFile(os.Getenv("REPLAY"))
	var rp struct {
		Case struct {
			Desc json.RawMessage `json:"desc"`
		} `json:"case"`
	}
	json.Unmarshal(b, &rp)
	var c Case
	json.Unmarshal(rp.Case.Desc, &c)
	m := &Monitor{}
	var s session
	switch c.Kind {
	case "platform":
		s = runPlatform(&c, m)
	case "escalate":
		s = runEscalate(&c, m)
	case "login":
		s = runLogin(&c, m)
	}
	msgs, chlog := m.snapshot()
	for _, x := range msgs {
		if len(x) > 30 && x[21:30] == "channel r" {
			continue
		}
		fmt.Printf("%q\n", x)
	}
	fmt.Printf("chlog %q\n%+v\n", chlog, s)
}
