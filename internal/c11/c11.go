// Package c11: credentials never reach the logs.
//
// A collecting logger (at debug, info or critical level) and a collecting channel log are attached
// to sessions that authenticate or escalate; after each session every captured message and the
// channel log are searched for the secrets in raw, quoted and fmt-mangled form (and for any literal
// fragment of a secret that survives arbitrary formatting).
package c11

import (
	"encoding/json"
	"errors"
	"fmt"
	"math/rand"
	"os"
	"path/filepath"
	"regexp"
	"strconv"
	"strings"
	"sync"
	"time"

	"github.com/scrapli/scrapligo/channel"
	"github.com/scrapli/scrapligo/driver/generic"
	"github.com/scrapli/scrapligo/driver/network"
	"github.com/scrapli/scrapligo/driver/options"
	"github.com/scrapli/scrapligo/logging"
	"github.com/scrapli/scrapligo/platform"
	"github.com/scrapli/scrapligo/util"
	"gopkg.in/yaml.v3"

	"verif/internal/c10"
	"verif/internal/devsim"
	"verif/internal/mon"
)

// ---------------------------------------------------------------------------------------------
// monitor

// Monitor collects everything the library hands to the user's logger and channel log.
type Monitor struct {
	mu    sync.Mutex
	msgs  []string
	chlog []byte
}

// Log is the logger function (logging.WithLogger).
func (m *Monitor) Log(a ...interface{}) {
	s := fmt.Sprint(a...)
	m.mu.Lock()
	m.msgs = append(m.msgs, s)
	m.mu.Unlock()
}

// Write is the channel log (options.WithChannelLog).
func (m *Monitor) Write(p []byte) (int, error) {
	m.mu.Lock()
	m.chlog = append(m.chlog, p...)
	m.mu.Unlock()
	return len(p), nil
}

func (m *Monitor) snapshot() ([]string, string) {
	m.mu.Lock()
	defer m.mu.Unlock()
	return append([]string(nil), m.msgs...), string(m.chlog)
}

// settle waits until no message arrived for 3 ms (at most 50 ms): goroutines the library leaves
// behind may still be logging.
func (m *Monitor) settle() {
	last := -1
	stable := time.Now()
	deadline := time.Now().Add(50 * time.Millisecond)
	for time.Now().Before(deadline) {
		m.mu.Lock()
		n := len(m.msgs)
		m.mu.Unlock()
		if n != last {
			last, stable = n, time.Now()
		} else if time.Since(stable) > 3*time.Millisecond {
			return
		}
		time.Sleep(500 * time.Microsecond)
	}
}

func (m *Monitor) options(level string) []util.Option {
	li, err := logging.NewInstance(logging.WithLevel(level), logging.WithLogger(m.Log))
	if err != nil {
		panic(err)
	}
	return []util.Option{options.WithLogger(li), options.WithChannelLog(m)}
}

// Secret is one secret with the forms it is searched in.
type Secret struct {
	Name  string
	Val   string
	forms []string
}

func alnumCount(s string) int {
	n := 0
	for _, c := range s {
		if c >= 'a' && c <= 'z' || c >= 'A' && c <= 'Z' || c >= '0' && c <= '9' {
			n++
		}
	}
	return n
}

func newSecret(name, val string) Secret {
	s := Secret{Name: name, Val: val}
	if val == "" {
		return s
	}
	add := func(f string) {
		if f == "" {
			return
		}
		for _, x := range s.forms {
			if x == f {
				return
			}
		}
		s.forms = append(s.forms, f)
	}
	// the secret as configured, without its trailing return characters, and without any outer white
	// space (what a "normalising" client would write and log)
	variants := []string{val}
	for _, t := range []string{strings.TrimRight(val, "\r\n"), strings.TrimSpace(val)} {
		if t != "" && t != variants[len(variants)-1] && t != val {
			variants = append(variants, t)
		}
	}
	for _, v := range variants {
		add(v)
		q := strconv.Quote(v)
		add(q[1 : len(q)-1])
		format := v
		if m := fmt.Sprintf(format); len(m) >= 6 && alnumCount(m) >= 4 { // the secret used as a format string
			add(m)
		}
	}
	// literal fragments that survive any formatting or quoting: split at %, quotes, backslashes, tabs and
	// return characters; the byte after a % is the verb
	var cur []byte
	flush := func() {
		f := string(cur)
		if len(f) >= 6 && alnumCount(f) >= 4 {
			add(f)
		}
		cur = cur[:0]
	}
	for i := 0; i < len(val); i++ {
		switch val[i] {
		case '%':
			flush()
			i++ // skip the verb
		case '"', '\\', '\r', '\n', '\t':
			flush()
		default:
			cur = append(cur, val[i])
		}
	}
	flush()
	return s
}

// Leak describes where a secret was found.
type Leak struct {
	Secret, Where, Form, Text string
}

func scan(secrets []Secret, msgs []string, chlog string) *Leak {
	for _, s := range secrets {
		for _, f := range s.forms {
			if i := strings.Index(chlog, f); i >= 0 {
				lo, hi := i-40, i+len(f)+40
				if lo < 0 {
					lo = 0
				}
				if hi > len(chlog) {
					hi = len(chlog)
				}
				return &Leak{Secret: s.Name, Where: "channel-log", Form: f, Text: chlog[lo:hi]}
			}
		}
	}
	for _, s := range secrets {
		for _, f := range s.forms {
			for _, m := range msgs {
				if strings.Contains(m, f) {
					return &Leak{Secret: s.Name, Where: "log", Form: f, Text: m}
				}
			}
		}
	}
	return nil
}

func countContaining(msgs []string, sub string) int {
	n := 0
	for _, m := range msgs {
		if strings.Contains(m, sub) {
			n++
		}
	}
	return n
}

// ---------------------------------------------------------------------------------------------
// secrets

const alnum = "abcdefghijklmnopqrstuvwxyzABCDEFGHIJKLMNOPQRSTUVWXYZ0123456789"

func rs(r *rand.Rand, alpha string, n int) string {
	b := make([]byte, n)
	for i := range b {
		b[i] = alpha[r.Intn(len(alpha))]
	}
	return string(b)
}

var secretFamilies = []string{"plain", "fmt", "regex", "space", "quote", "mixed"}

// genSecret draws a secret of 12-24 printable bytes of the given family. Every secret contains a run
// of 8 random alphanumerics (so that a fragment search cannot hit by chance and always has
// something to find), does not start or end with a space and has no return characters.
func genSecret(r *rand.Rand, fam string) string {
	total := 12 + r.Intn(13)
	core := rs(r, alnum, 8)
	var pieces []string
	n := total - 8
	var special []string
	switch fam {
	case "plain":
		special = []string{"a", "B", "7", "x", "Q", "0"}
	case "fmt":
		special = []string{"%s", "%d", "%v", "%%", "%x", "%q", "%+v", "%!", "%", "%T"}
	case "regex":
		special = []string{".", "*", "+", "?", "(", ")", "[", "]", "{", "}", "|", "^", "$", "\\", ".*", "(?i)", "[a-z]+", "\\d"}
	case "space":
		special = []string{" ", "  ", " a", "b ", "\t"}
	case "quote":
		special = []string{"\"", "'", "`", "\\", "\\n", "\\\"", "<", ">", "&"}
	default:
		special = nil
	}
	for n > 0 {
		var p string
		if special == nil {
			p = string(rune(0x20 + r.Intn(0x7f-0x20)))
		} else if r.Intn(3) == 0 {
			p = rs(r, alnum, 1)
		} else {
			p = special[r.Intn(len(special))]
		}
		if len(p) > n {
			p = rs(r, alnum, n)
		}
		pieces = append(pieces, p)
		n -= len(p)
	}
	pos := 0
	if len(pieces) > 0 {
		pos = r.Intn(len(pieces) + 1)
	}
	s := strings.Join(pieces[:pos], "") + core + strings.Join(pieces[pos:], "")
	s = strings.ReplaceAll(s, "\t", "_")
	b := []byte(s)
	if b[0] == ' ' {
		b[0] = 'x'
	}
	if b[len(b)-1] == ' ' {
		b[len(b)-1] = 'y'
	}
	return string(b)
}

// decorate adds what real-world secrets carry when they are read from files or pasted: a leading or
// trailing blank or tab, and - only where rc is non-empty, i.e. where an extra empty line after the
// secret cannot change what the dialogue means - a trailing return character (the session's own
// return character rc half of the time, another one otherwise). An embedded return character is
// never generated: a line-oriented device takes the part before it as the secret and the rest is
// typed at whatever prompt follows, where devices echo - that is the device's doing, not the
// library's.
func decorate(r *rand.Rand, s, rc string) string {
	if s == "" {
		return s
	}
	if r.Intn(6) == 0 {
		s = []string{" ", "\t", "  "}[r.Intn(3)] + s
	}
	if r.Intn(6) == 0 {
		s += []string{" ", "\t", " \t"}[r.Intn(3)]
	}
	if rc != "" && r.Intn(3) == 0 {
		if r.Intn(2) == 0 {
			s += rc
		} else {
			s += []string{"\n", "\r", "\r\n"}[r.Intn(3)]
		}
	}
	return s
}

// ---------------------------------------------------------------------------------------------
// case descriptor

// EscCase is an escalation / hidden-input session over the network driver.
type EscCase struct {
	Host    string     `json:"host"`
	Variant string     `json:"variant"` // asks | rejects | reasks | grants | refuses | no-secondary | interactive
	Op      string     `json:"op"`      // acquire | acquire-config | sendcommand | sendconfig
	NL      string     `json:"nl"`
	Cmd     string     `json:"cmd"`
	Seg     devsim.Seg `json:"seg"`
	RC      string     `json:"return_char,omitempty"`
	// TwoLine: the device's prompts and the level patterns span two lines.
	TwoLine bool `json:"two_line,omitempty"`
	// Cumulus: the session is built from the shipped cumulus_linux definition (escalate "sudo su",
	// escalate prompt ": "); Variant is asks | noask-noise | noask.
	Cumulus bool `json:"cumulus,omitempty"`
}

// PlatCase is a platform definition whose on-open sequence writes redacted input.
type PlatCase struct {
	Host       string     `json:"host"`
	DriverType string     `json:"driver_type"` // generic | network
	Follow     bool       `json:"follow"`      // network: on-open continues with acquire-priv and a command
	Accept     bool       `json:"accept"`      // the device accepts the secret
	Seg        devsim.Seg `json:"seg"`
	// Quiet: the definition is loaded as the variant "quiet", whose empty on-open lists switch the
	// default's on-open sequence off (a device of that variant does not ask for the secret).
	Quiet bool `json:"quiet_variant,omitempty"`
	// Grants: the device answers "enable" by granting without asking.
	Grants bool `json:"grants,omitempty"`
	// PlainOnOpen (network type): the definition keeps its steps under the plain on-open list only
	// (no network-on-open); they must run once.
	PlainOnOpen bool `json:"plain_on_open,omitempty"`
}

// SysCase is a session over the real system transport with the stand-in binary.
type SysCase struct {
	Mode string `json:"mode"` // accept | retry | denied | silent | thrice
}

// Case is the case descriptor.
type Case struct {
	Kind       string        `json:"kind"` // login | escalate | platform | system | fault
	Level      string        `json:"level"`
	Family     string        `json:"secret_family"`
	Password   string        `json:"password"`
	Passphrase string        `json:"passphrase"`
	Secondary  string        `json:"secondary"`
	Login      *c10.Dialogue `json:"login,omitempty"`
	Esc        *EscCase      `json:"escalate,omitempty"`
	Plat       *PlatCase     `json:"platform,omitempty"`
	Sys        *SysCase      `json:"system,omitempty"`
	Fault      *FaultCase    `json:"fault,omitempty"`
	Lo         *c10.LoDesc   `json:"telnet_loopback,omitempty"`
}

func genSeg(r *rand.Rand) devsim.Seg {
	mode := []string{"fixed", "whole", "geom", "mix", "mix"}[r.Intn(5)]
	s := devsim.Seg{Mode: mode, Size: []int{1, 3, 7, 16, 100}[r.Intn(5)], Seed: r.Int63()}
	s.Delay = []string{"", "gosched"}[r.Intn(2)]
	return s
}

var hosts = []string{"r1", "core-sw01", "edge.lab", "pe1"}

func genCase(r *rand.Rand, i int) Case {
	c := Case{}
	c.Family = secretFamilies[r.Intn(len(secretFamilies))]
	c.Level = []string{"debug", "debug", "debug", "debug", "debug", "debug", "debug", "info", "info", "critical"}[r.Intn(10)]
	for {
		c.Password, c.Passphrase, c.Secondary = genSecret(r, c.Family), genSecret(r, c.Family), genSecret(r, c.Family)
		if c.Password != c.Passphrase && c.Password != c.Secondary && c.Passphrase != c.Secondary {
			break
		}
	}
	switch k := r.Intn(20); {
	case k < 9:
		c.Kind = "login"
		d, _ := c10.GenDialogue(r, c10.GenOpts{})
		// unconfigured credentials stay unconfigured
		if d.Password != "" {
			d.Password = c.Password
		} else {
			c.Password = ""
		}
		if d.Auth == "ssh" && d.Passphrase != "" {
			d.Passphrase = c.Passphrase
		} else {
			c.Passphrase = ""
		}
		c.Secondary = ""
		rcFor := func(kind string) string {
			if c10.TrailingReturnSafe(&d, kind) {
				return d.ReturnChar
			}
			return ""
		}
		if d.Password != "" {
			c.Password = decorate(r, c.Password, rcFor(c10.KPassword))
			d.Password = c.Password
		}
		if d.Passphrase != "" {
			c.Passphrase = decorate(r, c.Passphrase, rcFor(c10.KPassphrase))
			d.Passphrase = c.Passphrase
		}
		c.Login = &d
	case k < 14:
		c.Kind = "escalate"
		c.Password, c.Passphrase = "", ""
		e := &EscCase{Host: hosts[r.Intn(len(hosts))], NL: []string{"\r\n", "\n"}[r.Intn(2)], Seg: genSeg(r)}
		e.Variant = []string{"asks", "asks", "rejects", "rejects", "reasks", "grants", "grants-noise", "refuses", "no-secondary", "interactive", "interactive-skip"}[r.Intn(11)]
		e.Op = []string{"acquire", "acquire-config", "sendcommand", "sendconfig"}[r.Intn(4)]
		e.Cmd = "show " + rs(r, "abcdefghijklmnopqrstuvwxyz", 3+r.Intn(8)) + "!"
		e.RC = []string{"\n", "\n", "\r", "\r\n"}[r.Intn(4)]
		e.TwoLine = r.Intn(3) == 0
		c.Secondary = decorate(r, c.Secondary, e.RC)
		c.Esc = e
	case k < 17:
		c.Kind = "platform"
		c.Password, c.Passphrase = "", ""
		c.Plat = &PlatCase{Host: hosts[r.Intn(len(hosts))], DriverType: []string{"generic", "network"}[r.Intn(2)], Follow: r.Intn(2) == 0,
			Accept: r.Intn(4) != 0, Seg: genSeg(r)}
		if r.Intn(3) == 0 {
			c.Plat.Quiet, c.Plat.Grants = true, r.Intn(3) != 0
		} else if c.Plat.DriverType == "network" && r.Intn(2) == 0 {
			c.Plat.PlainOnOpen = true
		}
		c.Secondary = decorate(r, c.Secondary, "\n")
	default:
		c.Kind = "system"
		c.Passphrase, c.Secondary = "", ""
		c.Sys = &SysCase{Mode: []string{"accept", "accept", "retry", "denied", "silent", "thrice"}[r.Intn(6)]}
		if c.Sys.Mode == "retry" || c.Sys.Mode == "thrice" {
			c.Password = decorate(r, c.Password, "") // a second prompt follows: an extra empty line would answer it
		} else {
			c.Password = decorate(r, c.Password, "\n")
		}
	}
	return c
}

// ---------------------------------------------------------------------------------------------
// runner

type session struct {
	kind        string
	credWrites  int    // secrets (and redacted user names) that provably left the library
	nonSecret   string // a non-secret text the logs must show at debug level
	outcome     string
	argv        []string
	c10Verdict  mon.Verdict
	c10Key      string
	extraDetail string
}

func closeBounded(f func()) {
	done := make(chan struct{})
	go func() { defer func() { recover(); close(done) }(); f() }()
	select {
	case <-done:
	case <-time.After(5 * time.Second):
	}
}

func errClass(err error) string {
	switch {
	case err == nil:
		return "ok"
	case errors.Is(err, util.ErrAuthError):
		return "auth"
	case errors.Is(err, util.ErrTimeoutError):
		return "timeout"
	case errors.Is(err, util.ErrConnectionError):
		return "connection"
	case errors.Is(err, util.ErrPrivilegeError):
		return "privilege"
	}
	return "other"
}

func runLogin(c *Case, m *Monitor) session {
	d := *c.Login
	res, info := c10.RunDialogue(d, &c10.Hooks{ExtraOpts: m.options(c.Level), Drain: true})
	s := session{kind: "login-" + d.Auth + "-" + d.Driver, outcome: info.Class, c10Verdict: res.Verdict, c10Key: res.Key}
	for _, rec := range info.DeviceLog {
		if rec.Line != "" && (rec.Line == c10.LineOf(d.User) || rec.Line == c10.LineOf(d.Password) || rec.Line == c10.LineOf(d.Passphrase)) {
			s.credWrites++
		}
	}
	s.nonSecret = "host '" + d.Host + "'"
	if res.Verdict == mon.Violated {
		s.extraDetail = res.Detail
	}
	return s
}

const (
	execPattern   = `(?im)^[\w.\-@/:]{1,63}>$`
	privPattern   = `(?im)^[\w.\-@/:]{1,63}#$`
	configPattern = `(?im)^[\w.\-@/:]{1,63}\([\w.\-@/:+]{0,32}\)#$`
	escPrompt     = `(?im)^(?:enable\s){0,1}password:\s?$`
)

func privLevels() map[string]*network.PrivilegeLevel {
	return map[string]*network.PrivilegeLevel{
		"exec":           {Name: "exec", Pattern: execPattern, NotContains: []string{}},
		"privilege-exec": {Name: "privilege-exec", Pattern: privPattern, PreviousPriv: "exec", Escalate: "enable", EscalateAuth: true, EscalatePrompt: escPrompt, Deescalate: "disable"},
		"configuration":  {Name: "configuration", Pattern: configPattern, PreviousPriv: "privilege-exec", Escalate: "configure terminal", Deescalate: "end"},
	}
}

// escDevice is the CLI device of the escalation and platform workloads. It never echoes hidden input.
// Two-line prompts (SR Linux / SR OS style): a context line, then the prompt proper. The level
// patterns span both lines.
const (
	execPattern2   = `(?im)^--\{ exec \}--\[ [\w.\-]{1,63} \]--\n[\w.\-@/:]{1,63}>$`
	privPattern2   = `(?im)^--\{ admin \}--\[ [\w.\-]{1,63} \]--\n[\w.\-@/:]{1,63}#$`
	configPattern2 = `(?im)^--\{ candidate \}--\[ [\w.\-]{1,63} \]--\n[\w.\-@/:]{1,63}\(config\)#$`
)

func privLevels2() map[string]*network.PrivilegeLevel {
	l := privLevels()
	l["exec"].Pattern, l["privilege-exec"].Pattern, l["configuration"].Pattern = execPattern2, privPattern2, configPattern2
	return l
}

// twoLinePrompts switches a device built by escDevice to two-line prompts.
func twoLinePrompts(dev *devsim.CLI, host string) {
	dev.Prompts = map[string]string{
		"exec":   "--{ exec }--[ " + host + " ]--" + dev.NL + host + ">",
		"priv":   "--{ admin }--[ " + host + " ]--" + dev.NL + host + "#",
		"config": "--{ candidate }--[ " + host + " ]--" + dev.NL + host + "(config)#",
	}
}

func escDevice(host, nl, variant, deviceSecret, cmd string) *devsim.CLI {
	dev := &devsim.CLI{Prompts: map[string]string{"exec": host + ">", "priv": host + "#", "config": host + "(config)#"}, Mode: "exec", NL: nl}
	var ask func(left int) *devsim.Ask
	ask = func(left int) *devsim.Ask {
		return &devsim.Ask{Prompt: "Password: ", Then: func(ans string) devsim.Reply {
			if ans == deviceSecret {
				return devsim.Reply{NewMode: "priv"}
			}
			if variant == "reasks" && left > 1 {
				return devsim.Reply{Ask: ask(left - 1)}
			}
			if variant == "reasks" {
				return devsim.Reply{Out: []devsim.Token{devsim.T("% Bad secrets" + nl)}}
			}
			return devsim.Reply{Out: []devsim.Token{devsim.T("% Access denied" + nl)}}
		}}
	}
	dev.Handler = func(d *devsim.CLI, mode, line string) devsim.Reply {
		switch {
		case line == "":
			return devsim.Reply{}
		case mode == "exec" && line == "enable":
			switch variant {
			case "grants-noise":
				// grants without asking, but prints - in the same read as the new prompt - a line the
				// escalate prompt pattern accepts
				return devsim.Reply{NewMode: "priv", NoPrompt: true, Out: []devsim.Token{devsim.E("Password: " + nl + d.Prompts["priv"])}}
			case "grants":
				return devsim.Reply{NewMode: "priv"}
			case "refuses":
				return devsim.Reply{Out: []devsim.Token{devsim.T("% No password set" + nl)}}
			case "invalid":
				return devsim.Reply{Out: []devsim.Token{devsim.T("       ^" + nl + "% Invalid input detected at '^' marker." + nl)}}
			}
			return devsim.Reply{Ask: ask(3)}
		case mode == "priv" && line == "enable":
			return devsim.Reply{}
		case mode == "priv" && line == "disable":
			return devsim.Reply{NewMode: "exec"}
		case mode == "priv" && line == "configure terminal":
			return devsim.Reply{NewMode: "config"}
		case mode == "config" && line == "end":
			return devsim.Reply{NewMode: "priv"}
		case line == "copy running-config scp:" && variant == "interactive-skip":
			// the device does not ask the question this time (key based copy)
			return devsim.Reply{Out: []devsim.Token{devsim.T("1234 bytes copied" + nl)}}
		case line == "copy running-config scp:":
			return devsim.Reply{Ask: &devsim.Ask{Prompt: "Password: ", Then: func(ans string) devsim.Reply {
				return devsim.Reply{Out: []devsim.Token{devsim.T("1234 bytes copied" + nl)}}
			}}}
		case line == cmd || line == "terminal length 0":
			return devsim.Reply{Out: []devsim.Token{devsim.T("ok" + nl)}}
		}
		return devsim.Reply{Out: []devsim.Token{devsim.T("% Invalid input detected" + nl)}}
	}
	return dev
}

func hiddenCount(dev *devsim.CLI, conn *devsim.Conn, secret string) int {
	n := 0
	conn.Do(func() {
		for _, l := range dev.Lines {
			if l.Line == c10.LineOf(secret) && secret != "" {
				n++
			}
		}
	})
	return n
}

// runCumulus escalates through the shipped cumulus_linux platform definition. The device either asks
// for the sudo password, or does not ask and (variant noask-noise) prints, in the same read as the
// root prompt, a line that the definition's escalate prompt pattern ": " accepts.
func runCumulus(c *Case, m *Monitor) session {
	e := c.Esc
	s := session{kind: "cumulus-" + e.Variant, nonSecret: "sudo su"}
	nl := "\r\n"
	user, root := "cumulus@"+e.Host+":mgmt:~$ ", "root@"+e.Host+":mgmt:/home/cumulus# "
	secret := c10.LineOf(c.Secondary)
	dev := &devsim.CLI{Prompts: map[string]string{"exec": user, "root": root}, Mode: "exec", NL: nl}
	dev.Handler = func(d *devsim.CLI, mode, line string) devsim.Reply {
		switch {
		case mode == "exec" && line == "sudo su":
			switch e.Variant {
			case "noask":
				return devsim.Reply{NewMode: "root"}
			case "noask-noise":
				return devsim.Reply{NewMode: "root", NoPrompt: true,
					Out: []devsim.Token{devsim.E("sudo: unable to resolve host " + e.Host + ": Name or service not known" + nl + root)}}
			}
			return devsim.Reply{Ask: &devsim.Ask{Prompt: "[sudo] password for cumulus: ", Then: func(ans string) devsim.Reply {
				if ans == secret {
					return devsim.Reply{NewMode: "root"}
				}
				return devsim.Reply{Out: []devsim.Token{devsim.T("Sorry, try again." + nl)}}
			}}}
		case mode == "root" && line == "exit":
			return devsim.Reply{NewMode: "exec"}
		}
		return devsim.Reply{}
	}
	conn := devsim.NewConn(dev, devsim.Config{Seg: e.Seg, KeepData: true})
	defer conn.Abandon()
	opts := append([]util.Option{options.WithCustomTransport(conn), options.WithAuthSecondary(c.Secondary), options.WithTimeoutOps(3 * time.Second)}, m.options(c.Level)...)
	pl, err := platform.NewPlatform("cumulus_linux", e.Host, opts...)
	if err != nil {
		s.outcome = "constructor:platform:" + err.Error()
		return s
	}
	nd, err := pl.GetNetworkDriver()
	if err != nil {
		s.outcome = "constructor:" + err.Error()
		return s
	}
	if err = nd.Open(); err != nil {
		s.outcome = "open:" + errClass(err)
		return s
	}
	defer closeBounded(func() { nd.Close() })
	err = nd.AcquirePriv("configuration")
	s.outcome = errClass(err)
	s.credWrites = hiddenCount(dev, conn, c.Secondary)
	return s
}

func runEscalate(c *Case, m *Monitor) session {
	e := c.Esc
	if e.Cumulus {
		return runCumulus(c, m)
	}
	s := session{kind: "escalate-" + e.Variant + "-" + e.Op, nonSecret: "enable"}
	deviceSecret := c10.LineOf(c.Secondary)
	if e.Variant == "rejects" || e.Variant == "reasks" {
		deviceSecret = "device-side-" + c.Secondary[:4] // the library's secret is wrong
	}
	dev := escDevice(e.Host, e.NL, e.Variant, deviceSecret, e.Cmd)
	levels := privLevels()
	if e.TwoLine {
		twoLinePrompts(dev, e.Host)
		levels = privLevels2()
		s.kind = "escalate2-" + e.Variant + "-" + e.Op
	}
	conn := devsim.NewConn(dev, devsim.Config{Seg: e.Seg, KeepData: true})
	defer conn.Abandon()
	to := 3 * time.Second
	if e.Variant == "reasks" || e.Variant == "no-secondary" || e.Variant == "interactive-skip" {
		to = 400 * time.Millisecond
	}
	opts := []util.Option{options.WithCustomTransport(conn), options.WithPrivilegeLevels(levels), options.WithDefaultDesiredPriv("privilege-exec"),
		options.WithTimeoutOps(to)}
	if e.Variant != "no-secondary" {
		opts = append(opts, options.WithAuthSecondary(c.Secondary))
	}
	if e.RC != "" {
		opts = append(opts, options.WithReturnChar(e.RC))
	}
	opts = append(opts, m.options(c.Level)...)
	nd, err := network.NewDriver(e.Host, opts...)
	if err != nil {
		s.outcome = "constructor:" + err.Error()
		return s
	}
	if err = nd.Open(); err != nil {
		s.outcome = "open:" + errClass(err)
		return s
	}
	defer closeBounded(func() { nd.Close() })
	if e.Variant == "interactive" || e.Variant == "interactive-skip" {
		s.nonSecret = "copy running-config scp:"
		_, err = nd.SendInteractive([]*channel.SendInteractiveEvent{
			{ChannelInput: "copy running-config scp:", ChannelResponse: "Password:", HideInput: false},
			{ChannelInput: c.Secondary, ChannelResponse: "", HideInput: true},
		})
	} else {
		switch e.Op {
		case "acquire":
			err = nd.AcquirePriv("privilege-exec")
		case "acquire-config":
			err = nd.AcquirePriv("configuration")
		case "sendconfig":
			_, err = nd.SendConfig("hostname x")
		default:
			_, err = nd.SendCommand(e.Cmd)
		}
	}
	s.outcome = errClass(err)
	s.credWrites = hiddenCount(dev, conn, c.Secondary)
	return s
}

func platformYAML(c *Case) []byte {
	p := c.Plat
	onOpen := []map[string]interface{}{
		{"operation": "channel.write", "input": "enable"},
		{"operation": "channel.return"},
		// double-quoted so that leading blanks and trailing return characters survive the YAML round trip
		{"operation": "channel.write", "input": &yaml.Node{Kind: yaml.ScalarNode, Tag: "!!str", Value: c.Secondary, Style: yaml.DoubleQuotedStyle}, "redacted": true},
		{"operation": "channel.return"},
	}
	def := map[string]interface{}{
		"driver-type":          p.DriverType,
		"failed-when-contains": []string{"% Invalid input"},
		"options":              []map[string]interface{}{{"option": "timeout-ops", "value": 2.5}},
	}
	if p.DriverType == "network" {
		lv := map[string]interface{}{}
		for k, l := range privLevels() {
			lv[k] = map[string]interface{}{"name": l.Name, "pattern": l.Pattern, "not-contains": []string{}, "previous-priv": l.PreviousPriv,
				"deescalate": l.Deescalate, "escalate": l.Escalate, "escalate-auth": l.EscalateAuth, "escalate-prompt": l.EscalatePrompt}
		}
		def["privilege-levels"] = lv
		def["default-desired-privilege-level"] = "privilege-exec"
		if p.Follow {
			onOpen = append(onOpen, map[string]interface{}{"operation": "acquire-priv", "target": "privilege-exec"},
				map[string]interface{}{"operation": "driver.send-command", "command": "terminal length 0"})
		}
		if p.PlainOnOpen {
			def["on-open"] = onOpen[:4]
		} else {
			def["network-on-open"] = onOpen
		}
	} else {
		def["on-open"] = onOpen
	}
	doc := map[string]interface{}{"platform-type": "c11_device", "default": def}
	if p.Quiet {
		doc["variants"] = map[string]interface{}{"quiet": map[string]interface{}{
			"on-open": []interface{}{}, "network-on-open": []interface{}{}, "on-close": []interface{}{}, "network-on-close": []interface{}{}}}
	}
	b, err := yaml.Marshal(doc)
	if err != nil {
		panic(err)
	}
	return b
}

func runPlatform(c *Case, m *Monitor) session {
	p := c.Plat
	s := session{kind: "platform-" + p.DriverType, nonSecret: "enable"}
	deviceSecret := c10.LineOf(c.Secondary)
	if !p.Accept {
		deviceSecret = "device-side-" + c.Secondary[:4]
	}
	devVariant := "asks"
	if p.Grants {
		devVariant = "grants"
	}
	dev := escDevice(p.Host, "\r\n", devVariant, deviceSecret, "show clock!")
	conn := devsim.NewConn(dev, devsim.Config{Seg: p.Seg, KeepData: true})
	defer conn.Abandon()
	if p.PlainOnOpen {
		s.kind = "platform-plain-on-open-" + p.DriverType
	}
	if p.Quiet {
		s.kind = "platform-quiet-variant-" + p.DriverType
		s.nonSecret = "host '" + p.Host + "'"
	}
	// the secret exists only in the definition's on-open sequence (no WithAuthSecondary): the unpaced
	// on-open writes leave stale output behind, and a driver that escalates on a stale prompt would type
	// a configured secondary secret at a command prompt, where any device echoes
	opts := append([]util.Option{options.WithCustomTransport(conn)}, m.options(c.Level)...)
	var pl *platform.Platform
	var err error
	if p.Quiet {
		pl, err = platform.NewPlatformVariant(platformYAML(c), "quiet", p.Host, opts...)
	} else {
		pl, err = platform.NewPlatform(platformYAML(c), p.Host, opts...)
	}
	if err != nil {
		s.outcome = "constructor:platform:" + err.Error()
		return s
	}
	if p.DriverType == "network" {
		nd, err := pl.GetNetworkDriver()
		if err != nil {
			s.outcome = "driver:" + err.Error()
			return s
		}
		err = nd.Open()
		s.outcome = "open:" + errClass(err)
		if err == nil {
			defer closeBounded(func() { nd.Close() })
			_, err = nd.SendCommand("show clock!")
			s.outcome = errClass(err)
		}
	} else {
		gd, err := pl.GetGenericDriver()
		if err != nil {
			s.outcome = "driver:" + err.Error()
			return s
		}
		err = gd.Open()
		s.outcome = "open:" + errClass(err)
		if err == nil {
			defer closeBounded(func() { gd.Close() })
			_, err = gd.SendCommand("show clock!")
			s.outcome = errClass(err)
		}
	}
	s.credWrites = hiddenCount(dev, conn, c.Secondary)
	return s
}

// ---- system transport with the stand-in binary --------------------------------------------------

const fakeDirEnv = "C11_FAKESSH_DIR"

var tokenRe = regexp.MustCompile(`[^a-zA-Z0-9]`)

type fakeRecord struct {
	Argv      []string `json:"argv"`
	Passwords []string `json:"passwords"`
}

func runSystem(c *Case, id string, m *Monitor) session {
	s := session{kind: "system-" + c.Sys.Mode}
	dir := os.Getenv(fakeDirEnv)
	if dir == "" {
		s.outcome = "no-dir"
		return s
	}
	user := "u" + strings.ToLower(tokenRe.ReplaceAllString(id, "")) + fmt.Sprintf("x%d", time.Now().UnixNano()%100000)
	s.nonSecret = user
	exe, err := os.Executable()
	if err != nil {
		s.outcome = "no-exe"
		return s
	}
	to := 8 * time.Second
	if c.Sys.Mode == "silent" {
		to = 1500 * time.Millisecond
	}
	opts := []util.Option{options.WithAuthUsername(user), options.WithAuthPassword(c.Password), options.WithAuthNoStrictKey(),
		options.WithSystemTransportOpenBin(exe), options.WithSystemTransportOpenArgs([]string{"-o", "C11Mode=" + c.Sys.Mode}),
		options.WithTimeoutOps(to), options.WithPort(2022)}
	opts = append(opts, m.options(c.Level)...)
	// the host name is the stand-in's sub-command: vcheck fakessh -p 2022 ...
	gd, err := generic.NewDriver("fakessh", opts...)
	if err != nil {
		s.outcome = "constructor:" + err.Error()
		return s
	}
	err = gd.Open()
	s.outcome = "open:" + errClass(err)
	if err == nil {
		_, err = gd.SendCommand("show fake!")
		s.outcome = errClass(err)
		closeBounded(func() { gd.Close() })
	}
	// what the child saw
	var rec fakeRecord
	for try := 0; try < 50; try++ {
		b, e := os.ReadFile(filepath.Join(dir, "fake-"+user+".json"))
		if e == nil && json.Unmarshal(b, &rec) == nil {
			break
		}
		time.Sleep(2 * time.Millisecond)
	}
	s.argv = rec.Argv
	for _, p := range rec.Passwords {
		if p == c10.LineOf(c.Password) {
			s.credWrites++
		}
	}
	os.Remove(filepath.Join(dir, "fake-"+user+".json"))
	return s
}

// Run executes one case.
func Run(mc mon.Case) mon.Result {
	var c Case
	mc.Decode(&c)
	m := &Monitor{}
	var s session
	var returned []error
	switch c.Kind {
	case "login":
		s = runLogin(&c, m)
	case "escalate":
		s = runEscalate(&c, m)
	case "platform":
		s = runPlatform(&c, m)
	case "system":
		s = runSystem(&c, mc.ID, m)
	case "fault":
		fr := runFaultCase(&c, m)
		s, returned = fr.s, fr.returned
	case "telnet":
		res, info := c10.RunTelnetLo(*c.Lo, &c10.Hooks{ExtraOpts: m.options(c.Level), Drain: true})
		s = session{kind: "telnet-transport-" + c.Lo.Discipline, outcome: info.Class, c10Verdict: res.Verdict, c10Key: res.Key, nonSecret: "host '127.0.0.1'"}
		for _, rec := range info.DeviceLog {
			if rec.Line != "" && (rec.Line == c.Lo.User || rec.Line == c.Lo.Password) {
				s.credWrites++
			}
		}
		if res.Verdict == mon.Inconclusive {
			return res
		}
	}
	m.settle()
	msgs, chlog := m.snapshot()
	secrets := []Secret{newSecret("password", c.Password), newSecret("passphrase", c.Passphrase), newSecret("secondary", c.Secondary)}
	tailMsgs := func() []string {
		t := msgs
		if len(t) > 40 {
			t = t[len(t)-40:]
		}
		return t
	}
	if l := scan(secrets, msgs, chlog); l != nil {
		return mon.Result{Verdict: mon.Violated, Key: "c11/secret-in-" + l.Where + ":" + l.Secret + ":" + strings.SplitN(s.kind, "-", 2)[0],
			Detail: fmt.Sprintf("the %s %q (searched form %q) appears in the %s at level %s, session %s:\n  %q", l.Secret,
				map[string]string{"password": c.Password, "passphrase": c.Passphrase, "secondary": c.Secondary}[l.Secret], l.Form, l.Where, c.Level, s.kind, l.Text),
			Events: tailMsgs(), NonTrivial: true}
	}
	for _, a := range s.argv {
		if l := scan(secrets, []string{a}, ""); l != nil {
			return mon.Result{Verdict: mon.Violated, Key: "c11/secret-in-argv:" + l.Secret, Detail: fmt.Sprintf("the %s appears on the command line of the transport's child process: %q", l.Secret, s.argv), NonTrivial: true}
		}
	}
	redacted := countContaining(msgs, "redacted")
	if c.Level == "debug" && !strings.HasPrefix(s.outcome, "constructor") {
		if redacted < s.credWrites {
			return mon.Result{Verdict: mon.Violated, Key: "c11/monitor-blind", Detail: fmt.Sprintf("session %s: %d credential writes reached the device but the logger saw only %d messages containing 'redacted' (of %d messages)",
				s.kind, s.credWrites, redacted, len(msgs)), Events: tailMsgs()}
		}
		// the session's non-secret command/user/host; a session that (under load) failed before it typed
		// its command still shows the driver's "opening connection to host" message
		if s.nonSecret != "" && countContaining(msgs, s.nonSecret) == 0 && countContaining(msgs, "opening connection to host") == 0 {
			return mon.Result{Verdict: mon.Violated, Key: "c11/monitor-blind", Detail: fmt.Sprintf("session %s: no message contains the non-secret text %q (%d messages)", s.kind, s.nonSecret, len(msgs)), Events: tailMsgs()}
		}
	}
	if c.Kind == "system" && c.Level == "debug" && s.outcome != "no-dir" && len(s.argv) == 0 {
		return mon.Result{Verdict: mon.Inconclusive, Detail: "the stand-in process left no record (" + s.outcome + ")"}
	}
	obs := map[string]int64{"sessions": 1, "messages": int64(len(msgs)), "redacted_messages": int64(redacted), "credential_writes": int64(s.credWrites),
		"channel_log_bytes": int64(len(chlog)), "sessions_" + c.Kind: 1}
	if s.c10Verdict == mon.Violated {
		obs["c10_oracle_complaints"] = 1
	}
	if len(s.argv) > 0 {
		obs["child_argv_inspected"] = 1
	}
	if c.Plat != nil && c.Plat.PlainOnOpen {
		obs["network_platforms_with_plain_on_open_only"] = 1
		if s.credWrites > 1 {
			obs["plain_on_open_secret_lines_beyond_one"] += int64(s.credWrites - 1)
		}
	}
	if c.Plat != nil && c.Plat.Quiet {
		obs["platform_variants_switching_on_open_off"] = 1
	}
	if c.Esc != nil && c.Esc.Variant == "interactive-skip" {
		obs["hidden_input_after_skipped_question"] = 1
	}
	if c.Esc != nil && (c.Esc.Variant == "grants-noise" || c.Esc.Variant == "noask-noise") {
		obs["escalations_granted_with_prompt_like_noise_in_one_read"] = 1
	}
	if c.Esc != nil && c.Esc.Cumulus {
		obs["escalations_through_shipped_cumulus_linux"] = 1
	}
	if c.Esc != nil && c.Esc.TwoLine {
		obs["escalations_with_two_line_prompts"] = 1
	}
	for _, v := range []string{c.Password, c.Passphrase, c.Secondary} {
		if v == "" {
			continue
		}
		if strings.HasSuffix(v, "\n") || strings.HasSuffix(v, "\r") {
			obs["secrets_ending_in_return_char"]++
		}
		if t := strings.TrimRight(v, "\r\n"); t != strings.TrimSpace(t) {
			obs["secrets_with_outer_blanks"]++
		}
	}
	if c.Fault != nil && c.Fault.Variant != "" {
		obs["hook_escalations_refused_with_failure_text"] = 1
	}
	// error values handed back to the caller are not log messages: a secret in one is recorded as an
	// observation (it becomes a violation above as soon as the library itself logs that error)
	var retTags []string
	for _, e := range returned {
		if l := scan(secrets, []string{e.Error()}, ""); l != nil {
			obs["secret_in_returned_error"]++
			retTags = append(retTags, "c11/secret-in-returned-error:"+l.Secret+":"+s.kind)
		}
	}
	if len(returned) > 0 {
		obs["returned_errors_inspected"] = int64(len(returned))
	}
	tags := []string{"kind=" + s.kind, "level=" + c.Level, "secrets=" + c.Family, "outcome=" + c.Kind + ":" + s.outcome}
	if s.c10Verdict == mon.Violated {
		tags = append(tags, "c10-complaint="+s.c10Key)
	}
	tags = append(tags, retTags...)
	sample := map[string]interface{}{"session": s.kind, "level": c.Level, "outcome": s.outcome, "messages": len(msgs), "redacted_messages": redacted,
		"credential_writes": s.credWrites, "channel_log_bytes": len(chlog)}
	if len(msgs) > 0 {
		sample["a_message"] = msgs[len(msgs)/2]
	}
	return mon.Result{Verdict: mon.Held, NonTrivial: s.credWrites > 0 && (c.Level != "debug" || redacted > 0), Obs: obs, Tags: tags, Sample: sample}
}

var workDir string

func init() {
	mon.Modes["fakessh"] = fakeSSH
	mon.Register(&mon.Property{
		ID:    "C11",
		Level: "exploration",
		Rule: "PRNG-generated sessions with a collecting logger (debug 70%, info 20%, critical 10%) and channel log: C10 login dialogues (telnet/ssh type; success, retries, " +
			"failures, timeouts, stalls), network-driver escalations and hidden interactive inputs (device asks / rejects / re-asks / grants / refuses / no secondary), platform " +
			"definitions (YAML) whose on-open writes redacted input, and the real system transport spawning a stand-in for ssh (argv inspected). Fault enumeration: for escalations " +
			"run from on-open / on-close hooks (network driver, platform-built network driver, generic driver with a hidden interactive event), a direct AcquirePriv, and four in-channel " +
			"logins, the exchange is measured by a fault-free dry run and a fresh session loses the connection (EOF, persistent read error) after byte k for every k (quick: every 3rd) " +
			"and at every write (write error); thorough runs the hook cases at all three log levels. Non-trivial = at least one secret " +
			"provably reached the device (device log) and, at debug level, the logger saw its 'redacted' write message. Distinct = descriptor hash.",
		Assumptions: []string{
			"devices never echo secrets (hidden input); the stand-in ssh puts its tty in raw mode before prompting",
			"secrets may carry a leading/trailing blank or tab and - where an extra empty line after the secret cannot answer a following credential prompt (escalations, on-open writes, logins whose prompt of that kind is not directly followed by another credential prompt) - a trailing return character (\\n, \\r, \\r\\n, crossed with the session's return char); the device then sees the secret's first line and an empty line; embedded return characters are not generated (the remainder would be typed at the next prompt, which echoes); the search also covers the secret without trailing returns and without outer white space",
			"secrets: 12-24 printable bytes (before decoration), each containing 8 random alphanumerics; families: plain, format verbs, regexp metacharacters, spaces, quotes/backslashes, any printable",
			"a leak is the secret raw, %q-quoted, used as a format string, or any fragment (>= 6 bytes, >= 4 alphanumerics) between %, quote and backslash characters",
			"blindness check at debug level only: >= 1 'redacted' message per credential line the device received, >= 1 message with the non-secret host/command/user",
			"messages logged by goroutines the library leaves behind later than 50 ms after the session are not seen",
			"the response objects (Response.Input of SendInteractive) are not logs and are not inspected",
			"error values returned to the caller are not log messages: a secret inside one is counted (observed.secret_in_returned_error, tag c11/secret-in-returned-error:...) but is a violation only once the library logs it (on-open / on-close hook errors are logged at critical level)",
		},
		Gen: func(tier string, seed int64) []mon.Case {
			n := 300
			if tier == "thorough" {
				n = 10000
			}
			r := rand.New(rand.NewSource(seed*15485863 + 11))
			cs := make([]mon.Case, 0, n)
			for i := 0; i < n; i++ {
				cs = append(cs, mon.MkCase(fmt.Sprintf("c11/%05d", i), genCase(r, i)))
			}
			// the notice+prompt and long-banner login dialogues of C10's sweep, with hostile secrets (the
			// shell after login echoes what is typed at its prompt, as shells do)
			k := 0
			for _, d := range c10.Sweep(r) {
				if !c10.HasNotice(&d) && c10.LongestBanner(&d) <= d.PSD && !c10.HasCredentialWordLines(&d) || d.Password == "" {
					continue
				}
				c := genCase(r, 0)
				c.Kind, c.Esc, c.Plat, c.Sys = "login", nil, nil, nil
				c.Password = genSecret(r, c.Family) // undecorated; decorated below for this dialogue
				c.Passphrase, c.Secondary = "", ""
				if c10.TrailingReturnSafe(&d, c10.KPassword) {
					c.Password = decorate(r, c.Password, d.ReturnChar)
				} else {
					c.Password = decorate(r, c.Password, "")
				}
				dd := d
				dd.Password = c.Password
				c.Login = &dd
				cs = append(cs, mon.MkCase(fmt.Sprintf("c11/sweep/%03d", k), c))
				k++
			}
			// escalations with two-line prompts, every device variant
			k = 0
			for _, variant := range []string{"grants", "grants-noise", "asks", "rejects", "refuses", "interactive", "interactive-skip"} {
				for _, op := range []string{"acquire", "acquire-config", "sendcommand", "sendconfig"} {
					c := Case{Kind: "escalate", Level: []string{"debug", "info", "critical", "debug"}[k%4], Family: secretFamilies[k%len(secretFamilies)]}
					c.Secondary = decorate(r, genSecret(r, c.Family), "\n")
					c.Esc = &EscCase{Host: hosts[k%len(hosts)], Variant: variant, Op: op, NL: []string{"\r\n", "\n"}[k%2], Cmd: "show twoline!", Seg: genSeg(r), RC: "\n", TwoLine: true}
					cs = append(cs, mon.MkCase(fmt.Sprintf("c11/twoline/%02d", k), c))
					k++
				}
			}
			// logins through the real telnet transport (loopback TCP device, three line disciplines)
			nlo := 28
			if tier == "thorough" {
				nlo = 210
			}
			for i := 0; i < nlo; i++ {
				lo := c10.GenLo(r, i)
				if i%2 == 1 && lo.QuietMS == 0 {
					lo.QuietMS, lo.Negotiate = 600+r.Intn(1400), false // half of them on a line that is silent at first
				}
				c := Case{Kind: "telnet", Level: []string{"debug", "debug", "info", "critical"}[i%4], Family: secretFamilies[i%len(secretFamilies)]}
				c.Password = decorate(r, genSecret(r, c.Family), "")
				lo.Password = c.Password
				c.Lo = &lo
				cs = append(cs, mon.MkCase(fmt.Sprintf("c11/telnet-transport/%03d", i), c))
			}
			// a user dialogue whose hidden answer follows a question the device does not ask (single-line
			// prompts), and platform variants that switch the inherited on-open off with empty lists
			for i := 0; i < 6; i++ {
				c := Case{Kind: "escalate", Level: []string{"debug", "info", "critical"}[i%3], Family: secretFamilies[i%len(secretFamilies)]}
				c.Secondary = decorate(r, genSecret(r, c.Family), "\n")
				c.Esc = &EscCase{Host: hosts[i%len(hosts)], Variant: "interactive-skip", Op: "acquire", NL: "\r\n", Cmd: "show skip!", Seg: genSeg(r), RC: "\n"}
				cs = append(cs, mon.MkCase(fmt.Sprintf("c11/skip/%02d", i), c))
			}
			for i := 0; i < 12; i++ {
				c := Case{Kind: "platform", Level: []string{"debug", "info", "critical"}[i%3], Family: secretFamilies[i%len(secretFamilies)]}
				c.Secondary = decorate(r, genSecret(r, c.Family), "\n")
				c.Plat = &PlatCase{Host: hosts[i%len(hosts)], DriverType: []string{"generic", "network"}[i%2], Follow: i%4 >= 2, Accept: true, Seg: genSeg(r),
					Quiet: true, Grants: i%6 != 5}
				cs = append(cs, mon.MkCase(fmt.Sprintf("c11/variant/%02d", i), c))
			}
			for i := 0; i < 9; i++ {
				c := Case{Kind: "escalate", Level: []string{"debug", "info", "critical"}[i%3], Family: secretFamilies[i%len(secretFamilies)]}
				c.Secondary = decorate(r, genSecret(r, c.Family), "\n")
				c.Esc = &EscCase{Host: []string{"leaf01", "spine-2", "cl3"}[i%3], Variant: []string{"noask-noise", "noask-noise", "asks", "noask"}[i%4], Seg: genSeg(r), Cumulus: true}
				cs = append(cs, mon.MkCase(fmt.Sprintf("c11/cumulus/%02d", i), c))
			}
			for i := 0; i < 9; i++ {
				c := Case{Kind: "platform", Level: []string{"debug", "info", "critical"}[i%3], Family: secretFamilies[i%len(secretFamilies)]}
				c.Secondary = decorate(r, genSecret(r, c.Family), "\n")
				c.Plat = &PlatCase{Host: hosts[i%len(hosts)], DriverType: "network", Accept: i%4 != 3, Seg: genSeg(r), PlainOnOpen: true}
				cs = append(cs, mon.MkCase(fmt.Sprintf("c11/plain-on-open/%02d", i), c))
			}
			cs = append(cs, genFaultCases(r, tier)...)
			cs = append(cs, genRefusalCases(r)...)
			return cs
		},
		Run: Run,
		Setup: func() error {
			d, err := os.MkdirTemp(filepath.Join(mon.VerifDir(), ".work"), "c11-fake-")
			if err != nil {
				os.MkdirAll(filepath.Join(mon.VerifDir(), ".work"), 0o755)
				d, err = os.MkdirTemp(filepath.Join(mon.VerifDir(), ".work"), "c11-fake-")
				if err != nil {
					return err
				}
			}
			workDir = d
			return os.Setenv(fakeDirEnv, d)
		},
		Teardown: func() {
			if workDir != "" {
				os.RemoveAll(workDir)
			}
		},
		Workers:     func(string) int { return 8 },
		Parallel:    func(string) int { return 6 },
		CaseTimeout: 120 * time.Second,
		Procs:       func(tier string, shard int) int { return []int{2, 4}[shard%2] },
	})
}
