package devsim

import (
	"bytes"
	"fmt"
)

// Token is one piece of device output.
type Token struct {
	Kind string `json:"k"` // "text" | "esc" | "cr"
	S    string `json:"s"`
}

// T, E, CR build tokens.
func T(s string) Token { return Token{"text", s} }
func E(s string) Token { return Token{"esc", s} }
func CR() Token        { return Token{"cr", "\r"} }

// Reply is the device's reaction to one input line.
type Reply struct {
	Out      []Token // output (without the newline after the echo and without the prompt)
	NewMode  string  // "" = unchanged
	Ask      *Ask    // the device now asks for hidden input instead of showing a prompt
	NoPrompt bool    // emit no prompt after the output (device goes silent / custom dialogue)
	Raw      []byte  // emitted verbatim after Out, before the prompt (dialogue text such as "Confirm? [y/n]: ")
	// Pending, if set, is emitted only when the harness calls CLI.Flush (models a slow device).
	NoNewline bool // do not emit the newline that normally follows the echoed line
}

// Ask is a hidden-input question (password prompt): Prompt is emitted, the next line is not echoed
// and is handed to Then.
type Ask struct {
	Prompt string
	Then   func(answer string) Reply
	// Echo: the answer is echoed (a user-name prompt); default is hidden input.
	Echo bool
}

// LineRec is one received line with the state the device was in.
type LineRec struct {
	Mode   string `json:"mode"`
	State  string `json:"state"` // "cmd" | "hidden"
	Line   string `json:"line"`
	Seq    int64  `json:"seq"`    // sequence number of the write that completed the line
	DelivA int    `json:"deliv"`  // bytes delivered to the client when the line completed
	EchoAt int    `json:"echoat"` // stream offset at which the echo of this line ended
}

// CLI is a causal CLI device: line discipline with echo, modes with prompts, hidden input.
type CLI struct {
	Prompts map[string]string // mode -> prompt bytes (may end with a space)
	Mode    string
	// NL is what the device emits as end of line ("\r\n" or "\n").
	NL string
	// EchoWrapEvery > 0: after every EchoWrapEvery echoed bytes the device inserts EchoWrap
	// (what a terminal does when wrapping a long line).
	EchoWrapEvery int
	EchoWrap      string
	// NoEcho: the device does not echo at all.
	NoEcho bool
	// HoldPromptSpace: hold back the prompt's trailing space until the next write, so that it
	// shares a read with the next echo.
	HoldPromptSpace bool
	// Banner is emitted at open, followed by the prompt (unless NoInitialPrompt).
	Banner          []Token
	NoInitialPrompt bool
	// Handler computes the reply to a command line.
	Handler func(d *CLI, mode, line string) Reply
	// Silent: when true the device swallows input without reacting (used after a planned stall).
	Silent bool
	// InitialAsk, if set, is what the device shows at open (after the banner) instead of a prompt:
	// a login dialogue.
	InitialAsk *Ask

	Lines []LineRec

	line   []byte
	echoed int
	ask    *Ask
	lastCR bool
	// PromptEnds are the stream offsets at which a prompt ended (match points for pacing checks).
	PromptEnds []int
	// EchoEnds are stream offsets at which the echo of each input byte run ended.
	OutStart []int // stream offset at which each reply's output started
	// Spans gives, per received line, the stream offsets of its echo, output and prompt.
	Spans []Span
	cur   Span
}

// Span locates one exchange in the outbound stream: echo [EchoS,EchoE), newline, output
// [OutS,PromptS), prompt [PromptS,End).
type Span struct {
	EchoS, EchoE, OutS, PromptS, End int
}

// State implements Device.
func (d *CLI) State() string {
	if d.ask != nil {
		return d.Mode + "/hidden"
	}
	return d.Mode
}

// InputLine returns the bytes typed so far on the current line.
func (d *CLI) InputLine() string { return string(d.line) }

// AtPrompt reports whether the device is at a command prompt with an empty input line.
func (d *CLI) AtPrompt() bool { return d.ask == nil && len(d.line) == 0 }

func (d *CLI) nl() string {
	if d.NL == "" {
		return "\r\n"
	}
	return d.NL
}

// EmitTokens writes tokens to the conn.
func EmitTokens(c *Conn, toks []Token) {
	for _, t := range toks {
		switch t.Kind {
		case "esc":
			c.EmitProtected([]byte(t.S))
		default:
			c.Emit([]byte(t.S))
		}
	}
}

func (d *CLI) emitPrompt(c *Conn) {
	p := d.Prompts[d.Mode]
	c.Emit([]byte(p))
	d.PromptEnds = append(d.PromptEnds, c.Generated())
	if d.HoldPromptSpace && len(p) > 0 && p[len(p)-1] == ' ' {
		c.Hold(1)
	}
}

// Start implements Device.
func (d *CLI) Start(c *Conn) {
	EmitTokens(c, d.Banner)
	if d.InitialAsk != nil {
		d.ask = d.InitialAsk
		c.Emit([]byte(d.ask.Prompt))
		return
	}
	if !d.NoInitialPrompt {
		d.emitPrompt(c)
	}
}

// Input implements Device.
func (d *CLI) Input(c *Conn, b []byte) {
	if d.Silent {
		return
	}
	for _, ch := range b {
		if ch == '\n' && d.lastCR {
			d.lastCR = false
			continue // second half of a CRLF return
		}
		d.lastCR = ch == '\r'
		if ch == '\n' || ch == '\r' {
			d.endOfLine(c)
			continue
		}
		d.line = append(d.line, ch)
		if (d.ask == nil || d.ask.Echo) && !d.NoEcho {
			// a terminal wraps when the next character is typed, not after the last one
			if d.EchoWrapEvery > 0 && d.echoed > 0 && d.echoed%d.EchoWrapEvery == 0 {
				c.Emit([]byte(d.EchoWrap))
			}
			if len(d.line) == 1 {
				d.cur = Span{EchoS: c.Generated()}
			}
			c.Emit([]byte{ch})
			d.echoed++
		}
	}
}

func (d *CLI) endOfLine(c *Conn) {
	line := string(d.line)
	d.line = d.line[:0]
	d.echoed = 0
	sp := d.cur
	d.cur = Span{}
	if line == "" || (d.ask != nil && !d.ask.Echo) || d.NoEcho {
		sp.EchoS = c.Generated()
	}
	sp.EchoE = c.Generated()
	defer func() {
		sp.End = c.Generated()
		sp.PromptS = sp.End
		if n := len(d.PromptEnds); n > 0 && d.PromptEnds[n-1] == sp.End {
			sp.PromptS = sp.End - len(d.Prompts[d.Mode])
		}
		d.Spans = append(d.Spans, sp)
	}()
	rec := LineRec{Mode: d.Mode, State: "cmd", Line: line, Seq: c.SeqLocked(), DelivA: c.DeliveredLocked(), EchoAt: c.Generated()}
	var r Reply
	if d.ask != nil {
		rec.State = "hidden"
		a := d.ask
		d.ask = nil
		d.Lines = append(d.Lines, rec)
		r = a.Then(line)
	} else {
		d.Lines = append(d.Lines, rec)
		if d.Handler != nil {
			r = d.Handler(d, d.Mode, line)
		}
	}
	if !r.NoNewline {
		c.Emit([]byte(d.nl()))
	}
	d.OutStart = append(d.OutStart, c.Generated())
	sp.OutS = c.Generated()
	EmitTokens(c, r.Out)
	if r.NewMode != "" {
		d.Mode = r.NewMode
	}
	if len(r.Raw) > 0 {
		c.Emit(r.Raw)
	}
	if r.Ask != nil {
		d.ask = r.Ask
		c.Emit([]byte(r.Ask.Prompt))
		return
	}
	if !r.NoPrompt {
		d.emitPrompt(c)
	}
}

// RenderRef computes the reference of what the library must return for output tokens `out`
// followed by `prompt`: text tokens only, CR dropped, spaces right-trimmed per line, prompt line
// removed when strip, outer return/newline bytes trimmed. nl is the device's end of line.
func RenderRef(out []Token, nl, prompt string, strip bool) string {
	var b bytes.Buffer
	for _, t := range out {
		if t.Kind == "text" {
			b.WriteString(t.S)
		}
	}
	full := nl + b.String()
	if !strip {
		full += prompt
	}
	s := bytes.ReplaceAll([]byte(full), []byte("\r"), nil)
	lines := bytes.Split(s, []byte("\n"))
	for i := range lines {
		lines[i] = bytes.TrimRight(lines[i], " ")
	}
	s = bytes.Join(lines, []byte("\n"))
	s = bytes.Trim(s, "\n")
	return string(s)
}

// String of a token list (debugging / samples).
func TokString(out []Token) string {
	var b bytes.Buffer
	for _, t := range out {
		if t.Kind == "text" {
			b.WriteString(t.S)
		} else {
			fmt.Fprintf(&b, "%q", t.S)
		}
	}
	return b.String()
}
